#!/bin/bash
# selftest.sh [seed...] : every registered quick check once per seed (default 5 seeds) from fresh
# processes on the current tree; every run must exit 0, every evidence file must validate against
# the schema, MANIFEST.json must validate and list exactly the properties the harness registers.
cd "$(dirname "$0")"
SEEDS="${@:-1 2 3 4 5}"
./check --setup >/dev/null || { echo "setup failed"; exit 2; }
IDS=$(harness/target/release/vcheck list | grep -v '^ ')
BAD=0
for S in $SEEDS; do
  for ID in $IDS; do
    rm -f evidence/$ID.json
    OUT=$(VERIF_STRICT_CLASSES=1 VERIF_SEED=$S ./check $ID quick 2>&1); RC=$?
    if [ $RC -ne 0 ]; then BAD=1; echo "seed=$S $ID exit=$RC"; echo "$OUT" | grep -a -v "^KNOWN" | cut -c1-500 | head -5; fi
    python3-vt - "$ID" <<'PY' || BAD=1
import json, sys, jsonschema
i = sys.argv[1]
ev = json.load(open(f"evidence/{i}.json"))
jsonschema.validate(ev, json.load(open("/root/.vp/EVIDENCE.schema.json")))
assert ev["property_id"] == i and ev["violations"] == 0, (i, ev["violations"])
PY
  done
  echo "seed $S: all checks ran"
done
python3-vt - <<'PY' || BAD=1
import json, subprocess, jsonschema
m = json.load(open("MANIFEST.json"))
jsonschema.validate(m, json.load(open("/root/.vp/MANIFEST.schema.json")))
have = [l.strip() for l in subprocess.run(["harness/target/release/vcheck", "list"], capture_output=True, text=True).stdout.splitlines() if l and not l.startswith(" ")]
claimed = [c["property_id"] for c in m["checks"]]
assert sorted(have) == sorted(claimed), (have, claimed)
print("manifest ok:", len(claimed), "checks")
PY
[ $BAD -eq 0 ] && echo "SELFTEST OK" || { echo "SELFTEST FAILED"; exit 1; }
