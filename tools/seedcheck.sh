#!/bin/bash
# tools/seedcheck.sh <ID> <dir with patch.diff, demo.rs> <slot> [tier]
# Confirms a seeded change independently (suite passes with it, demo fails with it and passes
# without it) in scratch worktree /tmp/wt-s<slot>, then runs ./check <ID> against the changed tree
# from a scratch copy of /verif (/tmp/v-s<slot>). Prints one summary line.
ID=$1; D=$2; SLOT=$3; TIER=${4:-quick}
WT=/tmp/wt-s$SLOT; V=/tmp/v-s$SLOT
export CARGO_NET_OFFLINE=true
if [ ! -d $WT ]; then git -C /repo worktree add --detach $WT HEAD >/dev/null 2>&1; fi
git -C $WT checkout -q --detach $(git -C /repo rev-parse HEAD) 2>/dev/null; git -C $WT checkout -- . ; rm -f $WT/tests/seed_demo.rs
if ! git -C $WT apply --check $D/patch.diff 2>/dev/null; then echo "$ID $D: PATCH DOES NOT APPLY"; exit 0; fi
git -C $WT apply $D/patch.diff
(cd $WT && cargo test --workspace --no-fail-fast --offline >/tmp/seedlog-$SLOT-suite.txt 2>&1); SUITE=$?
cp $D/demo.rs $WT/tests/seed_demo.rs
(cd $WT && cargo test --offline --test seed_demo >/tmp/seedlog-$SLOT-demo1.txt 2>&1); DEMO_WITH=$?
git -C $WT apply -R $D/patch.diff
(cd $WT && cargo test --offline --test seed_demo >/tmp/seedlog-$SLOT-demo2.txt 2>&1); DEMO_WITHOUT=$?
rm -f $WT/tests/seed_demo.rs
git -C $WT apply $D/patch.diff
rsync -a --exclude .git --exclude target --exclude run --exclude evidence --exclude 'replays/found' /verif/ $V/
sed -i "s#path = \"/repo\"#path = \"$WT\"#" $V/harness/Cargo.toml
(cd $V && ./check $ID $TIER > /tmp/seedlog-$SLOT-check.txt 2>&1); CHK=$?
git -C $WT checkout -- .
FIRST=$(grep -a -m1 "^FAIL" /tmp/seedlog-$SLOT-check.txt | cut -c1-260)
echo "$ID $(basename $D): suite_exit=$SUITE demo_with=$DEMO_WITH demo_without=$DEMO_WITHOUT check_exit=$CHK :: $FIRST"
