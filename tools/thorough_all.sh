#!/bin/bash
# tools/thorough_all.sh [ID...] : runs the thorough tier of every (or the given) property once and prints
# the summary line, wall time and anything that is not exit 0.
cd "$(dirname "$0")/.."
./check --setup >/dev/null
IDS="${@:-$(harness/target/release/vcheck list | grep -v '^ ')}"
for ID in $IDS; do
  T0=$(date +%s)
  OUT=$(./check $ID thorough 2>&1); RC=$?
  T1=$(date +%s)
  echo "$ID thorough exit=$RC wall=$((T1-T0))s :: $(echo "$OUT" | grep -a "^$ID thorough" | cut -c1-200)"
  echo "$OUT" | grep -a "libFuzzer" | cut -c1-200
  if [ $RC -ne 0 ]; then echo "$OUT" | grep -a -v "^KNOWN" | cut -c1-700 | head -8; fi
done
echo "thorough_all finished"
