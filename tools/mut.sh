#!/bin/bash
# Sensitivity helper: tools/mut.sh <ID> <repo-relative file> <sed expression> [tier]
# Applies a one-line mutant in a scratch worktree (/tmp/wt-me), runs the check from a scratch
# copy of /verif (/tmp/v-me) against it, prints the verdict, reverts the mutant.
set -u
ID=$1; F=$2; EXPR=$3; TIER=${4:-quick}
if [ ! -d /tmp/wt-me ]; then git -C /repo worktree add --detach /tmp/wt-me HEAD >/dev/null 2>&1; fi
git -C /tmp/wt-me checkout -q --detach $(git -C /repo rev-parse HEAD) 2>/dev/null
git -C /tmp/wt-me checkout -- . 
rsync -a --exclude .git --exclude target --exclude run --exclude evidence --exclude 'replays/found' /verif/ /tmp/v-me/
sed -i 's#path = "/repo"#path = "/tmp/wt-me"#' /tmp/v-me/harness/Cargo.toml
sed -i "$EXPR" /tmp/wt-me/$F
if git -C /tmp/wt-me diff --quiet; then echo "MUTANT DID NOT APPLY"; exit 9; fi
git -C /tmp/wt-me diff | grep '^[-+][^-+]' | head -6
(cd /tmp/v-me && ./check $ID $TIER 2>&1 | grep -v "^KNOWN" | cut -c1-400 | head -4)
echo "exit=${PIPESTATUS[0]}"
git -C /tmp/wt-me checkout -- .
