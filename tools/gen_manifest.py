#!/usr/bin/env python3
"""Regenerates /verif/MANIFEST.json from the table below (kept in one place so that
the manifest is always valid and in step with the harness registry)."""
import json, os, subprocess, sys
V = os.path.dirname(os.path.dirname(os.path.abspath(__file__)))

# id -> (technique, level text, level note, design ref)
P = {
 "C01": ("proptest generated cases vs. exhaustive definition oracle (all sub-range pairs x Gotoh DP) + path validator + fresh-vs-reused aligner differential",
         "Generated-input search: every reported score is compared with an independent brute-force optimum of the documented clip model, every path is re-scored by a validator, and reuse histories are compared with a fresh aligner. Exploration, not proof: small instances exhaustively per case, larger ones against a cross-validated reference DP.",
         "Scores/penalties bounded (|v|<=8) so that i32 arithmetic with the MIN_SCORE sentinel cannot overflow; the definition oracle covers lengths<=80, the large layer (lengths 100..1025) uses the cross-validated O(mn) reference DP; gap runs split by a clip op are charged two opens (upstream fuzz-target convention). Thorough adds a libFuzzer campaign (target align) with the same oracle in the target."),
 "C02": ("proptest generated cases over all banded entry points vs. unbanded optimum (soundness), exactness on full band, budget sentinel, watchdog for termination",
         "Generated-input search with an independent unbanded optimum as upper bound, a path validator, exact equality when no k-mer match exists, explicit MAX_CELLS boundary cases and a two-stage watchdog for the termination clause.",
         "Same scoring bounds as C01; match paths handed to custom_with_match_path are valid chains (documented caller duty); termination is decided as 'finishes within 10^4 x normal cost, reproducibly'; 3 open known findings (KNOWN_FINDINGS.txt) are excluded by input signature and counted. Thorough adds a libFuzzer campaign (target align)."),
 "C03": ("proptest + bounded-exhaustive texts vs. direct suffix comparison / brute-force LCP, SUS; sampled SA differential",
         "Generated texts (repetitive, runs, Fibonacci, multi-sentinel, >255 ranks, LCP>=127) checked against a direct comparison oracle that does not assume which order the implementation picks among sentinels; exhaustive for all short texts over {A,C}.",
         "Texts end with a sentinel that is their smallest symbol; integer texts are dense and end in a unique 0."),
 "C04": ("proptest generated texts/alphabets/sampling rates vs. naive counting for every (row, symbol); BWT inversion round trip",
         "Every Occ.get(r,c), less[c] and bwt[r] of each generated index is compared with naive counting, with sampling rates forced into the k<=64, 65..130 and k>n classes.",
         "Alphabet handed to less/Occ contains all text symbols."),
 "C05": ("proptest generated index/pattern pairs vs. naive substring scan; owned/borrowed/Arc and raw/sampled SA differential",
         "Backward-search results (Complete/Partial/Absent, interval contents, partial length) compared with a naive scan for every generated pattern, across ownership modes and sampled suffix arrays.",
         "Patterns are non-empty, sentinel-free and over the index alphabet."),
 "C06": ("proptest generated sequence sets/patterns vs. brute-force SMEM definition and naive occurrence sets on both strands; random extension walks",
         "smems/all_smems compared as sets with the brute-force definition of supermaximality; both intervals of every result and of every step of a random forward/backward extension walk compared with naive occurrence lists.",
         "Index text = s$revcomp(s)$ per sequence over the DNA alphabet with N, either case."),
 "C07": ("model-based operation histories (vec of ops + interpreter) vs. Vec model; AVL invariants read through derived Serialize after every insert",
         "Stateful generated histories of insert/find/find_mut/index on the AVL tree, array-backed tree and AnnotMap, each query compared as a multiset with a Vec model; balance/height/max invariants checked on the serialised tree after every insertion.",
         "Intervals and queries have positive width; tree structure is observed through serde field names (if they change the check reports inconclusive, not a violation). Thorough adds a libFuzzer campaign (target histories: the input bytes are the operation history, same interpreter and Vec model in the target)."),
 "C08": ("proptest generated (pattern, texts) + bounded-exhaustive enumeration vs. naive window scan, matcher reuse",
         "All five matchers compared with a naive scan on generated and exhaustively enumerated cases, with forced pattern lengths at the word-size limits and one matcher object reused across texts.",
         "Patterns non-empty; <=64 symbols for ShiftAnd/BNDM."),
 "C09": ("proptest generated (pattern,text,k,word type,ambiguity) vs. semi-global column DP; textbook Hamming/Levenshtein",
         "Every hit list of Myers (4 word widths, simple and block), Ukkonen and the distance functions compared with an independent DP, with pattern lengths forced to word/block boundaries and k up to usize::MAX for the block version.",
         "k<=255 for the single-word version as documented; Ukkonen costs in 0..=3. Thorough adds a libFuzzer campaign (target myers)."),
 "C10": ("proptest generated searches + query scripts over eager/lazy APIs vs. path validator and DP distances; simple-vs-block differential; reuse histories",
         "Each hit's start/end/path validated against the DP, all API variants compared with each other under random interleavings of next() and *_at(end), one Myers object reused across searches.",
         "ops vector cleared before path_at (it appends); block version *_at only at reported hit ends (documented). Thorough adds a libFuzzer campaign (target myers)."),
 "C11": ("proptest generated record lists x buffer capacities x read-chunk schedules; round trip, re-wrap/CRLF metamorphic relation, truncation at every offset, arbitrary bytes",
         "Write-read round trips under generated I/O schedules, layout metamorphoses, sniffer agreement, and fault injection (every truncation offset, junk bytes) with an item cap and watchdog for the no-panic/no-loop clause.",
         "ids without whitespace, descriptions without leading/trailing blanks or line breaks, non-empty ASCII sequences. Thorough adds a libFuzzer campaign (target fastx)."),
 "C12": ("model-based histories of fetch/read/read_iter on a chunked Read+Seek vs. in-memory sequences; truncation faults",
         "Generated FASTA layouts with harness-computed .fai; every read compared with seq[start..stop]; misuse must be Err; truncated files must never yield short or shifted data.",
         "Uniform line width >=1 per record, terminator LF or CRLF."),
 "C13": ("proptest generated records -> writer -> reader round trip per dialect; malformed-line injection and byte corruption vs. independent strict line parser",
         "Round trips of BED (0-9 aux columns) and GFF3/GFF2/GTF2 with multi-valued attributes; per-line strict-parser oracle for injected malformed lines, corruption and truncation.",
         "Keys/values avoid the dialect's delimiters, quotes, tabs and newlines. Thorough adds a libFuzzer campaign (target tabular: bytes through the BED reader and the three GFF dialect readers, strict line parser as oracle)."),
 "C14": ("proptest generated models/observations vs. enumeration of all S^T state paths in f64",
         "Viterbi/forward/backward compared with the path-max / path-sum definition over all state paths, including exact zeros, ties, sub-stochastic rows and explicit end probabilities.",
         "Tolerance: Viterbi 1e-9 relative, likelihood 1e-3 relative (fast-exponential accuracy)."),
 "C15": ("proptest generated operands/lists/grids vs. the same formula in plain f64 with the stated 0.5% bound",
         "Log-space operations and integrators compared with linear-space arithmetic over operands many orders apart, equal operands and formula switch points; conversion round trips; Prob::checked domain.",
         "Tolerance 0.5% of the largest operand (+1e-200 flush-to-zero); random lists <=200 entries, the large layer uses lists/grids up to 2^20 entries with a compensated f64 sum as the linear-space image."),
 "C16": ("proptest generated queries/histories vs. Needleman-Wunsch; operation list read through derived Serialize; graph invariants after every addition",
         "Linear-graph scores compared with textbook NW, paths re-scored, wide-band banded alignment compared, graph invariants (acyclic, monotone weights, bounded growth, consensus spelled by a path) checked after every addition of a generated history.",
         "gap_open is the per-base penalty (gap_extend unused, as documented); symbol X excluded (built-in wildcard). Thorough adds a libFuzzer campaign (target histories: fuzzer-built addition histories with the C16/history oracle in the target)."),
 "C17": ("proptest + bounded-exhaustive bit vectors vs. running counts; wavelet matrix vs. naive counting",
         "rank/select of every index of generated and exhaustively enumerated bit vectors (lengths around superblock boundaries, all densities) compared with running counts; WaveletMatrix::rank for all symbols and positions.",
         "bit vectors of length >=1, k>=1."),
 "C18": ("model-based operation histories vs. Vec models after every step",
         "Generated histories on BitEnc (all widths 1..8, values over the full u8 range), SmallInts (4 type pairs) and Fenwick trees compared with plain vectors after every operation.",
         "BitEnc values are compared width-masked. Thorough adds a libFuzzer campaign (target histories: fuzzer-built BitEnc operation histories against the Vec model)."),
 "C19": ("proptest generated alphabets/texts/patterns vs. brute-force q-gram positions, diagonal merging and O(n^2) chain DP",
         "q-gram index, exact_matches, matches, k-mer match finding and LCSk++ chaining compared with brute-force definitions, with alphabet sizes that are not powers of two.",
         "q*ceil(log2|A|)<=64; match lists handed to the chaining functions are sorted."),
 "C20": ("proptest generated sequences/codon sets vs. brute-force ORF enumeration; exhaustive 256-byte complement tables from IUPAC sets; alphabet laws",
         "ORF soundness and completeness (with the min_len slack the statement leaves), complement involution over all 256 bytes, alphabet membership/rank bijection, GC content.",
         "Start and stop codon sets are disjoint."),
}

def built():
    out = subprocess.run([f"{V}/harness/target/release/vcheck", "list"], capture_output=True, text=True).stdout
    return sorted(l.strip() for l in out.splitlines() if l and not l.startswith(" "))

def main():
    have = built()
    checks, na = [], []
    for pid in sorted(P):
        tech, text, note = P[pid]
        if pid in have:
            checks.append({
                "property_id": pid,
                "quick_cmd": f"./check {pid} quick",
                "thorough_cmd": f"./check {pid} thorough",
                "evidence_file": f"/verif/evidence/{pid}.json",
                "replay_cmd_template": f"./check {pid} replay {{path}}",
                "engine": "vcheck",
                "level_claimed": {"category": "exploration", "text": text, "design_ref": f"DESIGN.md section 4, {pid}"},
                "level_note": note,
                "technique": tech,
            })
        else:
            na.append({"property_id": pid, "reason": "check not built yet (work in progress; the property is decidable by generated-input search, see DESIGN.md section 4)"})
    hooks_commits = []
    m = {
        "version": 1,
        "setup_cmd": "./check --setup",
        "hooks": {
            "guard": "--cfg rust_bio_verif (reserved, unused: no source hooks were needed)",
            "enable": "none needed: the harness depends on /repo by path and observes private structure through derived Serialize impls",
            "baseline_off_cmd": "cd /repo && cargo test --workspace --no-fail-fast --offline",
            "source_commits": hooks_commits,
            "add_only": True,
        },
        "engines": [{"name": "vcheck", "path": "/verif/harness", "serves_properties": have,
                     "kind_free_text": "Rust harness: proptest TestRunner (fixed seed, shrinking, no persistence) + bounded-exhaustive enumerators, worker processes with watchdog, independent oracles, JSON replay files"}],
        "checks": checks,
        "not_applicable": na,
        "notes": "Exit codes: 0 held, 1 VIOLATION (with replay path), 2 inconclusive/infrastructure. VERIF_SEED selects the PRNG seed. KNOWN_FINDINGS.txt lists open findings and fixed defects. Every check has four layers of sub-checks (small random + bounded-exhaustive; size ladders 255..2^20; value/configuration ladders; usage patterns: iterator protocol, aliased arguments, self-application, use after refusal), see DESIGN.md section 10.",
    }
    json.dump(m, open(f"{V}/MANIFEST.json", "w"), indent=1)
    print("checks:", [c["property_id"] for c in checks])

main()
