#!/usr/bin/env python3
"""tools/mutgen.py [per_property] [seed] > list.jsonl

Generates first-order syntactic mutants of the files each property is anchored in (properties.jsonl,
anchors.files, `src/` only): relational / arithmetic / boolean operator swaps, `+ 1` / `- 1` removal,
min<->max, compound-assignment flips, true<->false, and deletion of single state-changing statements.
Test modules (`#[cfg(test)]` to the end of the file), comments, doc comments, assertions, `use` lines and
item headers are never touched. A fixed number of mutants per property is drawn with a seeded PRNG, duplicates
(the same file/line/operator reached through two properties) are merged and carry both property ids.

Each output line: {"id": n, "file": ..., "line": k (1-based), "op": ..., "old": ..., "new": ..., "props": [...]}
The campaign itself is run by tools/mutrun.sh; nothing here touches /repo.
"""
import json, random, re, sys

REPO = "/repo"
PER = int(sys.argv[1]) if len(sys.argv) > 1 else 12
SEED = int(sys.argv[2]) if len(sys.argv) > 2 else 20261003

OPS = [
    ("rel<=to<", r" <= ", " < "),
    ("rel<to<=", r"(?<=[\w\)\]]) < (?=[\w\(\-])", " <= "),
    ("rel>=to>", r" >= ", " > "),
    ("rel>to>=", r"(?<=[\w\)\]]) > (?=[\w\(\-])", " >= "),
    ("eq-to-ne", r" == ", " != "),
    ("ne-to-eq", r" != ", " == "),
    ("and-to-or", r" && ", " || "),
    ("or-to-and", r" \|\| ", " && "),
    ("drop+1", r" \+ 1(?![\w\.])", ""),
    ("drop-1", r" - 1(?![\w\.])", ""),
    ("plus-to-minus", r"(?<=[\w\)\]]) \+ (?=[\w\(])", " - "),
    ("minus-to-plus", r"(?<=[\w\)\]]) - (?=[\w\(])", " + "),
    ("min-to-max", r"\.min\(", ".max("),
    ("max-to-min", r"\.max\(", ".min("),
    ("pluseq-to-minuseq", r" \+= ", " -= "),
    ("minuseq-to-pluseq", r" -= ", " += "),
    ("true-to-false", r"\btrue\b", "false"),
    ("false-to-true", r"\bfalse\b", "true"),
]
STMT = re.compile(r"^\s*(self\.|\*)?[a-zA-Z_][\w\.\[\]\(\)\* ]*?(\s[\+\-\*\|&]?=\s[^=]|\.(push|push_back|clear|insert|truncate|reverse|sort|sort_unstable|extend|resize|pop|swap|remove|retain|fill)\w*\().*;\s*$")
SKIP_PREFIX = ("//", "#[", "#!", "use ", "pub use", "assert", "debug_assert", "println", "eprintln", "panic!", "unimplemented", "unreachable", "type ", "pub type", "impl", "pub fn", "fn ", "pub(crate) fn", "pub struct", "struct ", "pub enum", "enum ", "pub trait", "trait ", "mod ", "pub mod", "const ", "pub const", "static ", "where", "let _", "macro_rules", "extern", "}", "{", "///", "//!", "*", "/*")


def candidates(path):
    lines = open(f"{REPO}/{path}").read().split("\n")
    out = []
    in_tests = False
    for i, l in enumerate(lines):
        s = l.strip()
        if "#[cfg(test)]" in s:
            in_tests = True
        if in_tests or not s or s.startswith(SKIP_PREFIX):
            continue
        code = l.split("//")[0]
        if not code.strip():
            continue
        for name, pat, rep in OPS:
            m = re.search(pat, code)
            if m:
                new = code[: m.start()] + rep + code[m.end():]
                if new != code:
                    out.append((path, i + 1, name, l, new))
        if STMT.match(code) and "let " not in code and "return" not in code:
            out.append((path, i + 1, "delete-statement", l, re.match(r"^\s*", l).group(0) + "// (statement removed)"))
    return out


def main():
    rng = random.Random(SEED)
    props = [json.loads(l) for l in open("/verif/properties.jsonl")]
    chosen = {}
    for p in props:
        files = [f for f in p["anchors"]["files"] if f.startswith("src/")]
        pool = []
        for f in files:
            pool.extend(candidates(f))
        rng.shuffle(pool)
        # spread over operators: at most a third of the sample from one operator
        per_op = {}
        taken = 0
        for c in pool:
            if taken >= PER:
                break
            if per_op.get(c[2], 0) >= max(2, PER // 3):
                continue
            key = (c[0], c[1], c[2])
            if key in chosen:
                if p["id"] not in chosen[key]["props"]:
                    chosen[key]["props"].append(p["id"])
                continue
            chosen[key] = {"file": c[0], "line": c[1], "op": c[2], "old": c[3], "new": c[4], "props": [p["id"]]}
            per_op[c[2]] = per_op.get(c[2], 0) + 1
            taken += 1
    # every property that anchors the file judges the mutant
    by_file = {}
    for p in props:
        for f in p["anchors"]["files"]:
            by_file.setdefault(f, []).append(p["id"])
    for n, (key, m) in enumerate(sorted(chosen.items())):
        m["id"] = n
        for pid in by_file.get(m["file"], []):
            if pid not in m["props"]:
                m["props"].append(pid)
        print(json.dumps(m))


main()
