#!/bin/bash
# tools/sweep.sh <tier> <seed>... : runs every registered check once per seed and prints one line per
# run that did not exit 0 (used to make sure no check raises an alarm on the unchanged tree).
TIER=$1; shift
cd "$(dirname "$0")/.."
./check --setup >/dev/null
IDS=$(harness/target/release/vcheck list | grep -v '^ ')
for S in "$@"; do
  for ID in $IDS; do
    OUT=$(VERIF_STRICT_CLASSES=1 VERIF_SEED=$S ./check $ID $TIER 2>&1); RC=$?
    if [ $RC -ne 0 ]; then echo "seed=$S $ID exit=$RC"; echo "$OUT" | grep -a -v "^KNOWN" | cut -c1-600 | head -6; fi
  done
  echo "seed $S done"
done
echo "sweep finished"
