#!/bin/bash
# tools/mutrun.sh <slot> <list.jsonl> <result file> [stride offset]
# Mutation campaign worker: takes every <stride>-th mutant of the list (starting at <offset>), applies it in
# the scratch worktree /tmp/wt-m<slot> of /repo (never in /repo), and classifies it:
#   NOCOMPILE        the crate does not build
#   SUITE-KILLED     the repository's own tests (unit first, then integration + doc tests) fail
#   CHECK-KILLED id  the suite passes and `./check <id> quick` of a property anchored in the file exits 1
#   SURVIVED         the suite passes and every such check exits 0 (to be triaged: equivalent mutant, code outside
#                    every property, or a gap)
#   INCONCLUSIVE     some check exited 2 and none exited 1
# The checks run from a scratch copy /tmp/v-m<slot> of /verif whose harness points at the worktree.
SLOT=$1; LIST=$2; RES=$3; STRIDE=${4:-1}; OFF=${5:-0}
WT=/tmp/wt-m$SLOT; V=/tmp/v-m$SLOT
export CARGO_NET_OFFLINE=true
if [ ! -d $WT ]; then git -C /repo worktree add --detach $WT HEAD >/dev/null 2>&1; fi
git -C $WT checkout -q --detach $(git -C /repo rev-parse HEAD) 2>/dev/null; git -C $WT checkout -- .
rsync -a --exclude .git --exclude target --exclude run --exclude evidence --exclude 'replays/found' /verif/ $V/
sed -i "s#path = \"/repo\"#path = \"$WT\"#" $V/harness/Cargo.toml
N=0
while IFS= read -r LINE; do
  if [ $(( N % STRIDE )) -ne $OFF ]; then N=$((N+1)); continue; fi
  N=$((N+1))
  MID=$(echo "$LINE" | python3 -c "import json,sys; print(json.load(sys.stdin)['id'])")
  git -C $WT checkout -- .
  echo "$LINE" | python3 -c "
import json,sys
m=json.load(sys.stdin)
p='$WT/'+m['file']
ls=open(p).read().split('\n')
assert ls[m['line']-1]==m['old'], 'line mismatch'
ls[m['line']-1]=m['new']
open(p,'w').write('\n'.join(ls))
" || { echo "$MID ERROR apply" >> $RES; continue; }
  PROPS=$(echo "$LINE" | python3 -c "import json,sys; print(' '.join(json.load(sys.stdin)['props']))")
  if ! (cd $WT && cargo build --offline --lib >/dev/null 2>&1); then echo "$MID NOCOMPILE" >> $RES; continue; fi
  if ! (cd $WT && timeout 600 cargo test --offline --lib >/tmp/mutlog-$SLOT.txt 2>&1); then echo "$MID SUITE-KILLED unit" >> $RES; continue; fi
  if ! (cd $WT && timeout 1200 cargo test --offline --workspace --no-fail-fast >/tmp/mutlog-$SLOT.txt 2>&1); then echo "$MID SUITE-KILLED integration-or-doc" >> $RES; continue; fi
  VERDICT="SURVIVED"; DETAIL=""
  for ID in $PROPS; do
    (cd $V && ./check $ID quick > /tmp/mutlog-$SLOT-check.txt 2>&1); RC=$?
    if [ $RC -eq 1 ]; then VERDICT="CHECK-KILLED $ID"; DETAIL=$(grep -a -m1 "^FAIL" /tmp/mutlog-$SLOT-check.txt | cut -c1-200); break; fi
    if [ $RC -ne 0 ]; then VERDICT="INCONCLUSIVE $ID"; DETAIL=$(grep -a -m1 "^INCONCLUSIVE" /tmp/mutlog-$SLOT-check.txt | cut -c1-200); fi
  done
  echo "$MID $VERDICT :: $DETAIL" >> $RES
done < $LIST
git -C $WT checkout -- .
echo "worker $SLOT done" >> $RES
