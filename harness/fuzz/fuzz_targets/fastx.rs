#![no_main]
//! libFuzzer target for C11: arbitrary bytes through the FASTA reader, the FASTQ reader and the sniffer
//! under a fuzzer-chosen buffer capacity / read schedule (no panic, termination within the item cap).
use arbitrary::Unstructured;
use libfuzzer_sys::fuzz_target;
use vlib::fuzzglue;

fuzz_target!(|data: &[u8]| {
    let mut u = Unstructured::new(data);
    fuzzglue::fastx_one(&mut u);
});
