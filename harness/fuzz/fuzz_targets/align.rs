#![no_main]
//! libFuzzer target for C01/C02: bytes -> (ScoreSpec, sequences, mode/entry, k, w, history) -> the
//! same check() functions the proptest sub-checks use. The semantic oracle is inside the target.
use arbitrary::Unstructured;
use libfuzzer_sys::fuzz_target;
use vlib::fuzzglue;

fuzz_target!(|data: &[u8]| {
    let mut u = Unstructured::new(data);
    fuzzglue::align_one(&mut u);
});
