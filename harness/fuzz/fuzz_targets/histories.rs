#![no_main]
//! libFuzzer target for the history properties C07 (interval trees and annotation maps), C16 (POA graph
//! growth) and C18 (BitEnc): the bytes are decoded into an operation sequence and handed to the same
//! check() as the proptest sub-checks C07/history, C16/history, C18/bitenc (model in lock-step).
use arbitrary::Unstructured;
use libfuzzer_sys::fuzz_target;
use vlib::fuzzglue;

fuzz_target!(|data: &[u8]| {
    let mut u = Unstructured::new(data);
    fuzzglue::histories_one(&mut u);
});
