#![no_main]
//! libFuzzer target for C13: arbitrary bytes through the BED reader and the three GFF dialect readers; the
//! oracle inside is the strict line parser of props/c13.rs (a malformed line is never Ok, an Ok record equals
//! the strict parse of its own line, one item per data line, no panic, termination).
use arbitrary::Unstructured;
use libfuzzer_sys::fuzz_target;
use vlib::fuzzglue;

fuzz_target!(|data: &[u8]| {
    let mut u = Unstructured::new(data);
    fuzzglue::tabular_one(&mut u);
});
