#![no_main]
//! libFuzzer target for C09/C10: bytes -> Myers case (+ reuse searches and lazy query script).
use arbitrary::Unstructured;
use libfuzzer_sys::fuzz_target;
use vlib::fuzzglue;

fuzz_target!(|data: &[u8]| {
    let mut u = Unstructured::new(data);
    fuzzglue::myers_one(&mut u);
});
