//! Engine: sub-check abstraction over proptest's TestRunner, statistics,
//! worker/watchdog process model, evidence, replay and known findings.
//! See DESIGN.md section 2.

use proptest::strategy::{BoxedStrategy, Strategy};
use proptest::test_runner::{Config, RngAlgorithm, RngSeed, TestCaseError, TestError, TestRunner};
use serde::de::DeserializeOwned;
use serde::{Deserialize, Serialize};
use serde_json::{json, Value};
use std::cell::RefCell;
use std::collections::{BTreeMap, HashSet};
use std::fmt::Debug;
use std::panic::{self, AssertUnwindSafe};
use std::sync::atomic::{AtomicU64, Ordering};
use std::sync::Mutex;
use std::time::Instant;

pub mod driver;
pub mod known;

// ---------------------------------------------------------------------------
// Verdicts

#[derive(Clone, Copy, Debug, PartialEq, Eq, Serialize, Deserialize)]
pub enum Tier {
    Quick,
    Thorough,
}

impl Tier {
    pub fn name(self) -> &'static str {
        match self {
            Tier::Quick => "quick",
            Tier::Thorough => "thorough",
        }
    }
    pub fn parse(s: &str) -> Option<Tier> {
        match s {
            "quick" => Some(Tier::Quick),
            "thorough" => Some(Tier::Thorough),
            _ => None,
        }
    }
}

/// A passing case: whether it is non-trivial by the property's rule, and the
/// class labels it belongs to (for the measured generator distribution).
#[derive(Debug, Default, Clone)]
pub struct Pass {
    pub nontrivial: bool,
    pub classes: Vec<&'static str>,
}

impl Pass {
    pub fn new(nontrivial: bool) -> Pass {
        Pass { nontrivial, classes: Vec::new() }
    }
    pub fn class(mut self, c: &'static str) -> Pass {
        self.classes.push(c);
        self
    }
    pub fn class_if(mut self, cond: bool, c: &'static str) -> Pass {
        if cond {
            self.classes.push(c);
        }
        self
    }
    pub fn add(&mut self, c: &'static str) {
        if !self.classes.contains(&c) {
            self.classes.push(c);
        }
    }
    pub fn add_if(&mut self, cond: bool, c: &'static str) {
        if cond {
            self.add(c);
        }
    }
}

#[derive(Debug, Clone)]
pub enum Stop {
    /// The property is violated by this case.
    Fail(String),
    /// The case matches the input signature of an *open* known finding and is
    /// excluded by construction (counted).
    Skip(&'static str),
}

pub type R = Result<Pass, Stop>;

#[macro_export]
macro_rules! ensure {
    ($cond:expr, $($arg:tt)*) => {
        if !($cond) {
            return Err($crate::engine::Stop::Fail(format!($($arg)*)));
        }
    };
}

#[macro_export]
macro_rules! fail {
    ($($arg:tt)*) => {
        return Err($crate::engine::Stop::Fail(format!($($arg)*)))
    };
}

// ---------------------------------------------------------------------------
// Panic capture

thread_local! {
    static LAST_PANIC: RefCell<Option<String>> = const { RefCell::new(None) };
}

pub fn install_panic_hook() {
    panic::set_hook(Box::new(|info| {
        let msg = if let Some(s) = info.payload().downcast_ref::<&str>() {
            (*s).to_string()
        } else if let Some(s) = info.payload().downcast_ref::<String>() {
            s.clone()
        } else {
            "<non-string panic>".to_string()
        };
        let loc = info
            .location()
            .map(|l| format!("{}:{}", l.file(), l.line()))
            .unwrap_or_default();
        LAST_PANIC.with(|p| *p.borrow_mut() = Some(format!("{} at {}", msg, loc)));
    }));
}

/// Run `f`, converting a panic into `Err(message)`.
pub fn catch<T>(f: impl FnOnce() -> T) -> Result<T, String> {
    match panic::catch_unwind(AssertUnwindSafe(f)) {
        Ok(v) => Ok(v),
        Err(_) => Err(LAST_PANIC
            .with(|p| p.borrow_mut().take())
            .unwrap_or_else(|| "panic".to_string())),
    }
}

/// Run a check function with panic capture: a panic of the code under test on
/// an in-domain input violates the property.
pub fn guarded<C>(check: fn(&C) -> R, case: &C) -> R {
    match catch(|| check(case)) {
        Ok(r) => r,
        Err(msg) => Err(Stop::Fail(format!("panic: {}", msg))),
    }
}

// ---------------------------------------------------------------------------
// Watchdog (in-process): the worker's main thread publishes the case it is
// about to run; a monitor thread trips when one case exceeds the wall budget
// or the process exceeds the memory budget, dumps the case and exits 3.

pub struct Watch {
    pub current: Mutex<Option<(Instant, String)>>,
    pub case_budget_ms: AtomicU64,
    pub rss_budget_kb: AtomicU64,
    pub dump_path: Mutex<Option<String>>,
    pub header: Mutex<Option<(String, String)>>, // (property, subcheck)
}

pub static WATCH: Watch = Watch {
    current: Mutex::new(None),
    case_budget_ms: AtomicU64::new(120_000),
    rss_budget_kb: AtomicU64::new(6 * 1024 * 1024),
    dump_path: Mutex::new(None),
    header: Mutex::new(None),
};

fn rss_kb() -> u64 {
    if let Ok(s) = std::fs::read_to_string("/proc/self/statm") {
        let mut it = s.split_whitespace();
        let _size = it.next();
        if let Some(res) = it.next() {
            if let Ok(p) = res.parse::<u64>() {
                return p * 4;
            }
        }
    }
    0
}

pub const EXIT_WATCHDOG: i32 = 3;

pub fn start_watchdog() {
    std::thread::spawn(|| loop {
        std::thread::sleep(std::time::Duration::from_millis(25));
        let budget = WATCH.case_budget_ms.load(Ordering::Relaxed);
        let mut reason = None;
        {
            let cur = WATCH.current.lock().unwrap();
            if let Some((t0, _)) = &*cur {
                if t0.elapsed().as_millis() as u64 > budget {
                    reason = Some(format!("case exceeded wall budget of {} ms", budget));
                }
            }
        }
        if reason.is_none() {
            let rss = rss_kb();
            if rss > WATCH.rss_budget_kb.load(Ordering::Relaxed) {
                reason = Some(format!("resident memory {} kB exceeded budget", rss));
            }
        }
        if let Some(reason) = reason {
            let cur = WATCH.current.lock().unwrap();
            let case = cur.as_ref().map(|(_, c)| c.clone());
            let hdr = WATCH.header.lock().unwrap().clone();
            if let (Some(path), Some(case)) = (WATCH.dump_path.lock().unwrap().clone(), case) {
                let (p, s) = hdr.unwrap_or_default();
                let v: Value = serde_json::from_str(&case).unwrap_or(Value::Null);
                let doc = json!({"property": p, "subcheck": s, "case": v, "failure": format!("non-termination/resource: {}", reason)});
                let _ = std::fs::write(&path, serde_json::to_string_pretty(&doc).unwrap());
            }
            eprintln!("watchdog: {}", reason);
            std::process::exit(EXIT_WATCHDOG);
        }
    });
}

fn dump_current(reason: &str) -> bool {
    let Ok(cur) = WATCH.current.try_lock() else { return false };
    let Some((_, case)) = cur.as_ref() else { return false };
    let hdr = WATCH.header.try_lock().ok().and_then(|h| h.clone());
    let path = WATCH.dump_path.try_lock().ok().and_then(|p| p.clone());
    if let Some(path) = path {
        let (p, s) = hdr.unwrap_or_default();
        let v: Value = serde_json::from_str(case).unwrap_or(Value::Null);
        let doc = json!({"property": p, "subcheck": s, "case": v, "failure": format!("non-termination/resource: {}", reason)});
        let _ = std::fs::write(&path, serde_json::to_string_pretty(&doc).unwrap());
    }
    true
}

extern "C" fn on_fatal_signal(_sig: libc::c_int) {
    // abort() after an allocation failure or a stack overflow: best effort dump of the published case
    dump_current("process aborted (allocation failure, stack overflow or abort)");
    unsafe { libc::_exit(EXIT_WATCHDOG) }
}

/// Convert aborts of the code under test (allocation failure under RLIMIT_AS, stack overflow)
/// into a watchdog exit with the current case dumped.
pub fn install_abort_handler() {
    unsafe {
        libc::signal(libc::SIGABRT, on_fatal_signal as usize);
    }
}

fn watch_begin(json: String) {
    *WATCH.current.lock().unwrap() = Some((Instant::now(), json));
}
fn watch_end() {
    *WATCH.current.lock().unwrap() = None;
}

// ---------------------------------------------------------------------------
// Statistics of one (sub-check, shard) execution

#[derive(Debug, Default, Clone, Serialize, Deserialize)]
pub struct SubStats {
    pub property: String,
    pub subcheck: String,
    pub shard: u32,
    pub cases: u64,
    pub nontrivial: u64,
    pub nontrivial_hashes: Vec<u64>,
    pub classes: BTreeMap<String, u64>,
    pub excluded_known: BTreeMap<String, u64>,
    pub exhaustive: bool,
    pub samples: Vec<Value>,
    pub failure: Option<Failure>,
    pub wall_s: f64,
}

#[derive(Debug, Clone, Serialize, Deserialize)]
pub struct Failure {
    pub message: String,
    pub case: Value,
    pub replay_path: Option<String>,
}

pub struct RunParams {
    pub property: String,
    pub tier: Tier,
    pub seed: u64,
    pub shard: u32,
    pub nshards: u32,
}

fn fnv64(data: &[u8]) -> u64 {
    let mut h: u64 = 0xcbf29ce484222325;
    for b in data {
        h ^= *b as u64;
        h = h.wrapping_mul(0x100000001b3);
    }
    h
}

fn splitmix(mut z: u64) -> u64 {
    z = z.wrapping_add(0x9e3779b97f4a7c15);
    z = (z ^ (z >> 30)).wrapping_mul(0xbf58476d1ce4e5b9);
    z = (z ^ (z >> 27)).wrapping_mul(0x94d049bb133111eb);
    z ^ (z >> 31)
}

pub fn derive_seed(seed: u64, sub: &str, shard: u32) -> u64 {
    splitmix(splitmix(seed) ^ fnv64(sub.as_bytes()) ^ splitmix(shard as u64 + 0x51ed))
}

fn sample_repr(v: &Value) -> Value {
    let s = v.to_string();
    if s.len() <= 1500 {
        v.clone()
    } else {
        let mut cut = 700;
        while !s.is_char_boundary(cut) {
            cut -= 1;
        }
        json!({"truncated_json": &s[..cut], "full_json_len": s.len()})
    }
}

struct Collector {
    stats: SubStats,
    hashes: HashSet<u64>,
    seen_classes: HashSet<&'static str>,
    stopped: bool,
    sample_every: u64,
}

impl Collector {
    fn new(p: &RunParams, sub: &str, planned: u64) -> Collector {
        Collector {
            stats: SubStats {
                property: p.property.clone(),
                subcheck: sub.to_string(),
                shard: p.shard,
                ..Default::default()
            },
            hashes: HashSet::new(),
            seen_classes: HashSet::new(),
            stopped: false,
            sample_every: (planned / 3).max(1),
        }
    }
    fn record_pass(&mut self, pass: &Pass, case_json: &str) {
        if self.stopped {
            return;
        }
        let idx = self.stats.cases;
        self.stats.cases += 1;
        let mut want_sample = idx % self.sample_every == self.sample_every / 2 && self.stats.samples.len() < 12;
        for c in &pass.classes {
            *self.stats.classes.entry((*c).to_string()).or_insert(0) += 1;
            if self.seen_classes.insert(*c) && self.stats.samples.len() < 12 {
                want_sample = true;
            }
        }
        if pass.nontrivial {
            let h = fnv64(case_json.as_bytes());
            if self.hashes.insert(h) {
                self.stats.nontrivial += 1;
            }
            if self.stats.nontrivial == 1 {
                want_sample = true;
            }
        }
        if want_sample {
            let v: Value = serde_json::from_str(case_json).unwrap_or(Value::Null);
            self.stats.samples.push(json!({"subcheck": self.stats.subcheck, "nontrivial": pass.nontrivial, "classes": pass.classes, "case": sample_repr(&v)}));
        }
    }
    fn record_skip(&mut self, sig: &'static str) {
        if self.stopped {
            return;
        }
        *self.stats.excluded_known.entry(sig.to_string()).or_insert(0) += 1;
    }
    fn finish(mut self, t0: Instant) -> SubStats {
        self.stats.nontrivial_hashes = self.hashes.into_iter().collect();
        self.stats.nontrivial_hashes.sort_unstable();
        self.stats.wall_s = t0.elapsed().as_secs_f64();
        self.stats
    }
}

// ---------------------------------------------------------------------------
// Sub-check abstraction

pub trait SubCheck: Sync + Send {
    fn name(&self) -> &'static str;
    /// planned number of cases for the whole sub-check at this tier
    fn planned(&self, tier: Tier) -> u64;
    /// number of shards (worker processes) at this tier
    fn shards(&self, tier: Tier) -> u32;
    fn must_reach(&self) -> &'static [&'static str];
    fn exec(&self, p: &RunParams) -> SubStats;
    /// Run one serialised case directly (no proptest).
    fn replay(&self, case: &Value) -> Result<R, String>;
}

/// Random sub-check driven by a proptest strategy.
pub struct PropSub<C: 'static> {
    pub name: &'static str,
    pub quick: u64,
    pub thorough: u64,
    pub shards_quick: u32,
    pub shards_thorough: u32,
    pub strat: fn(Tier) -> BoxedStrategy<C>,
    pub check: fn(&C) -> R,
    pub must_reach: &'static [&'static str],
    /// publish every case to the watchdog before running it
    pub watch: bool,
}

impl<C> SubCheck for PropSub<C>
where
    C: Serialize + DeserializeOwned + Debug + 'static,
{
    fn name(&self) -> &'static str {
        self.name
    }
    fn planned(&self, tier: Tier) -> u64 {
        match tier {
            Tier::Quick => self.quick,
            Tier::Thorough => self.thorough,
        }
    }
    fn shards(&self, tier: Tier) -> u32 {
        match tier {
            Tier::Quick => self.shards_quick.max(1),
            Tier::Thorough => self.shards_thorough.max(1),
        }
    }
    fn must_reach(&self) -> &'static [&'static str] {
        self.must_reach
    }
    fn exec(&self, p: &RunParams) -> SubStats {
        let t0 = Instant::now();
        // VERIF_CASES_SCALE (default 1) scales the planned work, e.g. 0.01 for a smoke run of the thorough tier
        let scale: f64 = std::env::var("VERIF_CASES_SCALE").ok().and_then(|s| s.parse().ok()).unwrap_or(1.0);
        let total = ((self.planned(p.tier) as f64 * scale).ceil() as u64).max(p.nshards as u64);
        let per = (total + p.nshards as u64 - 1) / p.nshards as u64;
        let col = RefCell::new(Collector::new(p, self.name, per));
        let cfg = Config {
            cases: per as u32,
            failure_persistence: None,
            rng_seed: RngSeed::Fixed(derive_seed(p.seed, self.name, p.shard)),
            rng_algorithm: RngAlgorithm::ChaCha,
            max_shrink_iters: 3000,
            // shrinking only makes the reported failure smaller; on the large-scale ladders one evaluation can cost
            // 0.1-0.5 s, so 3000 steps would hold a failing run for a quarter of an hour (seen with seeded C10-12).
            // The verdict does not depend on this budget, only the minimality of the replay file does.
            max_shrink_time: 90_000,
            max_global_rejects: 1 << 30,
            verbose: 0,
            ..Config::default()
        };
        let mut runner = TestRunner::new(cfg);
        let strat = (self.strat)(p.tier);
        let check = self.check;
        // every case is published to the watchdog, whatever the sub-check's `watch` flag says (the flag dates from
        // when publishing was thought costly; the case is serialised for the distinct-case count anyway). A looping
        // mutant of KMP's failure links stalled C08/random, declared with watch: false, until the worker budget.
        let _declared = self.watch;
        let watch = true;
        let res = runner.run(&strat, |case| {
            let js = serde_json::to_string(&case).expect("case serialises");
            if watch {
                watch_begin(js.clone());
            }
            let r = guarded(check, &case);
            if watch {
                watch_end();
            }
            match r {
                Ok(pass) => {
                    col.borrow_mut().record_pass(&pass, &js);
                    Ok(())
                }
                Err(Stop::Skip(sig)) => {
                    col.borrow_mut().record_skip(sig);
                    Ok(())
                }
                Err(Stop::Fail(msg)) => {
                    col.borrow_mut().stopped = true;
                    Err(TestCaseError::fail(msg))
                }
            }
        });
        let mut stats = col.into_inner().finish(t0);
        match res {
            Ok(()) => {}
            Err(TestError::Fail(reason, case)) => {
                // message of the *shrunk* case
                let msg = match guarded(check, &case) {
                    Err(Stop::Fail(m)) => m,
                    _ => reason.message().to_string(),
                };
                stats.failure = Some(Failure {
                    message: msg,
                    case: serde_json::to_value(&case).unwrap(),
                    replay_path: None,
                });
            }
            Err(TestError::Abort(reason)) => {
                stats.failure = Some(Failure {
                    message: format!("proptest aborted (generator problem, not a violation): {}", reason.message()),
                    case: Value::Null,
                    replay_path: None,
                });
            }
        }
        stats
    }
    fn replay(&self, case: &Value) -> Result<R, String> {
        let c: C = serde_json::from_value(case.clone()).map_err(|e| format!("cannot decode case: {}", e))?;
        Ok(guarded(self.check, &c))
    }
}

/// Bounded-exhaustive sub-check: enumerates a finite space completely.
pub struct ExhSub<C: 'static> {
    pub name: &'static str,
    pub enumerate: fn(Tier) -> Box<dyn Iterator<Item = C>>,
    pub check: fn(&C) -> R,
    pub must_reach: &'static [&'static str],
}

impl<C> SubCheck for ExhSub<C>
where
    C: Serialize + DeserializeOwned + Debug + 'static,
{
    fn name(&self) -> &'static str {
        self.name
    }
    fn planned(&self, _tier: Tier) -> u64 {
        0
    }
    fn shards(&self, _tier: Tier) -> u32 {
        1
    }
    fn must_reach(&self) -> &'static [&'static str] {
        self.must_reach
    }
    fn exec(&self, p: &RunParams) -> SubStats {
        let t0 = Instant::now();
        let mut col = Collector::new(p, self.name, 4000);
        let mut failure = None;
        for case in (self.enumerate)(p.tier) {
            let js = serde_json::to_string(&case).expect("case serialises");
            // enumerated cases are published to the watchdog like watched random ones: a change that makes
            // the code under test loop on one of them is reported after the case budget, not after the
            // worker budget (found by the mutation campaign: `next_i0 = i0` in all_smems)
            watch_begin(js.clone());
            let verdict = guarded(self.check, &case);
            watch_end();
            match verdict {
                Ok(pass) => col.record_pass(&pass, &js),
                Err(Stop::Skip(sig)) => col.record_skip(sig),
                Err(Stop::Fail(msg)) => {
                    failure = Some(Failure {
                        message: msg,
                        case: serde_json::to_value(&case).unwrap(),
                        replay_path: None,
                    });
                    break;
                }
            }
        }
        let mut stats = col.finish(t0);
        stats.exhaustive = failure.is_none();
        stats.failure = failure;
        stats
    }
    fn replay(&self, case: &Value) -> Result<R, String> {
        let c: C = serde_json::from_value(case.clone()).map_err(|e| format!("cannot decode case: {}", e))?;
        Ok(guarded(self.check, &c))
    }
}

// ---------------------------------------------------------------------------
// Property definition

pub struct Property {
    pub id: &'static str,
    pub rule: &'static str,
    pub assumptions: &'static [&'static str],
    pub subs: Vec<Box<dyn SubCheck>>,
}

impl Property {
    pub fn sub(&self, name: &str) -> Option<&dyn SubCheck> {
        self.subs.iter().find(|s| s.name() == name).map(|b| b.as_ref())
    }
}

// ---------------------------------------------------------------------------
// Generator helpers shared by the property modules

pub mod gen {
    use proptest::prelude::*;

    /// Monotone index mapping (shrinks towards 0): frac in 0..=65535 -> 0..=max
    pub fn idx(frac: u16, max: usize) -> usize {
        ((frac as u64 * (max as u64 + 1)) >> 16) as usize
    }

    /// byte string over the first `sigma` letters starting at `base`
    pub fn seq(sigma: u8, base: u8, len: impl Into<proptest::collection::SizeRange>) -> BoxedStrategy<Vec<u8>> {
        proptest::collection::vec((0..sigma).prop_map(move |c| base + c), len).boxed()
    }

    /// sequence whose alphabet size is itself drawn from 1..=max_sigma
    pub fn seq_var(max_sigma: u8, base: u8, lo: usize, hi: usize) -> BoxedStrategy<Vec<u8>> {
        (1..=max_sigma)
            .prop_flat_map(move |s| seq(s, base, lo..=hi))
            .boxed()
    }

    #[derive(Debug, Clone)]
    pub enum Edit {
        Sub(u16, u8),
        Ins(u16, u8),
        Del(u16),
    }

    pub fn edit(sigma: u8, base: u8) -> BoxedStrategy<Edit> {
        prop_oneof![
            (any::<u16>(), 0..sigma).prop_map(move |(p, c)| Edit::Sub(p, base + c)),
            (any::<u16>(), 0..sigma).prop_map(move |(p, c)| Edit::Ins(p, base + c)),
            any::<u16>().prop_map(Edit::Del),
        ]
        .boxed()
    }

    pub fn apply_edits(s: &[u8], edits: &[Edit]) -> Vec<u8> {
        let mut v = s.to_vec();
        for e in edits {
            match e {
                Edit::Sub(p, c) => {
                    if !v.is_empty() {
                        let i = idx(*p, v.len() - 1);
                        v[i] = *c;
                    }
                }
                Edit::Ins(p, c) => {
                    let i = idx(*p, v.len());
                    v.insert(i, *c);
                }
                Edit::Del(p) => {
                    if !v.is_empty() {
                        let i = idx(*p, v.len() - 1);
                        v.remove(i);
                    }
                }
            }
        }
        v
    }

    /// text that contains a noisy copy of `pat` at a random place
    pub fn planted(sigma: u8, base: u8, pat_lo: usize, pat_hi: usize, flank_hi: usize, max_edits: usize) -> BoxedStrategy<(Vec<u8>, Vec<u8>)> {
        (
            seq(sigma, base, pat_lo..=pat_hi),
            seq(sigma, base, 0..=flank_hi),
            seq(sigma, base, 0..=flank_hi),
            proptest::collection::vec(edit(sigma, base), 0..=max_edits),
        )
            .prop_map(|(p, l, r, ed)| {
                let mid = apply_edits(&p, &ed);
                let mut t = l;
                t.extend_from_slice(&mid);
                t.extend_from_slice(&r);
                (p, t)
            })
            .boxed()
    }
}

pub fn lossy(s: &[u8]) -> String {
    String::from_utf8_lossy(s).into_owned()
}

pub use proptest;
pub type BS<T> = BoxedStrategy<T>;
pub fn boxed<S: Strategy + 'static>(s: S) -> BoxedStrategy<S::Value> {
    s.boxed()
}

// ---------------------------------------------------------------------------
// Byte strings that serialise readably (string when printable ASCII, hex otherwise)

#[derive(Clone, PartialEq, Eq, Hash, PartialOrd, Ord, Default)]
pub struct B(pub Vec<u8>);

impl std::fmt::Debug for B {
    fn fmt(&self, f: &mut std::fmt::Formatter<'_>) -> std::fmt::Result {
        write!(f, "b{:?}", lossy(&self.0))
    }
}

impl std::ops::Deref for B {
    type Target = Vec<u8>;
    fn deref(&self) -> &Vec<u8> {
        &self.0
    }
}

impl From<Vec<u8>> for B {
    fn from(v: Vec<u8>) -> B {
        B(v)
    }
}

#[derive(Serialize, Deserialize)]
#[serde(untagged)]
enum BRepr {
    S(String),
    H { hex: String },
}

impl Serialize for B {
    fn serialize<S: serde::Serializer>(&self, s: S) -> Result<S::Ok, S::Error> {
        let printable = self.0.iter().all(|&c| (0x20..0x7f).contains(&c));
        if printable {
            BRepr::S(String::from_utf8(self.0.clone()).unwrap()).serialize(s)
        } else {
            let mut h = String::with_capacity(self.0.len() * 2);
            for b in &self.0 {
                h.push_str(&format!("{:02x}", b));
            }
            BRepr::H { hex: h }.serialize(s)
        }
    }
}

impl<'de> Deserialize<'de> for B {
    fn deserialize<D: serde::Deserializer<'de>>(d: D) -> Result<B, D::Error> {
        match BRepr::deserialize(d)? {
            BRepr::S(s) => Ok(B(s.into_bytes())),
            BRepr::H { hex } => {
                let hb = hex.as_bytes();
                if hb.len() % 2 != 0 {
                    return Err(serde::de::Error::custom("odd hex length"));
                }
                let mut v = Vec::with_capacity(hb.len() / 2);
                for i in (0..hb.len()).step_by(2) {
                    let s = std::str::from_utf8(&hb[i..i + 2]).map_err(serde::de::Error::custom)?;
                    v.push(u8::from_str_radix(s, 16).map_err(serde::de::Error::custom)?);
                }
                Ok(B(v))
            }
        }
    }
}
