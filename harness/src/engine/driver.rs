//! Parent/worker orchestration, evidence writing, replay.

use super::known::{self, verif_dir};
use super::*;
use std::collections::BTreeSet;
use std::process::{Child, Command, Stdio};
use std::time::Duration;

pub const EXIT_OK: i32 = 0;
pub const EXIT_VIOLATION: i32 = 1;
pub const EXIT_INCONCLUSIVE: i32 = 2;

fn sanitize(s: &str) -> String {
    s.chars().map(|c| if c.is_ascii_alphanumeric() || c == '-' { c } else { '_' }).collect()
}

fn env_u64(name: &str, default: u64) -> u64 {
    std::env::var(name).ok().and_then(|s| s.parse().ok()).unwrap_or(default)
}

fn set_rlimit_as(bytes: u64) {
    unsafe {
        let lim = libc::rlimit { rlim_cur: bytes as libc::rlim_t, rlim_max: bytes as libc::rlim_t };
        libc::setrlimit(libc::RLIMIT_AS, &lim);
    }
}

// ---------------------------------------------------------------------------
// child side

/// `vcheck worker <ID> <sub> <shard> <nshards> <tier> <seed> <out>`
pub fn worker_main(props: &[Property], args: &[String]) -> i32 {
    let (id, sub, shard, nshards, tier, seed, out) = (
        &args[0],
        &args[1],
        args[2].parse::<u32>().unwrap(),
        args[3].parse::<u32>().unwrap(),
        Tier::parse(&args[4]).unwrap(),
        args[5].parse::<u64>().unwrap(),
        &args[6],
    );
    let Some(prop) = props.iter().find(|p| p.id == id) else { return 4 };
    let Some(sc) = prop.sub(sub) else { return 4 };
    install_panic_hook();
    set_rlimit_as(env_u64("VERIF_AS_LIMIT_MB", 10 * 1024) * 1024 * 1024);
    WATCH.case_budget_ms.store(env_u64("VERIF_CASE_BUDGET_MS", 120_000), Ordering::Relaxed);
    WATCH.rss_budget_kb.store(env_u64("VERIF_RSS_LIMIT_MB", 3 * 1024) * 1024, Ordering::Relaxed);
    *WATCH.dump_path.lock().unwrap() = Some(format!("{}.hang.json", out));
    *WATCH.header.lock().unwrap() = Some((id.clone(), sub.clone()));
    start_watchdog();
    install_abort_handler();
    let params = RunParams { property: id.clone(), tier, seed, shard, nshards };
    let mut stats = sc.exec(&params);
    if let Some(f) = &mut stats.failure {
        if !f.case.is_null() {
            let doc = json!({"property": id, "subcheck": sub, "case": f.case, "failure": f.message, "seed": seed, "tier": tier.name()});
            let text = serde_json::to_string_pretty(&doc).unwrap();
            let h = fnv64(f.case.to_string().as_bytes());
            let dir = format!("{}/replays/found", verif_dir());
            let _ = std::fs::create_dir_all(&dir);
            let path = format!("{}/{}-{:016x}.json", dir, sanitize(sub), h);
            if std::fs::write(&path, text).is_ok() {
                f.replay_path = Some(path);
            }
        }
    }
    std::fs::write(out, serde_json::to_string(&stats).unwrap()).expect("write stats");
    0
}

/// `vcheck exec-case <file>`: run one serialised case strictly.
/// exit 0 = pass, 1 = fail, 3 = watchdog, 4 = cannot decode
pub fn exec_case_main(props: &[Property], file: &str) -> i32 {
    let Ok(text) = std::fs::read_to_string(file) else {
        eprintln!("cannot read {}", file);
        return 4;
    };
    let Ok(doc) = serde_json::from_str::<Value>(&text) else {
        eprintln!("cannot parse {}", file);
        return 4;
    };
    let id = doc["property"].as_str().unwrap_or("");
    let sub = doc["subcheck"].as_str().unwrap_or("");
    let Some(prop) = props.iter().find(|p| p.id == id) else {
        eprintln!("unknown property {}", id);
        return 4;
    };
    let Some(sc) = prop.sub(sub) else {
        eprintln!("unknown subcheck {}", sub);
        return 4;
    };
    install_panic_hook();
    known::set_strict(true);
    set_rlimit_as(env_u64("VERIF_AS_LIMIT_MB", 10 * 1024) * 1024 * 1024);
    WATCH.case_budget_ms.store(env_u64("VERIF_CASE_BUDGET_MS", 120_000), Ordering::Relaxed);
    WATCH.rss_budget_kb.store(env_u64("VERIF_RSS_LIMIT_MB", 3 * 1024) * 1024, Ordering::Relaxed);
    start_watchdog();
    install_abort_handler();
    *WATCH.current.lock().unwrap() = Some((Instant::now(), "null".to_string()));
    match sc.replay(&doc["case"]) {
        Err(e) => {
            eprintln!("{}", e);
            4
        }
        Ok(Ok(_)) => 0,
        Ok(Err(Stop::Skip(_))) => 0,
        Ok(Err(Stop::Fail(msg))) => {
            println!("FAIL {}: {}", sub, msg);
            if msg.contains("observation lost:") {
                4
            } else {
                1
            }
        }
    }
}

// ---------------------------------------------------------------------------
// parent side

struct Job {
    sub: String,
    shard: u32,
    nshards: u32,
    out: String,
}

struct Running {
    job: Job,
    child: Child,
    started: Instant,
}

enum JobEnd {
    Done(SubStats),
    Hang(String),     // path of the dumped case
    Broken(String),   // infrastructure problem
}

fn run_pool(exe: &str, id: &str, tier: Tier, seed: u64, jobs: Vec<Job>, budget: Duration) -> Vec<(String, u32, JobEnd)> {
    let maxpar = env_u64("VERIF_JOBS", 16) as usize;
    let mut queue: std::collections::VecDeque<Job> = jobs.into();
    let mut running: Vec<Running> = Vec::new();
    let mut results = Vec::new();
    while !queue.is_empty() || !running.is_empty() {
        while running.len() < maxpar && !queue.is_empty() {
            let job = queue.pop_front().unwrap();
            let _ = std::fs::remove_file(&job.out);
            let _ = std::fs::remove_file(format!("{}.hang.json", job.out));
            let child = Command::new(exe)
                .args(["worker", id, &job.sub, &job.shard.to_string(), &job.nshards.to_string(), tier.name(), &seed.to_string(), &job.out])
                .stdin(Stdio::null())
                .stdout(Stdio::null())
                .stderr(Stdio::piped())
                .spawn()
                .expect("spawn worker");
            running.push(Running { job, child, started: Instant::now() });
        }
        let mut i = 0;
        let mut progressed = false;
        while i < running.len() {
            let fin = match running[i].child.try_wait() {
                Ok(Some(st)) => Some(st.code()),
                Ok(None) => {
                    if running[i].started.elapsed() > budget {
                        let _ = running[i].child.kill();
                        let _ = running[i].child.wait();
                        Some(Some(-99))
                    } else {
                        None
                    }
                }
                Err(_) => Some(None),
            };
            if let Some(code) = fin {
                let mut r = running.swap_remove(i);
                progressed = true;
                let mut errtxt = String::new();
                if let Some(mut e) = r.child.stderr.take() {
                    use std::io::Read;
                    let _ = e.read_to_string(&mut errtxt);
                }
                let end = match code {
                    Some(0) => match std::fs::read_to_string(&r.job.out).ok().and_then(|s| serde_json::from_str::<SubStats>(&s).ok()) {
                        Some(st) => JobEnd::Done(st),
                        None => JobEnd::Broken("worker exited 0 without statistics".into()),
                    },
                    Some(EXIT_WATCHDOG) => {
                        let hp = format!("{}.hang.json", r.job.out);
                        if std::path::Path::new(&hp).exists() {
                            JobEnd::Hang(hp)
                        } else {
                            JobEnd::Broken(format!("watchdog tripped outside a published case: {}", errtxt.trim()))
                        }
                    }
                    Some(-99) => JobEnd::Broken(format!("worker exceeded the overall budget of {:?}", budget)),
                    other => JobEnd::Broken(format!("worker died (status {:?}): {}", other, errtxt.trim())),
                };
                results.push((r.job.sub.clone(), r.job.shard, end));
            } else {
                i += 1;
            }
        }
        if !progressed {
            std::thread::sleep(Duration::from_millis(10));
        }
    }
    results
}

/// Execute one case file in a child; returns (exit code, stdout)
fn exec_case_child(exe: &str, file: &str, budget_ms: u64, rss_mb: u64) -> (i32, String) {
    let out = Command::new(exe)
        .args(["exec-case", file])
        .env("VERIF_CASE_BUDGET_MS", budget_ms.to_string())
        .env("VERIF_RSS_LIMIT_MB", rss_mb.to_string())
        .stdin(Stdio::null())
        .stderr(Stdio::null())
        .output()
        .expect("spawn exec-case");
    (out.status.code().unwrap_or(-1), String::from_utf8_lossy(&out.stdout).trim().to_string())
}

pub fn replay_main(_props: &[Property], id: &str, file: &str) -> i32 {
    let exe = std::env::current_exe().unwrap().to_string_lossy().into_owned();
    let (code, out) = exec_case_child(&exe, file, env_u64("VERIF_REPLAY_BUDGET_MS", 30_000), 2048);
    match code {
        0 => {
            println!("replay {}: property held", file);
            EXIT_OK
        }
        1 if out.contains("harness:") => {
            println!("{}", out);
            println!("INCONCLUSIVE a self-check of the harness failed on this case (nothing is said about the code under test)");
            EXIT_INCONCLUSIVE
        }
        1 | 3 => {
            if code == 3 {
                println!("FAIL: case does not terminate within the budget / exceeds the memory budget");
            } else {
                println!("{}", out);
            }
            println!("VIOLATION property={} replay={}", id, file);
            EXIT_VIOLATION
        }
        c => {
            println!("replay infrastructure error (exit {})", c);
            EXIT_INCONCLUSIVE
        }
    }
}

pub fn run_main(props: &[Property], id: &str, tier: Tier, seed: u64) -> i32 {
    let t0 = Instant::now();
    let Some(prop) = props.iter().find(|p| p.id == id) else {
        eprintln!("unknown property {}", id);
        return EXIT_INCONCLUSIVE;
    };
    let exe = std::env::current_exe().unwrap().to_string_lossy().into_owned();
    let vdir = verif_dir();
    let rundir = format!("{}/run/{}", vdir, id);
    let _ = std::fs::remove_dir_all(&rundir);
    std::fs::create_dir_all(&rundir).expect("create run dir");
    // a run restricted by VERIF_SUBS (development aid) never overwrites the evidence file
    let evidence_path = format!("{}/evidence/{}{}.json", vdir, id, if std::env::var("VERIF_SUBS").map_or(false, |v| !v.is_empty()) { ".partial" } else { "" });
    let _ = std::fs::create_dir_all(format!("{}/evidence", vdir));

    let mut jobs = Vec::new();
    // development aid: VERIF_SUBS=a,b restricts the run to sub-checks whose name contains a or b
    let only: Option<Vec<String>> = std::env::var("VERIF_SUBS").ok().filter(|v| !v.is_empty()).map(|v| v.split(',').map(|x| x.to_string()).collect());
    for s in &prop.subs {
        if let Some(o) = &only {
            if !o.iter().any(|x| s.name().contains(x.as_str())) {
                continue;
            }
        }
        let n = s.shards(tier);
        for shard in 0..n {
            jobs.push(Job { sub: s.name().to_string(), shard, nshards: n, out: format!("{}/{}-{}.json", rundir, sanitize(s.name()), shard) });
        }
    }
    let budget = Duration::from_secs(env_u64("VERIF_WORKER_BUDGET_S", if tier == Tier::Quick { 1800 } else { 6 * 3600 }));
    let results = run_pool(&exe, id, tier, seed, jobs, budget);

    let mut violations: Vec<(String, String)> = Vec::new(); // (message, replay path)
    let mut inconclusive: Vec<String> = Vec::new();
    let mut merged: BTreeMap<String, SubStats> = BTreeMap::new();
    let mut union: BTreeSet<u64> = BTreeSet::new();
    let mut hang_confirmed: BTreeMap<String, u32> = BTreeMap::new();
    let mut hang_unconfirmed: Vec<String> = Vec::new();

    for (sub, shard, end) in results {
        match end {
            JobEnd::Done(st) => {
                if let Some(f) = &st.failure {
                    if f.case.is_null() || f.message.contains("observation lost:") || f.message.contains("harness:") {
                        // generator abort, the harness lost its (hook-free) view of private structure, or one of
                        // the harness's own self-checks ("harness: ...": generator produced a case outside the
                        // domain, two oracles disagree with each other) failed: infrastructure problems that say
                        // nothing about the code under test, never reported as violations
                        inconclusive.push(format!("{} shard {}: {}", sub, shard, f.message));
                    } else {
                        let path = f.replay_path.clone().unwrap_or_else(|| "<unwritable>".into());
                        violations.push((format!("{}: {}", sub, f.message), path));
                    }
                }
                let subkey = fnv64(sub.as_bytes());
                for h in &st.nontrivial_hashes {
                    union.insert(h ^ subkey);
                }
                let m = merged.entry(sub.clone()).or_insert_with(|| SubStats { property: id.to_string(), subcheck: sub.clone(), exhaustive: true, ..Default::default() });
                m.cases += st.cases;
                m.nontrivial += st.nontrivial; // refined below through hash union
                m.nontrivial_hashes.extend(st.nontrivial_hashes.iter().copied());
                for (k, v) in &st.classes {
                    *m.classes.entry(k.clone()).or_insert(0) += v;
                }
                for (k, v) in &st.excluded_known {
                    *m.excluded_known.entry(k.clone()).or_insert(0) += v;
                }
                m.exhaustive &= st.exhaustive;
                if m.samples.len() < 6 {
                    m.samples.extend(st.samples.iter().take(6 - m.samples.len()).cloned());
                }
                m.wall_s = m.wall_s.max(st.wall_s);
            }
            JobEnd::Hang(path) => {
                // two-stage confirmation: run the recorded case alone, twice, with a larger budget.
                // At most two candidates per sub-check are confirmed (each confirmation costs minutes).
                let done = hang_confirmed.entry(sub.clone()).or_insert(0u32);
                if *done >= 2 {
                    hang_unconfirmed.push(format!("{} shard {}: watchdog tripped (not re-run: two candidates of this sub-check were already examined)", sub, shard));
                    continue;
                }
                *done += 1;
                let b = env_u64("VERIF_CASE_BUDGET_MS", 120_000) * 2;
                let (p1, p2) = (path.clone(), path.clone());
                let (e1, e2) = (exe.clone(), exe.clone());
                let h1 = std::thread::spawn(move || exec_case_child(&e1, &p1, b, 3 * 1024).0);
                let h2 = std::thread::spawn(move || exec_case_child(&e2, &p2, b, 3 * 1024).0);
                let (c1, c2) = (h1.join().unwrap_or(-2), h2.join().unwrap_or(-2));
                // exit 3 = watchdog (time or memory), -1 = killed by a signal (allocation failure abort)
                let blown = |c: i32| c == EXIT_WATCHDOG || c == -1;
                if blown(c1) && blown(c2) {
                    let dir = format!("{}/replays/found", vdir);
                    let _ = std::fs::create_dir_all(&dir);
                    let dest = format!("{}/{}-hang-{}.json", dir, sanitize(&sub), shard);
                    let _ = std::fs::copy(&path, &dest);
                    violations.push((format!("{}: does not terminate / unbounded memory (reproduced twice in isolation)", sub), dest));
                } else if c1 == 1 || c2 == 1 {
                    let dir = format!("{}/replays/found", vdir);
                    let _ = std::fs::create_dir_all(&dir);
                    let dest = format!("{}/{}-slowfail-{}.json", dir, sanitize(&sub), shard);
                    let _ = std::fs::copy(&path, &dest);
                    violations.push((format!("{}: case fails when run in isolation", sub), dest));
                } else {
                    inconclusive.push(format!("{} shard {}: watchdog tripped but the case did not reproduce in isolation (exit {} / {})", sub, shard, c1, c2));
                }
            }
            JobEnd::Broken(msg) => inconclusive.push(format!("{} shard {}: {}", sub, shard, msg)),
        }
    }
    if violations.is_empty() {
        inconclusive.extend(hang_unconfirmed);
    }
    for m in merged.values_mut() {
        m.nontrivial_hashes.sort_unstable();
        m.nontrivial_hashes.dedup();
        m.nontrivial = m.nontrivial_hashes.len() as u64;
    }

    // regression tier: every committed replay of this property
    let entries: Vec<known::Entry> = known::load().into_iter().filter(|e| e.property == id).collect();
    let mut known_lines = Vec::new();
    let mut regress_run = 0u64;
    let regdir = format!("{}/replays/regress", vdir);
    let mut files: Vec<String> = std::fs::read_dir(&regdir)
        .map(|rd| rd.filter_map(|e| e.ok()).map(|e| e.file_name().to_string_lossy().into_owned()).collect())
        .unwrap_or_default();
    files.retain(|f| f.starts_with(&format!("{}-", id)) && f.ends_with(".json"));
    files.sort();
    for f in &files {
        let rel = format!("replays/regress/{}", f);
        let full = format!("{}/{}", vdir, rel);
        let (code, out) = exec_case_child(&exe, &full, env_u64("VERIF_REGRESS_BUDGET_MS", 10_000), 1024);
        regress_run += 1;
        let open_entry = entries.iter().find(|e| e.open && e.witness.as_deref() == Some(rel.as_str()));
        match (code, open_entry) {
            (0, None) => {}
            (0, Some(e)) => println!("NOTE: open known finding no longer reproduces: property={} sig={} ({})", id, e.sig.clone().unwrap_or_default(), rel),
            (1, Some(e)) | (3, Some(e)) => known_lines.push(format!("KNOWN-FINDING: property={} {}", id, e.text)),
            (1, None) if out.contains("harness:") => inconclusive.push(format!("regression {}: harness self-check failed: {}", rel, out)),
            (1, None) => violations.push((format!("regression {}: {}", rel, out), full.clone())),
            (3, None) => violations.push((format!("regression {}: does not terminate / memory budget", rel), full.clone())),
            (c, _) => inconclusive.push(format!("regression {} could not be replayed (exit {})", rel, c)),
        }
    }
    for e in entries.iter().filter(|e| e.open) {
        match &e.witness {
            Some(w) if files.iter().any(|f| format!("replays/regress/{}", f) == *w) => {}
            _ => inconclusive.push(format!("open known finding without a replayable witness: {:?}", e.sig)),
        }
    }

    // must-reach classes: a class the design calls "must be reached" with count 0 points at a generator
    // regression. It is reported (stdout WARNING + evidence) but it is not a verdict about the code
    // under test; only with VERIF_STRICT_CLASSES=1 (selftest, development) does it make the run exit 2.
    // A sub-check that executed no case at all is always inconclusive.
    let strict_classes = std::env::var("VERIF_STRICT_CLASSES").map(|v| v == "1").unwrap_or(false);
    let mut unreached: Vec<String> = Vec::new();
    for s in &prop.subs {
        match merged.get(s.name()) {
            Some(m) => {
                if m.cases == 0 && m.excluded_known.is_empty() && violations.is_empty() {
                    inconclusive.push(format!("{}: no case was executed", s.name()));
                }
                for c in s.must_reach() {
                    if m.classes.get(*c).copied().unwrap_or(0) == 0 && violations.is_empty() {
                        unreached.push(format!("{}: class '{}' was not reached", s.name(), c));
                    }
                }
            }
            None => {}
        }
    }
    if strict_classes {
        inconclusive.extend(unreached.iter().cloned());
    }
    // evidence
    let evaluations: u64 = merged.values().map(|m| m.cases).sum();
    let mut samples: Vec<Value> = Vec::new();
    let mut round = 0;
    while samples.len() < 10 {
        let mut any = false;
        for m in merged.values() {
            if let Some(s) = m.samples.get(round) {
                if samples.len() < 10 {
                    samples.push(s.clone());
                    any = true;
                }
            }
        }
        if !any {
            break;
        }
        round += 1;
    }
    let subs_json: BTreeMap<String, Value> = merged
        .iter()
        .map(|(k, m)| {
            (
                k.clone(),
                json!({"cases": m.cases, "nontrivial": m.nontrivial, "classes": m.classes, "excluded_known": m.excluded_known, "exhaustive": m.exhaustive, "max_shard_wall_s": m.wall_s}),
            )
        })
        .collect();
    let all_exh = !merged.is_empty() && merged.values().all(|m| m.exhaustive);
    // statistics of the libFuzzer campaign the check script ran before us (thorough tier only)
    let fuzz_path = format!("{}/run/fuzz-{}.json", vdir, id);
    let fuzz: Value = std::fs::read_to_string(&fuzz_path).ok().and_then(|s| serde_json::from_str(&s).ok()).unwrap_or(Value::Null);
    let _ = std::fs::remove_file(&fuzz_path);
    let fuzz_execs = fuzz.get("executions").and_then(|v| v.as_u64()).unwrap_or(0);
    let evaluations = evaluations + fuzz_execs;
    let ev = json!({
        "property_id": id,
        "tier": tier.name(),
        "seed": seed,
        "level": "exploration",
        "coverage": {
            "evaluations": evaluations,
            "distinct_nontrivial": union.len(),
            "rule": prop.rule,
            "samples": samples,
            "exhaustive": all_exh,
            "subchecks": subs_json,
            "regression_replays": regress_run,
            "known_findings_reported": known_lines.len(),
            "inconclusive": inconclusive,
            "unreached_must_reach_classes": unreached,
            "libfuzzer": fuzz,
        },
        "assumptions": prop.assumptions,
        "wall_s": t0.elapsed().as_secs_f64(),
        "violations": violations.len(),
    });
    std::fs::write(&evidence_path, serde_json::to_string_pretty(&ev).unwrap()).expect("write evidence");

    for l in &known_lines {
        println!("{}", l);
    }
    for u in &unreached {
        println!("WARNING generator coverage: {}", u);
    }
    println!(
        "{} {} seed={} evaluations={} distinct_nontrivial={} subchecks={} regressions={} wall={:.1}s",
        id,
        tier.name(),
        seed,
        evaluations,
        union.len(),
        merged.len(),
        regress_run,
        t0.elapsed().as_secs_f64()
    );
    if !violations.is_empty() {
        let mut seen = BTreeSet::new();
        for (msg, path) in &violations {
            if seen.insert(path.clone()) {
                println!("FAIL {}", msg);
                println!("VIOLATION property={} replay={}", id, path);
            }
        }
        return EXIT_VIOLATION;
    }
    if !inconclusive.is_empty() {
        for m in &inconclusive {
            println!("INCONCLUSIVE {}", m);
        }
        return EXIT_INCONCLUSIVE;
    }
    EXIT_OK
}
