//! KNOWN_FINDINGS.txt (committed, never written at run time).
//!
//!     open:  property=C02 sig=banded-empty-y witness=replays/regress/C02-banded-empty-y.json <what fails>
//!     fixed: property=C08 <commit> <what failed> witness=replays/regress/C08-bitparallel-m64.json
//!
//! An `open` entry names an *input signature* implemented by the property
//! module; matching cases are excluded by construction while the entry is open.
//! `fixed` entries suppress nothing.

use std::collections::HashSet;
use std::sync::atomic::{AtomicBool, Ordering};
use std::sync::OnceLock;

#[derive(Debug, Clone)]
pub struct Entry {
    pub open: bool,
    pub property: String,
    pub sig: Option<String>,
    pub witness: Option<String>,
    pub commit: Option<String>,
    pub text: String,
}

pub fn verif_dir() -> String {
    std::env::var("VERIF_DIR").unwrap_or_else(|_| "/verif".to_string())
}

pub fn load() -> Vec<Entry> {
    let path = format!("{}/KNOWN_FINDINGS.txt", verif_dir());
    let mut out = Vec::new();
    let Ok(s) = std::fs::read_to_string(&path) else { return out };
    for line in s.lines() {
        let line = line.trim();
        if line.is_empty() || line.starts_with('#') {
            continue;
        }
        let (open, rest) = if let Some(r) = line.strip_prefix("open:") {
            (true, r)
        } else if let Some(r) = line.strip_prefix("fixed:") {
            (false, r)
        } else {
            continue;
        };
        let mut e = Entry { open, property: String::new(), sig: None, witness: None, commit: None, text: String::new() };
        let mut text = Vec::new();
        for tok in rest.split_whitespace() {
            if let Some(v) = tok.strip_prefix("property=") {
                e.property = v.to_string();
            } else if let Some(v) = tok.strip_prefix("sig=") {
                e.sig = Some(v.to_string());
            } else if let Some(v) = tok.strip_prefix("witness=") {
                e.witness = Some(v.to_string());
            } else if !open && e.commit.is_none() && text.is_empty() && tok.len() >= 7 && tok.chars().all(|c| c.is_ascii_hexdigit()) {
                e.commit = Some(tok.to_string());
            } else {
                text.push(tok);
            }
        }
        e.text = text.join(" ");
        out.push(e);
    }
    out
}

static OPEN: OnceLock<HashSet<String>> = OnceLock::new();
static STRICT: AtomicBool = AtomicBool::new(false);

/// In strict mode (replay of a single case) nothing is excluded.
pub fn set_strict(on: bool) {
    STRICT.store(on, Ordering::Relaxed);
}

/// Is the input signature `sig` listed as an open known finding?
pub fn is_open(sig: &str) -> bool {
    if STRICT.load(Ordering::Relaxed) {
        return false;
    }
    OPEN.get_or_init(|| load().into_iter().filter(|e| e.open).filter_map(|e| e.sig).collect())
        .contains(sig)
}
