//! C12 — indexed FASTA random access returns exactly the requested slice.
//!
//! The harness lays out a FASTA file itself (per-record uniform line width, LF or CRLF,
//! optional missing last terminator), computes the matching .fai from that layout, and runs a
//! history of fetch / read / read_iter / misuse operations on ONE IndexedReader over a chunked
//! `Read + Seek` double, in lock-step with a model (the sequences).  The same history is then
//! run on the file cut at a random offset behind the same index.

use crate::engine::gen::idx;
use crate::engine::*;
use crate::oracles::io::{new_log, ChunkedReader, Log};
use crate::{ensure, fail};
use bio::io::fasta::{Index, IndexedReader};
use proptest::prelude::*;
use serde::{Deserialize, Serialize};
use std::rc::Rc;

// ---------------------------------------------------------------------------
// case data

#[derive(Serialize, Deserialize, Debug, Clone)]
pub struct RecL {
    /// record name (made unique by appending '_' where necessary, see `names()`)
    pub name: String,
    /// rest of the header line after a blank
    pub desc: Option<String>,
    /// sequence length (0 = a record without sequence: header line only, indexed the way samtools does, with 0
    /// bases per line); the symbols are a fixed function of (seed, position), see `base()`
    pub len: usize,
    pub seed: u32,
    /// line width in bases (>= 1)
    pub width: usize,
}

#[derive(Serialize, Deserialize, Debug, Clone)]
pub enum Op {
    /// valid interval: start = idx(a, len); stop = start + idx(span, min(len - start, 3 * width + 4)) when
    /// `near`, else idx(span, len - start) further
    Fetch { rec: u16, by_name: bool, a: u16, span: u16, near: bool },
    FetchAll { rec: u16, by_name: bool },
    /// sequential window scan: the next interval of the record fetched last begins where that interval ended
    /// (`again`: where it began), and is idx(span, room) long as in `Fetch`; without an earlier valid fetch:
    /// record 0 from base 0
    FetchNext { by_name: bool, span: u16, near: bool, again: bool },
    /// read() into the (reused, non-empty) buffer
    Read,
    /// read_iter(); None = consume completely, Some(f) = take idx(f, expected length) items, then drop
    ReadIter { take: Option<u16> },
    /// fetch / fetch_all with a name that is not in the index (derived from an existing name + salt, or salt alone)
    UnknownName { from_rec: Option<u16>, salt: String, all: bool },
    /// fetch_by_rid / fetch_all_by_rid with rid = number of records + extra
    BadRid { extra: u32, all: bool },
    /// stop = len + 1 + over; then read (iter = read_iter)
    StopBeyond { rec: u16, by_name: bool, a: u16, over: u64, iter: bool },
    /// start > stop, both <= len (needs len >= 1); then read
    Inverted { rec: u16, by_name: bool, a: u16, b: u16, iter: bool },
    /// start = len + 1 + over > stop <= len; then read
    StartBeyond { rec: u16, by_name: bool, b: u16, over: u64, iter: bool },
}

#[derive(Serialize, Deserialize, Debug, Clone)]
pub struct Case {
    pub recs: Vec<RecL>,
    pub crlf: bool,
    /// false: the terminator of the very last line of the file is missing
    pub final_newline: bool,
    /// .fai written with CRLF / without its last terminator
    pub fai_crlf: bool,
    pub fai_final_newline: bool,
    /// records that fit on one line are indexed the way samtools does: line_bases = len
    pub samtools_single: bool,
    /// cyclic read() schedule of the FASTA double (each >= 1; no EINTR: IndexedReader calls fill_buf directly)
    pub sched: Vec<u32>,
    /// Index::new + IndexedReader::with_index instead of IndexedReader::new
    pub via_index: bool,
    pub ops: Vec<Op>,
    /// the history is repeated on the file cut at idx(cut, file length - 1)
    pub cut: Option<u16>,
    /// position of the FASTA stream at the moment it is handed to the constructor: idx(f, file length)
    /// (a caller that sniffed or scanned the file first); every fetch seeks absolutely, so it is irrelevant
    #[serde(default)]
    pub start_pos: Option<u16>,
}

const ALPH: &[u8] = b"ACGTNRYKMSWBDHVacgtn";

fn mix(mut z: u64) -> u64 {
    z = z.wrapping_add(0x9e3779b97f4a7c15);
    z = (z ^ (z >> 30)).wrapping_mul(0xbf58476d1ce4e5b9);
    z = (z ^ (z >> 27)).wrapping_mul(0x94d049bb133111eb);
    z ^ (z >> 31)
}

pub fn base(seed: u32, i: usize) -> u8 {
    ALPH[(mix(((seed as u64) << 32) ^ i as u64) % ALPH.len() as u64) as usize]
}

fn sequence(r: &RecL) -> Vec<u8> {
    (0..r.len).map(|i| base(r.seed, i)).collect()
}

/// effective (unique) names
fn names(recs: &[RecL]) -> Vec<String> {
    let mut out: Vec<String> = Vec::new();
    for r in recs {
        let mut n = r.name.clone();
        while out.contains(&n) {
            n.push('_');
        }
        out.push(n);
    }
    out
}

#[derive(Debug, Clone)]
struct Entry {
    name: String,
    len: u64,
    offset: u64,
    line_bases: u64,
    line_bytes: u64,
    /// layout truth used by the oracle
    width: u64,
    term: u64,
}

impl Entry {
    /// file offset of base i
    fn off(&self, i: u64) -> u64 {
        self.offset + (i / self.width) * (self.width + self.term) + i % self.width
    }
}

struct Built {
    file: Vec<u8>,
    fai: Vec<u8>,
    entries: Vec<Entry>,
    seqs: Vec<Vec<u8>>,
}

fn build(c: &Case) -> Built {
    let nl: &[u8] = if c.crlf { b"\r\n" } else { b"\n" };
    let term = nl.len() as u64;
    let nm = names(&c.recs);
    let mut file = Vec::new();
    let mut entries = Vec::new();
    let mut seqs = Vec::new();
    let last = c.recs.len() - 1;
    for (ri, (r, name)) in c.recs.iter().zip(nm).enumerate() {
        let w = r.width.max(1);
        file.push(b'>');
        file.extend_from_slice(name.as_bytes());
        if let Some(d) = &r.desc {
            file.push(b' ');
            file.extend_from_slice(d.as_bytes());
        }
        file.extend_from_slice(nl);
        let offset = file.len() as u64;
        let s = sequence(r);
        for line in s.chunks(w) {
            file.extend_from_slice(line);
            file.extend_from_slice(nl);
        }
        let (lb, lby) = if s.is_empty() {
            // `samtools faidx`: LINEBASES 0 and LINEWIDTH 0 for a record without sequence
            if c.samtools_single { (0, 0) } else { (w as u64, w as u64 + term) }
        } else if c.samtools_single && s.len() <= w {
            // samtools measures the first line of the record as it is in the file: for a one-line record that
            // ends the file without a terminator the line is as wide in bytes as in bases
            let t = if ri == last && !c.final_newline { 0 } else { term };
            (s.len() as u64, s.len() as u64 + t)
        } else {
            (w as u64, w as u64 + term)
        };
        entries.push(Entry { name, len: s.len() as u64, offset, line_bases: lb, line_bytes: lby, width: w as u64, term });
        seqs.push(s);
    }
    if !c.final_newline {
        file.truncate(file.len() - nl.len());
    }
    let fnl: &[u8] = if c.fai_crlf { b"\r\n" } else { b"\n" };
    let mut fai = Vec::new();
    for e in &entries {
        fai.extend_from_slice(format!("{}\t{}\t{}\t{}\t{}", e.name, e.len, e.offset, e.line_bases, e.line_bytes).as_bytes());
        fai.extend_from_slice(fnl);
    }
    if !c.fai_final_newline {
        fai.truncate(fai.len() - fnl.len());
    }
    Built { file, fai, entries, seqs }
}

// ---------------------------------------------------------------------------
// model

#[derive(Debug, Clone, Copy, PartialEq, Eq)]
enum Cur {
    NoFetch,
    Valid { rec: usize, start: u64, stop: u64 },
    /// a fetch accepted an invalid interval: every read must fail
    Bad,
}

#[derive(Default)]
struct Seen {
    cross2: bool,
    mid_line_start: bool,
    nt: bool,
    span_8k: bool,
    chunk_inside: bool,
    partial_iter_then_read: bool,
    unknown_name: bool,
    bad_rid: bool,
    stop_beyond: bool,
    inverted: bool,
    read_without_fetch: bool,
    read_after_failed_fetch: bool,
    empty_interval: bool,
    whole_record: bool,
    iter_full: bool,
    read_buf: bool,
    refetch_same_reader: bool,
    cut_beyond: bool,
    cut_before: bool,
    cut_before_ok: bool,
    cut_failure_compared: bool,
    fetch_next: bool,
    last_line_unterminated_read: bool,
    single_base: bool,
}

fn excerpt(b: &[u8]) -> String {
    if b.len() <= 120 {
        format!("{:?}", lossy(b))
    } else {
        format!("{:?}..{:?} ({} bases)", lossy(&b[..50]), lossy(&b[b.len() - 50..]), b.len())
    }
}

fn first_diff(a: &[u8], b: &[u8]) -> usize {
    a.iter().zip(b.iter()).position(|(x, y)| x != y).unwrap_or(a.len().min(b.len()))
}

fn layout_text(c: &Case, b: &Built) -> String {
    let mut s = format!("file of {} bytes, {}, last terminator {}, schedule {:?}; records:", b.file.len(), if c.crlf { "CRLF" } else { "LF" }, if c.final_newline { "present" } else { "missing" }, c.sched);
    for e in &b.entries {
        s.push_str(&format!(" [{:?} len {} offset {} line_bases {} line_bytes {}]", e.name, e.len, e.offset, e.line_bases, e.line_bytes));
    }
    s
}

struct Run<'a> {
    c: &'a Case,
    b: &'a Built,
    /// Some(cut) when the history runs on the truncated file
    cut: Option<u64>,
    log: Log,
}

impl<'a> Run<'a> {
    fn ctx(&self, i: usize) -> String {
        format!(
            "op #{} {:?} ({}){}",
            i,
            self.c.ops[i],
            layout_text(self.c, self.b),
            match (self.cut, self.c.start_pos) {
                (Some(k), _) => format!(" FILE CUT at offset {}", k),
                (None, Some(f)) => format!(" [stream handed to the constructor at position idx({}, file length)]", f),
                (None, None) => String::new(),
            }
        )
    }

    /// does the interval need a byte at or behind the cut?
    fn beyond(&self, rec: usize, start: u64, stop: u64) -> bool {
        match self.cut {
            Some(k) => start < stop && self.b.entries[rec].off(stop - 1) >= k,
            None => false,
        }
    }

    /// "consecutive fetches on one reader are independent", on a file shorter than the index promises: a valid
    /// fetch + read that fails in the middle of a history must also fail on a fresh reader over the same bytes
    /// (whether a truncated file serves an interval that is still present is left open by the property; that
    /// the answer depends on what the reader did before is not)
    fn independent_failure(&self, i: usize, rec: usize, start: u64, stop: u64, how: &str, err: &dyn std::fmt::Debug) -> Result<(), Stop> {
        let (c, b) = (self.c, self.b);
        let data = Rc::new(match self.cut {
            Some(k) => b.file[..k as usize].to_vec(),
            None => b.file.clone(),
        });
        let sched: Vec<u32> = c.sched.iter().map(|&s| s.max(1)).collect();
        let src = ChunkedReader::whole(data, &sched, None);
        let fai_src = ChunkedReader::whole(Rc::new(b.fai.clone()), &sched, None);
        let Ok(mut fresh) = IndexedReader::new(src, fai_src) else { return Ok(()) };
        if fresh.fetch_by_rid(rec, start, stop).is_err() {
            return Ok(());
        }
        let mut out = Vec::new();
        if fresh.read(&mut out).is_ok() {
            fail!(
                "{}: {} of the valid interval {}..{} of record {} failed ({:?}) after the operations before it, but the same fetch + read on a fresh reader over the same file succeeds with {}: consecutive fetches are not independent",
                self.ctx(i), how, start, stop, rec, err, excerpt(&out)
            );
        }
        Ok(())
    }

    fn history(&self, seen: &mut Seen) -> Result<(), Stop> {
        let c = self.c;
        let b = self.b;
        let data = Rc::new(match self.cut {
            Some(k) => b.file[..k as usize].to_vec(),
            None => b.file.clone(),
        });
        let sched: Vec<u32> = c.sched.iter().map(|&s| s.max(1)).collect();
        let mut src = ChunkedReader::whole(data.clone(), &sched, Some(self.log.clone()));
        if let Some(f) = c.start_pos {
            use std::io::{Seek, SeekFrom};
            let _ = src.seek(SeekFrom::Start(idx(f, data.len()) as u64));
        }
        let fai_src = ChunkedReader::whole(Rc::new(b.fai.clone()), &sched, None);
        let mut rd = if c.via_index {
            match Index::new(fai_src) {
                Ok(ix) => {
                    let got: Vec<(String, u64)> = ix.sequences().into_iter().map(|s| (s.name, s.len)).collect();
                    let want: Vec<(String, u64)> = b.entries.iter().map(|e| (e.name.clone(), e.len)).collect();
                    ensure!(got == want, "Index::new on {:?} lists {:?}, the index describes {:?}", lossy(&b.fai), got, want);
                    IndexedReader::with_index(src, ix)
                }
                Err(e) => fail!("Index::new rejects the .fai {:?}: {:?}", lossy(&b.fai), e),
            }
        } else {
            match IndexedReader::new(src, fai_src) {
                Ok(r) => r,
                Err(e) => fail!("IndexedReader::new rejects the .fai {:?}: {:?}", lossy(&b.fai), e),
            }
        };
        let nrec = b.entries.len();
        let mut cur = Cur::NoFetch;
        let mut tainted = false; // the last fetch call failed (as it had to): a read may fail or serve `cur`
        let mut buf: Vec<u8> = b"stale".to_vec();
        let mut fetches = 0usize;
        let mut last_iter_partial = false;

        for (i, op) in c.ops.iter().enumerate() {
            let pick = |rec: u16| idx(rec, nrec - 1);
            match op {
                Op::Fetch { rec, by_name, a, span, near } => {
                    let r = pick(*rec);
                    let e = &b.entries[r];
                    let start = idx(*a, e.len as usize) as u64;
                    let room = e.len - start;
                    let room = if *near { room.min(3 * e.width + 4) } else { room };
                    let stop = start + idx(*span, room as usize) as u64;
                    let res = if *by_name { rd.fetch(&e.name, start, stop) } else { rd.fetch_by_rid(r, start, stop) };
                    ensure!(res.is_ok(), "{}: fetch of the valid interval {}..{} of record {} failed: {:?}", self.ctx(i), start, stop, r, res);
                    cur = Cur::Valid { rec: r, start, stop };
                    tainted = false;
                    fetches += 1;
                }
                Op::FetchNext { by_name, span, near, again } => {
                    let (r, start) = match cur {
                        Cur::Valid { rec, start, stop } => (rec, if *again { start } else { stop }),
                        _ => (0, 0),
                    };
                    let e = &b.entries[r];
                    let room = e.len - start;
                    let room = if *near { room.min(3 * e.width + 4) } else { room };
                    let stop = start + idx(*span, room as usize) as u64;
                    let res = if *by_name { rd.fetch(&e.name, start, stop) } else { rd.fetch_by_rid(r, start, stop) };
                    ensure!(res.is_ok(), "{}: fetch of the valid interval {}..{} of record {} failed: {:?}", self.ctx(i), start, stop, r, res);
                    cur = Cur::Valid { rec: r, start, stop };
                    tainted = false;
                    fetches += 1;
                    seen.fetch_next = true;
                }
                Op::FetchAll { rec, by_name } => {
                    let r = pick(*rec);
                    let e = &b.entries[r];
                    let res = if *by_name { rd.fetch_all(&e.name) } else { rd.fetch_all_by_rid(r) };
                    ensure!(res.is_ok(), "{}: fetch_all of record {} failed: {:?}", self.ctx(i), r, res);
                    cur = Cur::Valid { rec: r, start: 0, stop: e.len };
                    tainted = false;
                    fetches += 1;
                }
                Op::UnknownName { from_rec, salt, all } => {
                    let mut name = match from_rec {
                        Some(r) => {
                            // near-miss spellings of an existing name (tools map between naming conventions;
                            // a reader must not), selected by the first salt character; otherwise name + salt
                            let base = b.entries[pick(*r)].name.clone();
                            let v = match salt.chars().next() {
                                Some('a') => Some(format!("chr{}", base)),
                                Some('b') => base.strip_prefix("chr").map(|s| s.to_string()),
                                Some('c') => Some(base.to_uppercase()),
                                Some('d') => Some(base.to_lowercase()),
                                Some('e') if base.len() > 1 => Some(base[..base.len() - 1].to_string()),
                                Some('f') if base.len() > 1 => Some(base.chars().skip(1).collect()),
                                Some('g') => Some(format!("{}.1", base)),
                                _ => None,
                            };
                            match v {
                                Some(v) if !v.is_empty() && v.is_char_boundary(0) => v,
                                _ => format!("{}{}", base, salt),
                            }
                        }
                        None => salt.clone(),
                    };
                    while b.entries.iter().any(|e| e.name == name) {
                        name.push('~');
                    }
                    let res = if *all { rd.fetch_all(&name) } else { rd.fetch(&name, 0, 1) };
                    ensure!(res.is_err(), "{}: fetch of the unknown name {:?} succeeded", self.ctx(i), name);
                    tainted = true;
                    seen.unknown_name = true;
                }
                Op::BadRid { extra, all } => {
                    let rid = nrec + *extra as usize;
                    let res = if *all { rd.fetch_all_by_rid(rid) } else { rd.fetch_by_rid(rid, 0, 1) };
                    ensure!(res.is_err(), "{}: fetch of record number {} succeeded, there are {} records", self.ctx(i), rid, nrec);
                    tainted = true;
                    seen.bad_rid = true;
                }
                Op::StopBeyond { rec, by_name, a, over, iter } => {
                    let r = pick(*rec);
                    let e = &b.entries[r];
                    let start = idx(*a, e.len as usize) as u64;
                    let stop = (e.len + 1).saturating_add(*over);
                    self.misuse(&mut rd, i, r, *by_name, start, stop, *iter, &mut cur, &mut tainted, &mut buf)?;
                    seen.stop_beyond = true;
                }
                Op::Inverted { rec, by_name, a, b: bb, iter } => {
                    let r = pick(*rec);
                    let e = &b.entries[r];
                    if e.len == 0 {
                        continue; // no inverted interval inside an empty record
                    }
                    let start = 1 + idx(*a, e.len as usize - 1) as u64;
                    let stop = idx(*bb, start as usize - 1) as u64;
                    self.misuse(&mut rd, i, r, *by_name, start, stop, *iter, &mut cur, &mut tainted, &mut buf)?;
                    seen.inverted = true;
                }
                Op::StartBeyond { rec, by_name, b: bb, over, iter } => {
                    let r = pick(*rec);
                    let e = &b.entries[r];
                    let start = (e.len + 1).saturating_add(*over);
                    let stop = idx(*bb, e.len as usize) as u64;
                    self.misuse(&mut rd, i, r, *by_name, start, stop, *iter, &mut cur, &mut tainted, &mut buf)?;
                    seen.inverted = true;
                }
                Op::Read => {
                    self.log.borrow_mut().boundaries.clear();
                    let res = rd.read(&mut buf);
                    match cur {
                        Cur::NoFetch => {
                            ensure!(res.is_err(), "{}: read() without a successful fetch returned Ok with {}", self.ctx(i), excerpt(&buf));
                            seen.read_without_fetch = true;
                        }
                        Cur::Bad => {
                            ensure!(res.is_err(), "{}: read() after a fetch with an invalid interval returned Ok with {}", self.ctx(i), excerpt(&buf));
                        }
                        Cur::Valid { rec, start, stop } => {
                            let want = &b.seqs[rec][start as usize..stop as usize];
                            match &res {
                                Ok(()) => {
                                    ensure!(
                                        !self.beyond(rec, start, stop),
                                        "{}: read() of {}..{} of record {} returned Ok although the file ends before the last requested base (offset {}); got {}",
                                        self.ctx(i),
                                        start,
                                        stop,
                                        rec,
                                        b.entries[rec].off(stop - 1),
                                        excerpt(&buf)
                                    );
                                    ensure!(
                                        buf == want,
                                        "{}: read() of {}..{} of record {} returned {} bases {} but the slice has {} bases {} (first difference at {})",
                                        self.ctx(i),
                                        start,
                                        stop,
                                        rec,
                                        buf.len(),
                                        excerpt(&buf),
                                        want.len(),
                                        excerpt(want),
                                        first_diff(&buf, want)
                                    );
                                    if self.cut.is_some() {
                                        seen.cut_before_ok = true;
                                    }
                                }
                                Err(e) => {
                                    ensure!(self.cut.is_some() || tainted, "{}: read() of the valid interval {}..{} of record {} failed: {:?}", self.ctx(i), start, stop, rec, e);
                                    if self.cut.is_some() && !tainted {
                                        self.independent_failure(i, rec, start, stop, "read()", e)?;
                                        seen.cut_failure_compared = true;
                                    }
                                }
                            }
                            self.note(seen, rec, start, stop, fetches, last_iter_partial);
                            seen.read_buf = true;
                            if tainted {
                                seen.read_after_failed_fetch = true;
                            }
                        }
                    }
                    last_iter_partial = false;
                }
                Op::ReadIter { take } => {
                    self.log.borrow_mut().boundaries.clear();
                    let expect_len = match cur {
                        Cur::Valid { start, stop, .. } => (stop - start) as usize,
                        _ => 0,
                    };
                    let limit = match take {
                        Some(f) => idx(*f, expect_len),
                        None => usize::MAX,
                    };
                    let cap = expect_len + 8;
                    // collect: Ok bytes until the first error / the end / `limit` items
                    let mut got: Vec<u8> = Vec::new();
                    let mut err: Option<String> = None;
                    let mut ended = false;
                    match rd.read_iter() {
                        Err(e) => err = Some(format!("read_iter(): {:?}", e)),
                        Ok(mut it) => {
                            let mut n = 0usize;
                            loop {
                                if n >= limit {
                                    break;
                                }
                                if n >= cap {
                                    fail!("{}: read_iter() does not terminate: more than {} items for an interval of {} bases", self.ctx(i), cap, expect_len);
                                }
                                match it.next() {
                                    None => {
                                        ended = true;
                                        break;
                                    }
                                    Some(Ok(x)) => got.push(x),
                                    Some(Err(e)) => {
                                        err = Some(format!("item #{}: {:?}", n, e));
                                        break;
                                    }
                                }
                                n += 1;
                            }
                        }
                    }
                    match cur {
                        Cur::NoFetch => {
                            ensure!(err.is_some() && got.is_empty(), "{}: read_iter() without a successful fetch produced {} and no error", self.ctx(i), excerpt(&got));
                            seen.read_without_fetch = true;
                        }
                        Cur::Bad => {
                            ensure!(err.is_some() && got.is_empty(), "{}: read_iter() after a fetch with an invalid interval produced {} and no error", self.ctx(i), excerpt(&got));
                        }
                        Cur::Valid { rec, start, stop } => {
                            let want = &b.seqs[rec][start as usize..stop as usize];
                            // whatever was delivered as Ok must be the beginning of the slice
                            ensure!(
                                got.len() <= want.len() && got[..] == want[..got.len()],
                                "{}: read_iter() of {}..{} of record {} delivered {} but the slice is {} (first difference at {}){}",
                                self.ctx(i),
                                start,
                                stop,
                                rec,
                                excerpt(&got),
                                excerpt(want),
                                first_diff(&got, want),
                                err.as_ref().map(|e| format!("; then {}", e)).unwrap_or_default()
                            );
                            match &err {
                                Some(e) => {
                                    ensure!(self.cut.is_some() || tainted, "{}: read_iter() of the valid interval {}..{} of record {} failed: {}", self.ctx(i), start, stop, rec, e);
                                    if self.cut.is_some() && !tainted {
                                        self.independent_failure(i, rec, start, stop, "read_iter()", e)?;
                                        seen.cut_failure_compared = true;
                                    }
                                }
                                None => {
                                    if ended {
                                        ensure!(
                                            got.len() == want.len(),
                                            "{}: read_iter() of {}..{} of record {} ended after {} of {} bases without an error",
                                            self.ctx(i),
                                            start,
                                            stop,
                                            rec,
                                            got.len(),
                                            want.len()
                                        );
                                        seen.iter_full = true;
                                        if self.cut.is_some() {
                                            seen.cut_before_ok = true;
                                        }
                                    }
                                    // Ok items only: none of them may lie behind the cut
                                    if !got.is_empty() {
                                        ensure!(
                                            !self.beyond(rec, start, start + got.len() as u64),
                                            "{}: read_iter() of {}..{} of record {} delivered {} bases although the file ends before base {}",
                                            self.ctx(i),
                                            start,
                                            stop,
                                            rec,
                                            got.len(),
                                            start + got.len() as u64 - 1
                                        );
                                    }
                                }
                            }
                            self.note(seen, rec, start, stop, fetches, last_iter_partial);
                            if tainted {
                                seen.read_after_failed_fetch = true;
                            }
                        }
                    }
                    last_iter_partial = take.is_some() && matches!(cur, Cur::Valid { .. }) && limit < expect_len;
                }
            }
        }
        Ok(())
    }

    /// fetch with an invalid interval: the error may be reported by the fetch or by the read that follows
    #[allow(clippy::too_many_arguments)]
    fn misuse(&self, rd: &mut IndexedReader<ChunkedReader>, i: usize, r: usize, by_name: bool, start: u64, stop: u64, iter: bool, cur: &mut Cur, tainted: &mut bool, buf: &mut Vec<u8>) -> Result<(), Stop> {
        let e = &self.b.entries[r];
        let res = if by_name { rd.fetch(&e.name, start, stop) } else { rd.fetch_by_rid(r, start, stop) };
        if res.is_err() {
            *tainted = true;
            return Ok(());
        }
        *cur = Cur::Bad;
        *tainted = false;
        if iter {
            let failed = match rd.read_iter() {
                Err(_) => true,
                Ok(mut it) => matches!(it.next(), Some(Err(_))),
            };
            ensure!(failed, "{}: interval {}..{} of record {} (length {}) was accepted by fetch and by read_iter()", self.ctx(i), start, stop, r, e.len);
        } else {
            let res = rd.read(buf);
            ensure!(res.is_err(), "{}: interval {}..{} of record {} (length {}) was accepted by fetch and by read(), which returned {}", self.ctx(i), start, stop, r, e.len, excerpt(buf));
        }
        Ok(())
    }

    fn note(&self, seen: &mut Seen, rec: usize, start: u64, stop: u64, fetches: usize, last_iter_partial: bool) {
        let e = &self.b.entries[rec];
        if let Some(_k) = self.cut {
            if self.beyond(rec, start, stop) {
                seen.cut_beyond = true;
            } else {
                seen.cut_before = true;
            }
            return;
        }
        if start == stop {
            seen.empty_interval = true;
            return;
        }
        let w = e.width;
        let cross2 = (stop - 1) / w - start / w >= 2;
        let mid = start % w != 0;
        let (lo, hi) = (e.off(start), e.off(stop - 1));
        let inside = self.log.borrow().boundaries.iter().any(|&p| p > lo && p <= hi);
        seen.cross2 |= cross2;
        seen.mid_line_start |= mid;
        seen.chunk_inside |= inside;
        seen.nt |= cross2 && mid && inside;
        seen.span_8k |= hi - lo > 8192;
        seen.whole_record |= start == 0 && stop == e.len;
        seen.single_base |= stop - start == 1;
        seen.refetch_same_reader |= fetches >= 2;
        seen.partial_iter_then_read |= last_iter_partial;
        if rec + 1 == self.b.entries.len() && stop == e.len && !self.c.final_newline {
            seen.last_line_unterminated_read = true;
        }
    }
}

pub fn check(c: &Case) -> R {
    ensure!(!c.recs.is_empty() && c.recs.iter().all(|r| r.width >= 1 && !r.name.is_empty()), "harness: invalid layout generated");
    ensure!(!c.sched.is_empty(), "harness: empty schedule generated");
    let b = build(c);
    let mut seen = Seen::default();
    Run { c, b: &b, cut: None, log: new_log() }.history(&mut seen)?;
    if let Some(f) = c.cut {
        let k = idx(f, b.file.len() - 1) as u64; // strictly shorter than the file
        Run { c, b: &b, cut: Some(k), log: new_log() }.history(&mut seen)?;
    }

    let mut pass = Pass::new(seen.nt);
    pass.add_if(seen.cross2, "fetch crossing >= 2 line ends");
    pass.add_if(seen.mid_line_start, "start not at a line start");
    pass.add_if(seen.chunk_inside, "read() boundary inside the fetched bytes");
    pass.add_if(c.crlf, "CRLF");
    pass.add_if(!c.final_newline, "last terminator missing");
    pass.add_if(seen.last_line_unterminated_read, "read up to the unterminated end of the file");
    pass.add_if(seen.span_8k, "fetch spanning > 8 KiB of the file");
    pass.add_if(seen.span_8k && c.sched.iter().any(|&s| s >= 8192), "several full buffer fills");
    pass.add_if(c.recs.iter().any(|r| r.len > 8192), "sequence > 8 KiB");
    pass.add_if(c.recs.iter().any(|r| r.len == 0), "record without sequence");
    pass.add_if(c.samtools_single && c.recs.iter().any(|r| r.len == 0), "record without sequence, samtools-style index entry (0 bases per line)");
    pass.add_if(seen.partial_iter_then_read, "partially consumed iterator, then another read");
    pass.add_if(seen.refetch_same_reader, "several fetches on one reader");
    pass.add_if(seen.iter_full, "iterator consumed completely");
    pass.add_if(seen.read_buf, "read into buffer");
    pass.add_if(seen.unknown_name, "unknown name");
    pass.add_if(seen.bad_rid, "record number out of range");
    pass.add_if(seen.stop_beyond, "stop beyond the length");
    pass.add_if(seen.inverted, "start > stop");
    pass.add_if(seen.read_without_fetch, "read without fetch");
    pass.add_if(seen.read_after_failed_fetch, "read after a failed fetch");
    pass.add_if(seen.empty_interval, "empty interval");
    pass.add_if(seen.whole_record, "whole record");
    pass.add_if(seen.single_base, "single base");
    pass.add_if(seen.cut_beyond, "cut file: requested base behind the cut");
    pass.add_if(seen.cut_before, "cut file: interval entirely before the cut");
    pass.add_if(seen.cut_before_ok, "cut file: interval before the cut read correctly");
    pass.add_if(seen.cut_failure_compared, "cut file: failed read compared with a fresh reader");
    pass.add_if(seen.fetch_next, "sequential scan: fetch starting where the last interval ended / began");
    pass.add_if(c.start_pos.is_some() && c.via_index, "stream not at offset 0 when handed to with_index");
    pass.add_if(c.start_pos.is_some() && !c.via_index, "stream not at offset 0 when handed to new");
    pass.add_if(c.recs.iter().any(|r| r.width == 1), "line width 1");
    pass.add_if(c.recs.iter().any(|r| r.len > 0 && r.len % r.width == 0), "length multiple of line width");
    pass.add_if(c.recs.iter().any(|r| r.len <= r.width), "single-line record");
    pass.add_if(c.samtools_single && c.recs.iter().any(|r| r.len <= r.width), "samtools-style index entry of a single-line record");
    pass.add_if(c.samtools_single && !c.final_newline && c.recs.last().map_or(false, |r| r.len >= 1 && r.len <= r.width), "samtools-style entry with line_bytes = line_bases (one-line record ending the file without terminator)");
    pass.add_if(c.recs.iter().any(|r| r.width > 512), "line longer than the iterator buffer (512)");
    pass.add_if(c.sched.iter().all(|&s| s <= 3), "schedule of 1..3 byte reads");
    pass.add_if(c.via_index, "Index::new + with_index");
    pass.add_if(c.recs.len() >= 2, ">= 2 records");
    pass.add_if(names(&c.recs).iter().zip(&c.recs).any(|(n, r)| *n != r.name), "colliding names made unique");
    Ok(pass)
}

// ---------------------------------------------------------------------------
// strategies

fn name_strat() -> BoxedStrategy<String> {
    prop_oneof![
        3 => proptest::collection::vec(prop_oneof![Just('c'), Just('h'), Just('r'), Just('1'), Just('0'), Just('_')], 1..=5).prop_map(|v| v.into_iter().collect::<String>()),
        2 => proptest::sample::select(vec!["1", "2", "X", "M", "MT", "chr1", "chr2", "chrX", "chrM", "Chr1", "CHR1", "chr1_random", "1.1", "scaffold_1"]).prop_map(|s| s.to_string()),
        3 => proptest::collection::vec((b'!'..=b'~').prop_map(|b| b as char), 1..=10).prop_map(|v| v.into_iter().collect::<String>()),
        // names starting with a double quote (the .fai must not be read with CSV quoting)
        1 => proptest::collection::vec((b'!'..=b'~').prop_map(|b| b as char), 0..=6).prop_map(|v| format!("\"{}", v.into_iter().collect::<String>())),
    ]
    .boxed()
}

fn rec_strat() -> BoxedStrategy<RecL> {
    let len = prop_oneof![1 => Just(0usize), 5 => 1usize..=20, 7 => 21usize..=300, 4 => 301usize..=3000, 4 => 8193usize..=20000];
    let width = prop_oneof![2 => 1usize..=4, 4 => 5usize..=70, 2 => 71usize..=700];
    (name_strat(), proptest::option::weighted(0.4, "[a-zA-Z0-9=;.]{1,8}( [a-zA-Z0-9=;.]{1,8}){0,2}"), len, any::<u32>(), width)
        .prop_map(|(name, desc, len, seed, width)| RecL { name, desc, len, seed, width })
        .boxed()
}

fn fetch_op() -> BoxedStrategy<Op> {
    prop_oneof![
        8 => (any::<u16>(), any::<bool>(), any::<u16>(), any::<u16>(), any::<bool>()).prop_map(|(rec, by_name, a, span, near)| Op::Fetch { rec, by_name, a, span, near }),
        2 => (any::<u16>(), any::<bool>()).prop_map(|(rec, by_name)| Op::FetchAll { rec, by_name }),
        4 => (any::<bool>(), any::<u16>(), any::<bool>(), any::<bool>()).prop_map(|(by_name, span, near, again)| Op::FetchNext { by_name, span, near, again }),
    ]
    .boxed()
}

fn read_op() -> BoxedStrategy<Op> {
    prop_oneof![
        5 => Just(Op::Read),
        3 => Just(Op::ReadIter { take: None }),
        2 => any::<u16>().prop_map(|f| Op::ReadIter { take: Some(f) }),
    ]
    .boxed()
}

fn misuse_op() -> BoxedStrategy<Op> {
    let over = || prop_oneof![Just(0u64), 0u64..100, Just(u64::MAX)];
    prop_oneof![
        (proptest::option::of(any::<u16>()), "[a-z0-9_]{0,3}", any::<bool>()).prop_map(|(from_rec, salt, all)| Op::UnknownName { from_rec, salt, all }),
        (prop_oneof![Just(0u32), 0u32..1000, Just(u32::MAX)], any::<bool>()).prop_map(|(extra, all)| Op::BadRid { extra, all }),
        (any::<u16>(), any::<bool>(), any::<u16>(), over(), any::<bool>()).prop_map(|(rec, by_name, a, over, iter)| Op::StopBeyond { rec, by_name, a, over, iter }),
        (any::<u16>(), any::<bool>(), any::<u16>(), any::<u16>(), any::<bool>()).prop_map(|(rec, by_name, a, b, iter)| Op::Inverted { rec, by_name, a, b, iter }),
        (any::<u16>(), any::<bool>(), any::<u16>(), over(), any::<bool>()).prop_map(|(rec, by_name, b, over, iter)| Op::StartBeyond { rec, by_name, b, over, iter }),
    ]
    .boxed()
}

/// a history is a concatenation of short groups, so that most reads follow a fetch
fn group_strat() -> BoxedStrategy<Vec<Op>> {
    prop_oneof![
        8 => (fetch_op(), read_op()).prop_map(|(f, r)| vec![f, r]),
        3 => (fetch_op(), any::<u16>(), read_op()).prop_map(|(f, t, r)| vec![f, Op::ReadIter { take: Some(t) }, r]),
        1 => (fetch_op(), fetch_op(), read_op()).prop_map(|(f, g, r)| vec![f, g, r]),
        2 => misuse_op().prop_map(|m| vec![m]),
        1 => (misuse_op(), read_op()).prop_map(|(m, r)| vec![m, r]),
        2 => read_op().prop_map(|r| vec![r]),
    ]
    .boxed()
}

fn ops_strat() -> BoxedStrategy<Vec<Op>> {
    proptest::collection::vec(group_strat(), 1..=5).prop_map(|g| g.concat()).boxed()
}

fn sched_strat() -> BoxedStrategy<Vec<u32>> {
    prop_oneof![
        3 => proptest::collection::vec(1u32..=3, 1..=5),
        3 => proptest::collection::vec(1u32..=50, 1..=5),
        2 => proptest::collection::vec(1u32..=1000, 1..=4),
        2 => proptest::collection::vec(prop_oneof![1u32..=20000, Just(8192u32), Just(8191u32), Just(8193u32)], 1..=3),
        1 => Just(vec![1_000_000u32]),
    ]
    .boxed()
}

pub fn strat(_t: Tier) -> BoxedStrategy<Case> {
    (
        proptest::collection::vec(rec_strat(), 1..=4),
        (proptest::bool::weighted(0.45), proptest::bool::weighted(0.7), any::<bool>(), proptest::bool::weighted(0.8), proptest::bool::weighted(0.3)),
        sched_strat(),
        any::<bool>(),
        ops_strat(),
        proptest::option::weighted(0.85, any::<u16>()),
        proptest::option::weighted(0.3, prop_oneof![1 => Just(u16::MAX), 1 => Just(1u16), 3 => any::<u16>()]),
    )
        .prop_map(|(recs, (crlf, final_newline, fai_crlf, fai_final_newline, samtools_single), sched, via_index, ops, cut, start_pos)| Case {
            recs,
            crlf,
            final_newline,
            fai_crlf,
            fai_final_newline,
            samtools_single,
            sched,
            via_index,
            ops,
            cut,
            start_pos,
        })
        .boxed()
}

// ---------------------------------------------------------------------------
// large-scale sub-checks (C12/large-*): every size parameter of the indexed reader is pushed across the
// threshold ladder 255..257, 511..513, ... 2^20+1 (oracles::scale::c111213), offsets and start positions
// also across 2^31, 2^32 and 2^33 (through a file that exists only as a function of the offset).
//
// A case holds parameters only.  The scaled parameter is `what`:
//   Width    line width of one record            Len      sequence length
//   Fetch    length of one fetched interval      Records  number of records in the index
//   Offset   file offset of the record           Start    start position of the interval
//   Jumps    distance between consecutive fetches on one reader (forward and backward)
//   FileHist histories on ONE path (IndexedReader::from_file, Index::from_file / with_fasta_file): long, short, medium
//   Cut      offset at which the file is cut behind the same index
// The oracle is `base(seed, position)`: the expected slice is recomputed for every query, the file is laid
// out by the harness (`Lay`), the .fai is computed from that layout.
pub mod large {
    use super::*;
    use crate::oracles::scale::c111213::{band_label, intern, ladder, publish, Sm, TmpFiles, VirtualFile, CENTRES};
    use std::io::{Cursor, Read, Seek};

    #[derive(Serialize, Deserialize, Debug, Clone, Copy, PartialEq, Eq)]
    pub enum What {
        Width,
        Len,
        Fetch,
        Records,
        Offset,
        Start,
        Jumps,
        FileHist,
        Cut,
    }

    #[derive(Serialize, Deserialize, Debug, Clone, Copy, PartialEq, Eq)]
    pub enum Src {
        /// file computed on demand from the offset; read() delivers whatever the buffer takes
        Virtual,
        /// the same, read() delivers at most `n` bytes (the scaled value) at a time
        VirtualChunked,
        /// `Cursor<Vec<u8>>`: unfragmented
        Cursor,
        /// the chunked double with the schedule [n, 1, 8192]
        Chunked,
        /// a file on disk, opened with `IndexedReader::from_file` (index read from `<path>.fai`)
        File,
    }

    #[derive(Serialize, Deserialize, Debug, Clone)]
    pub struct LCase {
        pub what: What,
        pub n: u64,
        pub aux: usize,
        pub seed: u64,
        pub crlf: bool,
        pub final_newline: bool,
        pub src: Src,
    }

    // ---- layout

    struct RL {
        name: String,
        /// the header line including its terminator
        header: Vec<u8>,
        /// file offset of the '>'
        start: u64,
        /// file offset of the first base
        offset: u64,
        len: u64,
        width: u64,
        seed: u32,
    }

    struct Lay {
        recs: Vec<RL>,
        term: u64,
        crlf: bool,
        /// length of the file in bytes
        len: u64,
    }

    /// (name, sequence length >= 1, line width >= 1, seed)
    type Spec = (String, u64, u64, u32);

    impl Lay {
        fn build(specs: Vec<Spec>, crlf: bool, final_newline: bool) -> Lay {
            let term = if crlf { 2 } else { 1 };
            let nl: &[u8] = if crlf { b"\r\n" } else { b"\n" };
            let mut recs = Vec::with_capacity(specs.len());
            let mut pos = 0u64;
            for (name, len, width, seed) in specs {
                let mut header = vec![b'>'];
                header.extend_from_slice(name.as_bytes());
                header.extend_from_slice(nl);
                let start = pos;
                let offset = pos + header.len() as u64;
                let lines = (len + width - 1) / width;
                pos = offset + len + lines * term;
                recs.push(RL { name, header, start, offset, len, width, seed });
            }
            if !final_newline {
                pos -= term;
            }
            Lay { recs, term, crlf, len: pos }
        }

        /// file offset of base i of record r
        fn off(&self, r: usize, i: u64) -> u64 {
            let e = &self.recs[r];
            e.offset + (i / e.width) * (e.width + self.term) + i % e.width
        }

        fn term_byte(&self, k: u64) -> u8 {
            if self.crlf && k == 0 {
                b'\r'
            } else {
                b'\n'
            }
        }

        fn byte_at(&self, p: u64) -> u8 {
            // last record starting at or before p
            let r = self.recs.partition_point(|e| e.start <= p) - 1;
            let e = &self.recs[r];
            if p < e.offset {
                return e.header[(p - e.start) as usize];
            }
            let rel = p - e.offset;
            let lb = e.width + self.term;
            let line = rel / lb;
            let col = rel % lb;
            let ll = (e.len - line * e.width).min(e.width);
            if col < ll {
                base(e.seed, (line * e.width + col) as usize)
            } else {
                self.term_byte(col - ll)
            }
        }

        /// the whole file, written sequentially (second, independent rendering of the same layout)
        fn materialize(&self) -> Vec<u8> {
            let nl: &[u8] = if self.crlf { b"\r\n" } else { b"\n" };
            let mut out = Vec::with_capacity(self.len as usize + 2);
            for e in &self.recs {
                out.extend_from_slice(&e.header);
                let mut i = 0u64;
                while i < e.len {
                    let j = (i + e.width).min(e.len);
                    out.extend((i..j).map(|k| base(e.seed, k as usize)));
                    out.extend_from_slice(nl);
                    i = j;
                }
            }
            out.truncate(self.len as usize);
            out
        }

        fn fai(&self) -> Vec<u8> {
            let mut s = String::new();
            for e in &self.recs {
                s.push_str(&format!("{}\t{}\t{}\t{}\t{}\n", e.name, e.len, e.offset, e.width, e.width + self.term));
            }
            s.into_bytes()
        }

        fn describe(&self, r: usize) -> String {
            let e = &self.recs[r];
            format!("record {} {:?} of {} (len {} offset {} line_bases {} line_bytes {}; file of {} bytes, {})", r, e.name, self.recs.len(), e.len, e.offset, e.width, e.width + self.term, self.len, if self.crlf { "CRLF" } else { "LF" })
        }
    }

    // ---- queries

    #[derive(Debug, Clone)]
    struct Q {
        rec: usize,
        start: u64,
        stop: u64,
        /// 0 read(), 1 read_iter() to the end, 2 part of read_iter() then read(), 3 part of read_iter() then read_iter()
        mode: u8,
        by_name: bool,
    }

    fn exp(lay: &Lay, q: &Q, i: u64) -> u8 {
        base(lay.recs[q.rec].seed, (q.start + i) as usize)
    }

    struct Stats {
        queries: u64,
        bytes: u64,
        max_len: u64,
        iter_full: bool,
        partial: bool,
        multi_line: bool,
        within_line_long: bool,
        cut_beyond: u64,
        cut_before_ok: u64,
        back: u64,
        fwd: u64,
    }

    fn excerpt_l(b: &[u8]) -> String {
        excerpt(b)
    }

    /// one query on the reader.  `cut`: the file ends at that offset (the index does not know).
    fn run_q<R: Read + Seek>(rd: &mut IndexedReader<R>, lay: &Lay, q: &Q, buf: &mut Vec<u8>, cut: Option<u64>, st: &mut Stats, case: &str) -> Result<(), Stop> {
        let e = &lay.recs[q.rec];
        let n = q.stop - q.start;
        let ctx = || format!("{}: fetch {}..{} ({} bases, mode {}, {}) of {}{}", case, q.start, q.stop, n, q.mode, if q.by_name { "by name" } else { "by rid" }, lay.describe(q.rec), cut.map(|k| format!(" FILE CUT at offset {}", k)).unwrap_or_default());
        let res = if q.by_name {
            if q.start == 0 && q.stop == e.len && q.mode % 2 == 0 {
                rd.fetch_all(&e.name)
            } else {
                rd.fetch(&e.name, q.start, q.stop)
            }
        } else if q.start == 0 && q.stop == e.len && q.mode % 2 == 0 {
            rd.fetch_all_by_rid(q.rec)
        } else {
            rd.fetch_by_rid(q.rec, q.start, q.stop)
        };
        ensure!(res.is_ok(), "{}: the fetch of a valid interval failed: {:?}", ctx(), res);
        // first base (index within the interval) that lies at or behind the cut
        let lost_from: Option<u64> = cut.and_then(|k| {
            if n > 0 && lay.off(q.rec, q.stop - 1) >= k {
                // smallest i with off(start+i) >= k (off is monotone)
                let (mut lo, mut hi) = (0u64, n - 1);
                while lo < hi {
                    let mid = (lo + hi) / 2;
                    if lay.off(q.rec, q.start + mid) >= k {
                        hi = mid;
                    } else {
                        lo = mid + 1;
                    }
                }
                Some(lo)
            } else {
                None
            }
        });
        let iter_pass = |rd: &mut IndexedReader<R>, limit: u64, st: &mut Stats| -> Result<(), Stop> {
            let mut it = match rd.read_iter() {
                Ok(it) => it,
                Err(e) => {
                    ensure!(cut.is_some(), "{}: read_iter() failed: {:?}", ctx(), e);
                    return Ok(());
                }
            };
            let mut i = 0u64;
            loop {
                if i >= limit {
                    break;
                }
                ensure!(i <= n + 8, "{}: read_iter() does not terminate: more than {} items", ctx(), n + 8);
                match it.next() {
                    None => {
                        ensure!(i == n, "{}: read_iter() ended after {} of {} bases without an error", ctx(), i, n);
                        st.iter_full = true;
                        if cut.is_some() {
                            st.cut_before_ok += 1;
                        }
                        break;
                    }
                    Some(Err(e)) => {
                        ensure!(cut.is_some(), "{}: read_iter() item #{} is an error: {:?}", ctx(), i, e);
                        break;
                    }
                    Some(Ok(x)) => {
                        ensure!(i < n, "{}: read_iter() delivers more than the {} requested bases", ctx(), n);
                        ensure!(lost_from.map_or(true, |l| i < l), "{}: read_iter() delivered base #{} of the interval although the file ends before it", ctx(), i);
                        let want = exp(lay, q, i);
                        ensure!(x == want, "{}: read_iter() item #{} is {:?}, the sequence has {:?} there", ctx(), i, x as char, want as char);
                    }
                }
                i += 1;
            }
            Ok(())
        };
        let read_pass = |rd: &mut IndexedReader<R>, buf: &mut Vec<u8>, st: &mut Stats| -> Result<(), Stop> {
            let res = rd.read(buf);
            match res {
                Err(e) => ensure!(cut.is_some(), "{}: read() failed: {:?}", ctx(), e),
                Ok(()) => {
                    ensure!(lost_from.is_none(), "{}: read() returned Ok with {} although the file ends before base #{} of the interval", ctx(), excerpt_l(buf), lost_from.unwrap_or(0));
                    let ok = buf.len() as u64 == n && buf.iter().enumerate().all(|(i, &b)| b == exp(lay, q, i as u64));
                    if !ok {
                        let want: Vec<u8> = (0..n.min(1 << 22)).map(|i| exp(lay, q, i)).collect();
                        fail!("{}: read() returned {} bases {} but the slice has {} bases {} (first difference at {})", ctx(), buf.len(), excerpt_l(buf), n, excerpt_l(&want), first_diff(buf, &want));
                    }
                    if cut.is_some() {
                        st.cut_before_ok += 1;
                    }
                }
            }
            Ok(())
        };
        match q.mode % 4 {
            0 => read_pass(rd, buf, st)?,
            1 => iter_pass(rd, u64::MAX, st)?,
            2 => {
                iter_pass(rd, n / 2 + 1, st)?;
                st.partial = true;
                read_pass(rd, buf, st)?;
            }
            _ => {
                iter_pass(rd, (n / 3).min(700), st)?;
                st.partial = true;
                iter_pass(rd, u64::MAX, st)?;
            }
        }
        st.queries += 1;
        st.bytes += n;
        st.max_len = st.max_len.max(n);
        if n > 0 {
            let w = e.width;
            st.multi_line |= (q.stop - 1) / w > q.start / w;
            st.within_line_long |= (q.stop - 1) / w == q.start / w && n > 512;
            if lost_from.is_some() {
                st.cut_beyond += 1;
            }
        }
        Ok(())
    }

    /// positions of interest of a record: ends, ladder values, line boundaries, a few seeded ones
    fn positions(len: u64, w: u64, g: &mut Sm) -> Vec<u64> {
        let mut p: Vec<u64> = vec![0, 1, len.saturating_sub(1), len];
        for &c in CENTRES {
            p.extend([c - 1, c, c + 1]);
        }
        let lines = (len + w - 1) / w;
        for k in [1, 2, lines / 2, lines.saturating_sub(1)] {
            p.extend([(k * w).saturating_sub(1), k * w, k * w + 1]);
        }
        for _ in 0..8 {
            p.push(g.below(len + 1));
        }
        p.retain(|&x| x <= len);
        p.sort_unstable();
        p.dedup();
        p
    }

    /// the standard battery on record `rec`: short intervals at every position of interest, one long
    /// interval per ladder value, the whole record; `budget` bounds the sum of the long lengths
    fn battery(lay: &Lay, rec: usize, g: &mut Sm, budget: u64) -> Vec<Q> {
        let e = &lay.recs[rec];
        let (len, w) = (e.len, e.width);
        let mut qs = Vec::new();
        let mut k = g.below(64) as usize;
        for &p in &positions(len, w, g) {
            // to the next line end -1 / 0 / +1, or a handful of bases
            let le = (p / w + 1) * w;
            let d = [0, 1, 2, 5, 17, 300, w + 1, 2 * w + 3, 3 * w + 4, le - p, (le - p).saturating_sub(1), le - p + 1][k % 12].min(600);
            qs.push(Q { rec, start: p, stop: (p + d).min(len), mode: (k / 3 % 4) as u8, by_name: k % 2 == 0 });
            k += 1;
        }
        let mut spent = 0u64;
        let mut longs: Vec<u64> = ladder(1 << 20);
        longs.push(len);
        for (j, &l) in longs.iter().enumerate() {
            if l > len || spent + l > budget {
                continue;
            }
            spent += l;
            let room = len - l;
            let start = [0, 1, w.saturating_sub(1), w, w + 1, room, room / 2, g.below(room + 1)][(j + k) % 8].min(room);
            qs.push(Q { rec, start, stop: start + l, mode: ((j + j / 3 + k) % 4) as u8, by_name: j % 2 == 1 });
        }
        // Fisher-Yates: consecutive fetches jump forward and backward by every size class
        for i in (1..qs.len()).rev() {
            let j = g.below(i as u64 + 1) as usize;
            qs.swap(i, j);
        }
        qs
    }

    fn misuse<R: Read + Seek>(rd: &mut IndexedReader<R>, lay: &Lay, rec: usize, buf: &mut Vec<u8>, case: &str) -> Result<(), Stop> {
        let e = &lay.recs[rec];
        let nrec = lay.recs.len();
        let r = rd.fetch_by_rid(nrec, 0, 1);
        ensure!(r.is_err(), "{}: fetch_by_rid({}) succeeded, the index has {} records", case, nrec, nrec);
        let r = rd.fetch_all_by_rid(nrec + 65_536);
        ensure!(r.is_err(), "{}: fetch_all_by_rid({}) succeeded, the index has {} records", case, nrec + 65_536, nrec);
        let unknown = format!("{}?", e.name);
        let r = rd.fetch(&unknown, 0, 1);
        ensure!(r.is_err(), "{}: fetch of the unknown name {:?} succeeded", case, unknown);
        for (start, stop) in [(0, e.len + 1), (e.len, e.len + 256), (e.len.min(1), 0), (e.len + 1, e.len + 1)] {
            if start == stop && start <= e.len {
                continue;
            }
            if rd.fetch_by_rid(rec, start, stop).is_ok() {
                let r = rd.read(buf);
                ensure!(r.is_err(), "{}: the invalid interval {}..{} of {} was accepted by fetch and by read(), which returned {}", case, start, stop, lay.describe(rec), excerpt_l(buf));
                if rd.fetch(&e.name, start, stop).is_ok() {
                    let failed = match rd.read_iter() {
                        Err(_) => true,
                        Ok(mut it) => matches!(it.next(), Some(Err(_))),
                    };
                    ensure!(failed, "{}: the invalid interval {}..{} of {} was accepted by fetch and by read_iter()", case, start, stop, lay.describe(rec));
                }
            }
        }
        Ok(())
    }

    /// run `qs` (and the misuse block) on a reader over `lay` obtained as `src` says
    #[allow(clippy::too_many_arguments)]
    fn drive(c: &LCase, lay: &Lay, qs: &[Q], cut: Option<u64>, tmp: &mut TmpFiles, st: &mut Stats, case: &str, misuse_on: Option<usize>) -> Result<(), Stop> {
        let flen = cut.unwrap_or(lay.len).min(lay.len);
        let fai = lay.fai();
        let mut buf: Vec<u8> = b"stale".to_vec();
        macro_rules! go {
            ($rd:expr) => {{
                let mut rd = $rd;
                let mut last: Option<u64> = None;
                for q in qs {
                    if let Some(l) = last {
                        if q.start < l {
                            st.back += 1;
                        } else {
                            st.fwd += 1;
                        }
                    }
                    last = Some(q.start);
                    run_q(&mut rd, lay, q, &mut buf, cut, st, case)?;
                }
                if let Some(r) = misuse_on {
                    misuse(&mut rd, lay, r, &mut buf, case)?;
                    // and the reader still serves a valid interval afterwards
                    let e = &lay.recs[r];
                    let q = Q { rec: r, start: e.len / 2, stop: e.len.min(e.len / 2 + 300), mode: 0, by_name: true };
                    run_q(&mut rd, lay, &q, &mut buf, cut, st, case)?;
                }
            }};
        }
        let via_index = c.seed % 2 == 0;
        macro_rules! open {
            ($src:expr) => {{
                let the_src = $src;
                if via_index {
                    match Index::new(&fai[..]) {
                        Ok(ix) => {
                            check_sequences(&ix, lay, case)?;
                            IndexedReader::with_index(the_src, ix)
                        }
                        Err(e) => fail!("{}: Index::new rejects the .fai of {} records: {:?}", case, lay.recs.len(), e),
                    }
                } else {
                    match IndexedReader::new(the_src, &fai[..]) {
                        Ok(r) => r,
                        Err(e) => fail!("{}: IndexedReader::new rejects the .fai of {} records: {:?}", case, lay.recs.len(), e),
                    }
                }
            }};
        }
        let materialize_ok = lay.len <= (24 << 20);
        let src = match c.src {
            Src::Cursor | Src::Chunked | Src::File if !materialize_ok => Src::Virtual,
            s => s,
        };
        match src {
            Src::Virtual => go!(open!(VirtualFile::new(flen, usize::MAX, |p| lay.byte_at(p)))),
            Src::VirtualChunked => go!(open!(VirtualFile::new(flen, (c.n.max(1)).min(1 << 30) as usize, |p| lay.byte_at(p)))),
            Src::Cursor | Src::Chunked | Src::File => {
                let mut data = lay.materialize();
                ensure!(data.len() as u64 == lay.len, "harness: the materialised file has {} bytes, the layout says {}", data.len(), lay.len);
                let mut g = Sm::new(c.seed, 0xb17e);
                for _ in 0..64 {
                    let p = g.below(lay.len);
                    ensure!(data[p as usize] == lay.byte_at(p), "harness: the two renderings of the layout differ at offset {}", p);
                }
                data.truncate(flen as usize);
                match src {
                    Src::Cursor => go!(open!(Cursor::new(data))),
                    Src::Chunked => go!(open!(ChunkedReader::whole(Rc::new(data), &[c.n.clamp(1, u32::MAX as u64) as u32, 1, 8192], None))),
                    _ => {
                        let path = tmp.path("idx.fa");
                        let fai_path = tmp.path("idx.fa.fai");
                        std::fs::write(&path, &data).and_then(|_| std::fs::write(&fai_path, &fai)).map_err(|e| Stop::Fail(format!("harness: cannot write {:?}: {:?}", path, e)))?;
                        match IndexedReader::from_file(&path) {
                            Ok(rd) => {
                                check_sequences(&rd.index, lay, case)?;
                                go!(rd)
                            }
                            Err(e) => fail!("{}: IndexedReader::from_file({:?}) failed although the file and its .fai exist: {:?}", case, path, e),
                        }
                    }
                }
            }
        }
        Ok(())
    }

    fn check_sequences(ix: &Index, lay: &Lay, case: &str) -> Result<(), Stop> {
        let got = ix.sequences();
        ensure!(got.len() == lay.recs.len(), "{}: Index::sequences() lists {} records, the .fai has {}", case, got.len(), lay.recs.len());
        for (i, (s, e)) in got.iter().zip(&lay.recs).enumerate() {
            ensure!(s.name == e.name && s.len == e.len, "{}: Index::sequences()[{}] is ({:?}, {}), the .fai line says ({:?}, {})", case, i, s.name, s.len, e.name, e.len);
        }
        Ok(())
    }

    fn what_name(w: What) -> &'static str {
        match w {
            What::Width => "line width",
            What::Len => "sequence length",
            What::Fetch => "fetch length",
            What::Records => "number of index records",
            What::Offset => "record offset",
            What::Start => "start position",
            What::Jumps => "jump between consecutive fetches",
            What::FileHist => "file history: length of the long sequence",
            What::Cut => "cut offset",
        }
    }

    fn small(name: &str, seed: u64) -> Spec {
        (name.to_string(), 50 + seed % 40, 7, (seed >> 8) as u32)
    }

    pub fn check_large(c: &LCase) -> R {
        let _published = publish(c);
        ensure!(c.n >= 1, "harness: n = 0");
        let mut tmp = TmpFiles::new("C12").map_err(|e| Stop::Fail(format!("harness: cannot create the temporary directory: {:?}", e)))?;
        let case = format!("{:?}", c);
        let n = c.n;
        let mut g = Sm::new(c.seed, 0xc12);
        let sd = |k: u64| (crate::oracles::scale::c111213::mix(c.seed ^ k) >> 16) as u32;
        let mut st = Stats { queries: 0, bytes: 0, max_len: 0, iter_full: false, partial: false, multi_line: false, within_line_long: false, cut_beyond: 0, cut_before_ok: 0, back: 0, fwd: 0 };
        let budget: u64 = 5 << 20;
        let mut pass = Pass::new(n >= 255);
        pass.add(band_label(what_name(c.what), n));
        pass.add(intern(format!("scaled: {}", what_name(c.what))));
        match c.what {
            What::Width | What::Len | What::Fetch => {
                let (len, w) = match c.what {
                    What::Width => ([2 * n + n / 2 + 3, 3 * n, n, n + 1][c.aux % 4], n),
                    What::Len => (n, [60, 1, 7, 513, 8191, 70, n][c.aux % 7]),
                    _ => (n + g.below(1000) + g.below(2) * n, [n + 7, 60, n, 1, 513, 8192][c.aux % 6]),
                };
                let lay = Lay::build(vec![small("pre", c.seed), ("big".into(), len, w.max(1), sd(1)), small("post", c.seed ^ 9)], c.crlf, c.final_newline);
                let mut qs = battery(&lay, 1, &mut g, budget);
                if c.what == What::Fetch {
                    // the scaled interval length itself, at several alignments, through every mode
                    let room = len - n;
                    for (j, start) in [0, 1, 3, room, room / 2, w.saturating_sub(1)].into_iter().enumerate() {
                        let start = start.min(room); // the interval start..start+n stays inside the record
                        qs.insert(g.below(qs.len() as u64 + 1) as usize, Q { rec: 1, start, stop: start + n, mode: (j % 4) as u8, by_name: j % 2 == 0 });
                    }
                }
                qs.push(Q { rec: 0, start: 3, stop: 40, mode: 1, by_name: true });
                qs.push(Q { rec: 2, start: 0, stop: lay.recs[2].len, mode: 0, by_name: false });
                drive(c, &lay, &qs, None, &mut tmp, &mut st, &case, Some(1))?;
                pass.add_if(lay.recs[1].len <= lay.recs[1].width, "single-line record");
            }
            What::Records => {
                let nr = n as usize;
                let specs: Vec<Spec> = (0..nr)
                    .map(|i| {
                        let mut h = Sm::new(c.seed, i as u64);
                        (format!("s{}", i), 1 + h.below(30), 1 + h.below(10), h.next() as u32)
                    })
                    .collect();
                let lay = Lay::build(specs, c.crlf, c.final_newline);
                let mut ids: Vec<usize> = vec![0, nr - 1];
                for &v in &ladder(1 << 20) {
                    if (v as usize) < nr {
                        ids.push(v as usize);
                    }
                }
                for _ in 0..24 {
                    ids.push(g.below(n) as usize);
                }
                let mut qs = Vec::new();
                for (k, &r) in ids.iter().enumerate() {
                    let len = lay.recs[r].len;
                    qs.push(Q { rec: r, start: 0, stop: len, mode: (k % 2 * 2) as u8, by_name: k % 3 != 0 });
                    let a = g.below(len + 1);
                    let b = a + g.below(len - a + 1);
                    qs.push(Q { rec: r, start: a, stop: b, mode: (k % 4) as u8, by_name: k % 3 == 0 });
                }
                for i in (1..qs.len()).rev() {
                    let j = g.below(i as u64 + 1) as usize;
                    qs.swap(i, j);
                }
                drive(c, &lay, &qs, None, &mut tmp, &mut st, &case, Some(nr - 1))?;
            }
            What::Offset | What::Start => {
                // the record of interest lies behind a single-line filler record so that its offset is exactly n,
                // resp. the interval starts at position n of a record that is long enough
                let term = if c.crlf { 2 } else { 1 };
                let w = [60, 1, 8192, 511, 70_001][c.aux % 5];
                let lay = if c.what == What::Offset {
                    // ">f" nl  <filler> nl  ">big" nl  => offset = 2 + term + filler + term + 4 + term
                    let fixed = 6 + 3 * term;
                    ensure!(n > fixed, "harness: offset {} too small", n);
                    let filler = n - fixed;
                    Lay::build(vec![("f".into(), filler, filler, sd(2)), ("big".into(), 5000 + g.below(5000), w, sd(3)), small("post", c.seed)], c.crlf, c.final_newline)
                } else {
                    Lay::build(vec![small("pre", c.seed), ("big".into(), n + 3000 + g.below(5000), w, sd(3)), small("post", c.seed)], c.crlf, c.final_newline)
                };
                let mut qs: Vec<Q> = Vec::new();
                if c.what == What::Offset {
                    ensure!(lay.recs[1].offset == n, "harness: the record offset is {} instead of {}", lay.recs[1].offset, n);
                    qs = battery(&lay, 1, &mut g, budget);
                    // the end of the filler, just in front of the offset
                    let fl = lay.recs[0].len;
                    qs.push(Q { rec: 0, start: fl.saturating_sub(300), stop: fl, mode: 1, by_name: true });
                    qs.push(Q { rec: 2, start: 0, stop: lay.recs[2].len, mode: 0, by_name: true });
                } else {
                    let len = lay.recs[1].len;
                    for (k, d) in [0u64, 1, 2, 100, 700, 3 * w + 1, w - 1, w, w + 1].into_iter().enumerate() {
                        for (j, s) in [n - 1, n, n + 1].into_iter().enumerate() {
                            qs.push(Q { rec: 1, start: s, stop: (s + d.min(30_000)).min(len), mode: ((k + j) % 4) as u8, by_name: (k + j) % 2 == 0 });
                        }
                    }
                    qs.push(Q { rec: 1, start: 0, stop: 200, mode: 0, by_name: true });
                    qs.push(Q { rec: 2, start: 0, stop: lay.recs[2].len, mode: 1, by_name: true });
                    for i in (1..qs.len()).rev() {
                        let j = g.below(i as u64 + 1) as usize;
                        qs.swap(i, j);
                    }
                }
                drive(c, &lay, &qs, None, &mut tmp, &mut st, &case, Some(1))?;
            }
            What::Jumps => {
                let w = [60, 1, 8192, 513, 4096][c.aux % 5];
                let lay = Lay::build(vec![small("pre", c.seed), ("big".into(), 2 * n + 3000, w, sd(4)), small("post", c.seed)], c.crlf, c.final_newline);
                let mut qs = Vec::new();
                let mut p = 500u64;
                for k in 0..12u64 {
                    let d = 1 + g.below(600);
                    qs.push(Q { rec: 1, start: p, stop: p + d, mode: (k % 4) as u8, by_name: k % 2 == 0 });
                    // forward by n (+-1), backward by n (+-1), alternating
                    let j = n + k % 3 - 1;
                    p = if k % 2 == 0 { p + j } else { p - j.min(p) };
                }
                drive(c, &lay, &qs, None, &mut tmp, &mut st, &case, None)?;
                pass.add_if(st.back > 0 && st.fwd > 0, "forward and backward jumps on one reader");
            }
            What::FileHist => {
                // one path, three generations of the file and of its index
                let path = tmp.path("idx.fa");
                let fai_path = tmp.path("idx.fa.fai");
                for (step, (len, w)) in [(n, [60u64, 1, 513, n][c.aux % 4]), (n / 3 + 1, 70), (n / 2 + 5, [61u64, 8192][c.aux % 2]), (3, 2)].into_iter().enumerate() {
                    let lay = Lay::build(vec![small("pre", c.seed ^ step as u64), (format!("gen{}", step), len, w.max(1), sd(10 + step as u64)), small("post", c.seed)], c.crlf, c.final_newline);
                    let qs = battery(&lay, 1, &mut g, budget / 2);
                    let cc = LCase { src: Src::File, ..c.clone() };
                    let scase = format!("{} step {} of the history on one path (sequence length {}, width {})", case, step, len, w);
                    drive(&cc, &lay, &qs, None, &mut tmp, &mut st, &scase, Some(1))?;
                    // the index-only entry points see the current generation as well
                    for (what, ix) in [("Index::from_file", Index::from_file(&fai_path)), ("Index::with_fasta_file", Index::with_fasta_file(&path))] {
                        match ix {
                            Ok(ix) => {
                                check_sequences(&ix, &lay, &format!("{} {}", scase, what))?;
                                match std::fs::File::open(&path) {
                                    Ok(f) => {
                                        let mut rd = IndexedReader::with_index(f, ix);
                                        let mut buf = Vec::new();
                                        let q = Q { rec: 1, start: len / 2, stop: len, mode: 0, by_name: true };
                                        run_q(&mut rd, &lay, &q, &mut buf, None, &mut st, &format!("{} {} + with_index(File)", scase, what))?;
                                    }
                                    Err(e) => fail!("harness: cannot open {:?}: {:?}", path, e),
                                }
                            }
                            Err(e) => fail!("{}: {} failed on an existing index file: {:?}", scase, what, e),
                        }
                    }
                }
                pass.add("file history: long, short, medium, tiny on one path");
                pass.add("Index::from_file, Index::with_fasta_file, with_index(File)");
            }
            What::Cut => {
                // the cut lies inside the second record
                let w = [60, 1, 513, 8192, 7][c.aux % 5];
                let lay = Lay::build(vec![small("pre", c.seed), ("big".into(), n + 2000 + g.below(3000), w, sd(5)), small("post", c.seed)], c.crlf, c.final_newline);
                ensure!(lay.recs[1].offset < n && n < lay.len, "harness: cut {} outside the big record", n);
                // first base at or behind the cut
                let e = &lay.recs[1];
                let (mut lo, mut hi) = (0u64, e.len - 1);
                while lo < hi {
                    let mid = (lo + hi) / 2;
                    if lay.off(1, mid) >= n {
                        hi = mid;
                    } else {
                        lo = mid + 1;
                    }
                }
                let b = lo;
                let mut qs = Vec::new();
                let mut k = 0usize;
                for s in [0, b.saturating_sub(700), b.saturating_sub(w + 1), b.saturating_sub(1), b, b + 1, b + w] {
                    for t in [b.saturating_sub(1), b, b + 1, b + 2, b + 600, e.len] {
                        if s <= t && t <= e.len && (t - s <= 4096 || k % 5 == 0) {
                            qs.push(Q { rec: 1, start: s, stop: t, mode: (k % 4) as u8, by_name: k % 2 == 0 });
                        }
                        k += 1;
                    }
                }
                qs.push(Q { rec: 0, start: 0, stop: lay.recs[0].len, mode: 0, by_name: true });
                qs.push(Q { rec: 2, start: 0, stop: 5, mode: 1, by_name: true });
                for i in (1..qs.len()).rev() {
                    let j = g.below(i as u64 + 1) as usize;
                    qs.swap(i, j);
                }
                drive(c, &lay, &qs, Some(n), &mut tmp, &mut st, &case, None)?;
                pass.add_if(st.cut_beyond > 0, "cut file: requested base behind the cut");
                pass.add_if(st.cut_before_ok > 0, "cut file: interval before the cut read correctly");
            }
        }
        pass.add(match c.src {
            Src::Virtual => "source: computed file",
            Src::VirtualChunked => "source: computed file, read() of at most n bytes",
            Src::Cursor => "source: Cursor (unfragmented)",
            Src::Chunked => "source: chunked double",
            Src::File => "source: file on disk (IndexedReader::from_file)",
        });
        pass.add_if(c.crlf, "CRLF");
        pass.add_if(!c.final_newline, "last terminator missing");
        pass.add_if(st.iter_full, "iterator consumed completely");
        pass.add_if(st.partial, "partially consumed iterator, then another read");
        pass.add_if(st.multi_line, "fetch crossing line ends");
        pass.add_if(st.within_line_long, "fetch of more than 512 bases within one line");
        pass.add_if(st.max_len > 8192, "fetch longer than 8 KiB");
        pass.add_if(st.max_len > 65_536, "fetch longer than 64 KiB");
        pass.add_if(st.back > 0 && st.fwd > 0, "forward and backward fetches on one reader");
        Ok(pass)
    }

    // ---- enumeration and random strategy

    const BIG: &[u64] = &[(1 << 31) - 1, 1 << 31, (1 << 31) + 1, (1 << 32) - 1, 1 << 32, (1 << 32) + 1, (1 << 33) + 5, 1 << 40];

    fn top(what: What, t: Tier) -> u64 {
        match (what, t) {
            (What::Records, Tier::Quick) => 131_072,
            _ => 1 << 20,
        }
    }

    fn grid(whats: &[What], t: Tier) -> Vec<LCase> {
        let mut out = Vec::new();
        let mut k = 0usize;
        for seed in 1..=6u64 {
            for &what in whats {
                let nseeds = match (t, what) {
                    (Tier::Quick, _) => 1,
                    (_, What::Records) => 3,
                    _ => 6,
                };
                if seed > nseeds {
                    continue;
                }
                let mut values = ladder(top(what, t));
                if matches!(what, What::Offset | What::Start) {
                    values.extend_from_slice(BIG);
                }
                if seed == 1 && !matches!(what, What::Offset | What::Cut) {
                    values.splice(0..0, [1u64, 2, 63, 64, 65]);
                }
                for &n in &values {
                    let reps = match (t, what) {
                        (Tier::Thorough, _) if n <= 70_001 => 4,
                        (_, What::Records) | (_, What::FileHist) => 1,
                        _ => 2,
                    };
                    for _ in 0..reps {
                        k += 1;
                        let src = match what {
                            What::Offset | What::Start => [Src::Virtual, Src::VirtualChunked][k % 2],
                            What::FileHist => Src::File,
                            What::Records => [Src::Cursor, Src::Chunked, Src::File][k % 3],
                            _ => [Src::Virtual, Src::Cursor, Src::Chunked, Src::File, Src::VirtualChunked][k % 5],
                        };
                        if what == What::Cut && n < 200 {
                            continue;
                        }
                        out.push(LCase { what, n, aux: k / 5, seed: seed.wrapping_mul(0x9e37_79b9) ^ (k as u64) << 9, crlf: (k / 2) % 2 == 1, final_newline: k % 7 != 3, src });
                    }
                }
            }
        }
        out.sort_by_key(|c| c.n);
        out
    }

    pub fn enum_shape(t: Tier) -> Box<dyn Iterator<Item = LCase>> {
        Box::new(grid(&[What::Width, What::Len], t).into_iter())
    }
    pub fn enum_fetch(t: Tier) -> Box<dyn Iterator<Item = LCase>> {
        Box::new(grid(&[What::Fetch, What::Jumps, What::Cut], t).into_iter())
    }
    pub fn enum_index(t: Tier) -> Box<dyn Iterator<Item = LCase>> {
        Box::new(grid(&[What::Records, What::Offset, What::Start], t).into_iter())
    }
    pub fn enum_files(t: Tier) -> Box<dyn Iterator<Item = LCase>> {
        Box::new(grid(&[What::FileHist], t).into_iter())
    }

    pub fn reach(whats: &[What], extra: &[&'static str]) -> &'static [&'static str] {
        let mut v: Vec<&'static str> = Vec::new();
        for &w in whats {
            for &c in CENTRES {
                if c <= top(w, Tier::Quick) {
                    v.push(band_label(what_name(w), c));
                }
            }
            if matches!(w, What::Offset | What::Start) {
                v.push(band_label(what_name(w), 1 << 32));
            }
        }
        v.extend_from_slice(extra);
        Box::leak(v.into_boxed_slice())
    }

    pub fn strat_random(_t: Tier) -> BoxedStrategy<LCase> {
        let what = proptest::sample::select(vec![What::Width, What::Len, What::Fetch, What::Records, What::Offset, What::Start, What::Jumps, What::FileHist, What::Cut]);
        let n = prop_oneof![
            3 => (proptest::sample::select(vec![256u64, 512, 1024, 4096, 8192, 16384, 32768, 65536, 70_000, 131_072]), 0u64..=6).prop_map(|(c, d)| c + d - 3),
            2 => (8u32..=17, any::<u16>()).prop_map(|(bits, r)| (1u64 << bits) + (r as u64 * ((1u64 << bits) - 1) >> 16)),
            1 => 30u64..=300,
        ];
        let src = proptest::sample::select(vec![Src::Virtual, Src::VirtualChunked, Src::Cursor, Src::Chunked, Src::File]);
        (what, n, 0usize..1000, any::<u64>(), any::<bool>(), proptest::bool::weighted(0.8), src, proptest::sample::select(BIG.to_vec()), proptest::bool::weighted(0.15))
            .prop_map(|(what, n, aux, seed, crlf, final_newline, src, big, use_big)| {
                let mut n = if matches!(what, What::Records | What::FileHist) { n.min(70_003) } else { n };
                let mut src = src;
                if matches!(what, What::Offset | What::Start) {
                    if use_big {
                        n = big;
                    }
                    if !matches!(src, Src::Virtual | Src::VirtualChunked) && n > (1 << 20) {
                        src = Src::Virtual;
                    }
                }
                if what == What::Cut {
                    n = n.max(200);
                }
                LCase { what, n, aux, seed, crlf, final_newline, src }
            })
            .boxed()
    }
}

pub fn property() -> Property {
    Property {
        id: "C12",
        rule: "1-4 records (unique names, optional header description; length 1..20000 with a band above 8 KiB; per-record line width 1..700; LF or CRLF; last terminator optionally missing; symbols a fixed pseudo-random function of (seed, position) over 20 letters so that shifted data is visible) are laid out by the harness, which also writes the matching .fai (LF/CRLF, samtools-style entry for single-line records optional). One IndexedReader (new or Index::new+with_index) over a chunked Read+Seek double (cyclic schedule of 1..3 / 1..50 / 1..1000 / around 8192 / unfragmented read sizes) executes a history of 1-15 operations (groups of fetch+read, fetch+partial iterator+read, fetch+fetch+read, misuse, lone reads): fetch / fetch_by_rid with a valid interval (uniform or short and near line ends), fetch_all(_by_rid), read into a reused buffer, read_iter consumed completely or partly, and the misuse operations unknown name, record number out of range, stop > length, start > stop, read before any fetch. Oracle = the generated sequences: every successful read/iterator equals sequence[start..stop] whatever happened before; misuse must be reported as Err (by the fetch or by the read that follows). The same history then runs on the file cut at a random offset behind the same index: Err is required when a requested base lies at or behind the cut, otherwise Err or exactly the slice; bytes delivered by the iterator before an error must be a prefix of the slice. Iterators are capped at interval length + 8 items. Non-trivial = some read on the intact file crossed >= 2 line ends, started inside a line and had a read() boundary inside the fetched bytes. large-*: parameter-only cases push ONE size parameter across the ladder 255..257 ... 2^20+-1: line width, sequence length, fetch length (within one line and across lines), number of index records (fetch by name and by rid around every ladder value, Index::sequences), record offset and start position (also 2^31+-1, 2^32+-1, 2^33, 2^40 through a file that is computed from the offset), distance of consecutive fetches on one reader (forward/backward), histories on one path (IndexedReader::from_file with the .fai on disk, Index::from_file, Index::with_fasta_file, with_index(File); long, short, medium, tiny generation), cut offset. Sources: computed file (unfragmented or read() of at most n bytes), Cursor, chunked double, file on disk. Per case ~100 queries in seeded shuffled order on ONE reader: short intervals at 0/1/len-1/len, around every ladder value and line boundary, one long interval per ladder value (sum <= 5 MiB), whole record; each through read(), read_iter() to the end, or a partly consumed iterator followed by read()/read_iter(); then the misuse block (rid = number of records, unknown name, stop > len, start > stop) and one more valid fetch. Oracle = base(seed, position) recomputed per query. Non-trivial (large) = scaled value >= 255. Distinct = distinct serialised case.",
        assumptions: &[
            "record names are unique, non-empty and without blanks (names starting with a double quote are generated: the .fai is not a quoted CSV dialect)",
            "empty records are excluded (line width >= 1 is required)",
            "no ErrorKind::Interrupted is injected: IndexedReader uses BufReader::fill_buf directly, which std does not retry",
            "after a fetch call that failed (unknown name / record number), a read may either fail or serve the previously fetched interval",
        ],
        subs: vec![Box::new(PropSub {
            name: "C12/history",
            quick: 400_000,
            thorough: 8_000_000,
            shards_quick: 16,
            shards_thorough: 16,
            strat,
            check,
            must_reach: &[
                "fetch crossing >= 2 line ends",
                "start not at a line start",
                "read() boundary inside the fetched bytes",
                "CRLF",
                "last terminator missing",
                "read up to the unterminated end of the file",
                "fetch spanning > 8 KiB of the file",
                "several full buffer fills",
                "partially consumed iterator, then another read",
                "unknown name",
                "record number out of range",
                "stop beyond the length",
                "start > stop",
                "read without fetch",
                "cut file: requested base behind the cut",
                "cut file: interval before the cut read correctly",
            ],
            watch: true,
        }),
        Box::new(ExhSub {
            name: "C12/large-shape",
            enumerate: large::enum_shape,
            check: large::check_large,
            must_reach: large::reach(&[large::What::Width, large::What::Len], &["fetch of more than 512 bases within one line", "fetch longer than 64 KiB", "source: computed file", "source: Cursor (unfragmented)", "source: chunked double", "source: file on disk (IndexedReader::from_file)", "CRLF", "last terminator missing", "partially consumed iterator, then another read", "single-line record"]),
        }),
        Box::new(ExhSub {
            name: "C12/large-fetch",
            enumerate: large::enum_fetch,
            check: large::check_large,
            must_reach: large::reach(&[large::What::Fetch, large::What::Jumps, large::What::Cut], &["forward and backward jumps on one reader", "cut file: requested base behind the cut", "cut file: interval before the cut read correctly", "fetch of more than 512 bases within one line", "iterator consumed completely"]),
        }),
        Box::new(ExhSub {
            name: "C12/large-index",
            enumerate: large::enum_index,
            check: large::check_large,
            must_reach: large::reach(&[large::What::Records, large::What::Offset, large::What::Start], &["source: computed file, read() of at most n bytes", "source: file on disk (IndexedReader::from_file)"]),
        }),
        Box::new(ExhSub {
            name: "C12/large-files",
            enumerate: large::enum_files,
            check: large::check_large,
            must_reach: large::reach(&[large::What::FileHist], &["file history: long, short, medium, tiny on one path", "Index::from_file, Index::with_fasta_file, with_index(File)"]),
        }),
        Box::new(PropSub {
            name: "C12/large-random",
            quick: 3_200,
            thorough: 64_000,
            shards_quick: 8,
            shards_thorough: 16,
            strat: large::strat_random,
            check: large::check_large,
            must_reach: &[
                "scaled: line width", "scaled: sequence length", "scaled: fetch length", "scaled: number of index records", "scaled: record offset", "scaled: start position", "scaled: jump between consecutive fetches", "scaled: file history: length of the long sequence", "scaled: cut offset",
            ],
            watch: true,
        })],
    }
}
