//! C12 — indexed FASTA random access returns exactly the requested slice.
//!
//! The harness lays out a FASTA file itself (per-record uniform line width, LF or CRLF,
//! optional missing last terminator), computes the matching .fai from that layout, and runs a
//! history of fetch / read / read_iter / misuse operations on ONE IndexedReader over a chunked
//! `Read + Seek` double, in lock-step with a model (the sequences).  The same history is then
//! run on the file cut at a random offset behind the same index.

use crate::engine::gen::idx;
use crate::engine::*;
use crate::oracles::io::{new_log, ChunkedReader, Log};
use crate::{ensure, fail};
use bio::io::fasta::{Index, IndexedReader};
use proptest::prelude::*;
use serde::{Deserialize, Serialize};
use std::rc::Rc;

// ---------------------------------------------------------------------------
// case data

#[derive(Serialize, Deserialize, Debug, Clone)]
pub struct RecL {
    /// record name (made unique by appending '_' where necessary, see `names()`)
    pub name: String,
    /// rest of the header line after a blank
    pub desc: Option<String>,
    /// sequence length (>= 1); the symbols are a fixed function of (seed, position), see `base()`
    pub len: usize,
    pub seed: u32,
    /// line width in bases (>= 1)
    pub width: usize,
}

#[derive(Serialize, Deserialize, Debug, Clone)]
pub enum Op {
    /// valid interval: start = idx(a, len); stop = start + idx(span, min(len - start, 3 * width + 4)) when
    /// `near`, else idx(span, len - start) further
    Fetch { rec: u16, by_name: bool, a: u16, span: u16, near: bool },
    FetchAll { rec: u16, by_name: bool },
    /// read() into the (reused, non-empty) buffer
    Read,
    /// read_iter(); None = consume completely, Some(f) = take idx(f, expected length) items, then drop
    ReadIter { take: Option<u16> },
    /// fetch / fetch_all with a name that is not in the index (derived from an existing name + salt, or salt alone)
    UnknownName { from_rec: Option<u16>, salt: String, all: bool },
    /// fetch_by_rid / fetch_all_by_rid with rid = number of records + extra
    BadRid { extra: u32, all: bool },
    /// stop = len + 1 + over; then read (iter = read_iter)
    StopBeyond { rec: u16, by_name: bool, a: u16, over: u64, iter: bool },
    /// start > stop, both <= len (needs len >= 1); then read
    Inverted { rec: u16, by_name: bool, a: u16, b: u16, iter: bool },
    /// start = len + 1 + over > stop <= len; then read
    StartBeyond { rec: u16, by_name: bool, b: u16, over: u64, iter: bool },
}

#[derive(Serialize, Deserialize, Debug, Clone)]
pub struct Case {
    pub recs: Vec<RecL>,
    pub crlf: bool,
    /// false: the terminator of the very last line of the file is missing
    pub final_newline: bool,
    /// .fai written with CRLF / without its last terminator
    pub fai_crlf: bool,
    pub fai_final_newline: bool,
    /// records that fit on one line are indexed the way samtools does: line_bases = len
    pub samtools_single: bool,
    /// cyclic read() schedule of the FASTA double (each >= 1; no EINTR: IndexedReader calls fill_buf directly)
    pub sched: Vec<u32>,
    /// Index::new + IndexedReader::with_index instead of IndexedReader::new
    pub via_index: bool,
    pub ops: Vec<Op>,
    /// the history is repeated on the file cut at idx(cut, file length - 1)
    pub cut: Option<u16>,
}

const ALPH: &[u8] = b"ACGTNRYKMSWBDHVacgtn";

fn mix(mut z: u64) -> u64 {
    z = z.wrapping_add(0x9e3779b97f4a7c15);
    z = (z ^ (z >> 30)).wrapping_mul(0xbf58476d1ce4e5b9);
    z = (z ^ (z >> 27)).wrapping_mul(0x94d049bb133111eb);
    z ^ (z >> 31)
}

pub fn base(seed: u32, i: usize) -> u8 {
    ALPH[(mix(((seed as u64) << 32) ^ i as u64) % ALPH.len() as u64) as usize]
}

fn sequence(r: &RecL) -> Vec<u8> {
    (0..r.len).map(|i| base(r.seed, i)).collect()
}

/// effective (unique) names
fn names(recs: &[RecL]) -> Vec<String> {
    let mut out: Vec<String> = Vec::new();
    for r in recs {
        let mut n = r.name.clone();
        while out.contains(&n) {
            n.push('_');
        }
        out.push(n);
    }
    out
}

#[derive(Debug, Clone)]
struct Entry {
    name: String,
    len: u64,
    offset: u64,
    line_bases: u64,
    line_bytes: u64,
    /// layout truth used by the oracle
    width: u64,
    term: u64,
}

impl Entry {
    /// file offset of base i
    fn off(&self, i: u64) -> u64 {
        self.offset + (i / self.width) * (self.width + self.term) + i % self.width
    }
}

struct Built {
    file: Vec<u8>,
    fai: Vec<u8>,
    entries: Vec<Entry>,
    seqs: Vec<Vec<u8>>,
}

fn build(c: &Case) -> Built {
    let nl: &[u8] = if c.crlf { b"\r\n" } else { b"\n" };
    let term = nl.len() as u64;
    let nm = names(&c.recs);
    let mut file = Vec::new();
    let mut entries = Vec::new();
    let mut seqs = Vec::new();
    for (r, name) in c.recs.iter().zip(nm) {
        let w = r.width.max(1);
        file.push(b'>');
        file.extend_from_slice(name.as_bytes());
        if let Some(d) = &r.desc {
            file.push(b' ');
            file.extend_from_slice(d.as_bytes());
        }
        file.extend_from_slice(nl);
        let offset = file.len() as u64;
        let s = sequence(r);
        for line in s.chunks(w) {
            file.extend_from_slice(line);
            file.extend_from_slice(nl);
        }
        let (lb, lby) = if c.samtools_single && s.len() <= w { (s.len() as u64, s.len() as u64 + term) } else { (w as u64, w as u64 + term) };
        entries.push(Entry { name, len: s.len() as u64, offset, line_bases: lb, line_bytes: lby, width: w as u64, term });
        seqs.push(s);
    }
    if !c.final_newline {
        file.truncate(file.len() - nl.len());
    }
    let fnl: &[u8] = if c.fai_crlf { b"\r\n" } else { b"\n" };
    let mut fai = Vec::new();
    for e in &entries {
        fai.extend_from_slice(format!("{}\t{}\t{}\t{}\t{}", e.name, e.len, e.offset, e.line_bases, e.line_bytes).as_bytes());
        fai.extend_from_slice(fnl);
    }
    if !c.fai_final_newline {
        fai.truncate(fai.len() - fnl.len());
    }
    Built { file, fai, entries, seqs }
}

// ---------------------------------------------------------------------------
// model

#[derive(Debug, Clone, Copy, PartialEq, Eq)]
enum Cur {
    NoFetch,
    Valid { rec: usize, start: u64, stop: u64 },
    /// a fetch accepted an invalid interval: every read must fail
    Bad,
}

#[derive(Default)]
struct Seen {
    cross2: bool,
    mid_line_start: bool,
    nt: bool,
    span_8k: bool,
    chunk_inside: bool,
    partial_iter_then_read: bool,
    unknown_name: bool,
    bad_rid: bool,
    stop_beyond: bool,
    inverted: bool,
    read_without_fetch: bool,
    read_after_failed_fetch: bool,
    empty_interval: bool,
    whole_record: bool,
    iter_full: bool,
    read_buf: bool,
    refetch_same_reader: bool,
    cut_beyond: bool,
    cut_before: bool,
    cut_before_ok: bool,
    last_line_unterminated_read: bool,
    single_base: bool,
}

fn excerpt(b: &[u8]) -> String {
    if b.len() <= 120 {
        format!("{:?}", lossy(b))
    } else {
        format!("{:?}..{:?} ({} bases)", lossy(&b[..50]), lossy(&b[b.len() - 50..]), b.len())
    }
}

fn first_diff(a: &[u8], b: &[u8]) -> usize {
    a.iter().zip(b.iter()).position(|(x, y)| x != y).unwrap_or(a.len().min(b.len()))
}

fn layout_text(c: &Case, b: &Built) -> String {
    let mut s = format!("file of {} bytes, {}, last terminator {}, schedule {:?}; records:", b.file.len(), if c.crlf { "CRLF" } else { "LF" }, if c.final_newline { "present" } else { "missing" }, c.sched);
    for e in &b.entries {
        s.push_str(&format!(" [{:?} len {} offset {} line_bases {} line_bytes {}]", e.name, e.len, e.offset, e.line_bases, e.line_bytes));
    }
    s
}

struct Run<'a> {
    c: &'a Case,
    b: &'a Built,
    /// Some(cut) when the history runs on the truncated file
    cut: Option<u64>,
    log: Log,
}

impl<'a> Run<'a> {
    fn ctx(&self, i: usize) -> String {
        format!(
            "op #{} {:?} ({}){}",
            i,
            self.c.ops[i],
            layout_text(self.c, self.b),
            match self.cut {
                Some(k) => format!(" FILE CUT at offset {}", k),
                None => String::new(),
            }
        )
    }

    /// does the interval need a byte at or behind the cut?
    fn beyond(&self, rec: usize, start: u64, stop: u64) -> bool {
        match self.cut {
            Some(k) => start < stop && self.b.entries[rec].off(stop - 1) >= k,
            None => false,
        }
    }

    fn history(&self, seen: &mut Seen) -> Result<(), Stop> {
        let c = self.c;
        let b = self.b;
        let data = Rc::new(match self.cut {
            Some(k) => b.file[..k as usize].to_vec(),
            None => b.file.clone(),
        });
        let sched: Vec<u32> = c.sched.iter().map(|&s| s.max(1)).collect();
        let src = ChunkedReader::whole(data.clone(), &sched, Some(self.log.clone()));
        let fai_src = ChunkedReader::whole(Rc::new(b.fai.clone()), &sched, None);
        let mut rd = if c.via_index {
            match Index::new(fai_src) {
                Ok(ix) => {
                    let got: Vec<(String, u64)> = ix.sequences().into_iter().map(|s| (s.name, s.len)).collect();
                    let want: Vec<(String, u64)> = b.entries.iter().map(|e| (e.name.clone(), e.len)).collect();
                    ensure!(got == want, "Index::new on {:?} lists {:?}, the index describes {:?}", lossy(&b.fai), got, want);
                    IndexedReader::with_index(src, ix)
                }
                Err(e) => fail!("Index::new rejects the .fai {:?}: {:?}", lossy(&b.fai), e),
            }
        } else {
            match IndexedReader::new(src, fai_src) {
                Ok(r) => r,
                Err(e) => fail!("IndexedReader::new rejects the .fai {:?}: {:?}", lossy(&b.fai), e),
            }
        };
        let nrec = b.entries.len();
        let mut cur = Cur::NoFetch;
        let mut tainted = false; // the last fetch call failed (as it had to): a read may fail or serve `cur`
        let mut buf: Vec<u8> = b"stale".to_vec();
        let mut fetches = 0usize;
        let mut last_iter_partial = false;

        for (i, op) in c.ops.iter().enumerate() {
            let pick = |rec: u16| idx(rec, nrec - 1);
            match op {
                Op::Fetch { rec, by_name, a, span, near } => {
                    let r = pick(*rec);
                    let e = &b.entries[r];
                    let start = idx(*a, e.len as usize) as u64;
                    let room = e.len - start;
                    let room = if *near { room.min(3 * e.width + 4) } else { room };
                    let stop = start + idx(*span, room as usize) as u64;
                    let res = if *by_name { rd.fetch(&e.name, start, stop) } else { rd.fetch_by_rid(r, start, stop) };
                    ensure!(res.is_ok(), "{}: fetch of the valid interval {}..{} of record {} failed: {:?}", self.ctx(i), start, stop, r, res);
                    cur = Cur::Valid { rec: r, start, stop };
                    tainted = false;
                    fetches += 1;
                }
                Op::FetchAll { rec, by_name } => {
                    let r = pick(*rec);
                    let e = &b.entries[r];
                    let res = if *by_name { rd.fetch_all(&e.name) } else { rd.fetch_all_by_rid(r) };
                    ensure!(res.is_ok(), "{}: fetch_all of record {} failed: {:?}", self.ctx(i), r, res);
                    cur = Cur::Valid { rec: r, start: 0, stop: e.len };
                    tainted = false;
                    fetches += 1;
                }
                Op::UnknownName { from_rec, salt, all } => {
                    let mut name = match from_rec {
                        Some(r) => format!("{}{}", b.entries[pick(*r)].name, salt),
                        None => salt.clone(),
                    };
                    while b.entries.iter().any(|e| e.name == name) {
                        name.push('~');
                    }
                    let res = if *all { rd.fetch_all(&name) } else { rd.fetch(&name, 0, 1) };
                    ensure!(res.is_err(), "{}: fetch of the unknown name {:?} succeeded", self.ctx(i), name);
                    tainted = true;
                    seen.unknown_name = true;
                }
                Op::BadRid { extra, all } => {
                    let rid = nrec + *extra as usize;
                    let res = if *all { rd.fetch_all_by_rid(rid) } else { rd.fetch_by_rid(rid, 0, 1) };
                    ensure!(res.is_err(), "{}: fetch of record number {} succeeded, there are {} records", self.ctx(i), rid, nrec);
                    tainted = true;
                    seen.bad_rid = true;
                }
                Op::StopBeyond { rec, by_name, a, over, iter } => {
                    let r = pick(*rec);
                    let e = &b.entries[r];
                    let start = idx(*a, e.len as usize) as u64;
                    let stop = (e.len + 1).saturating_add(*over);
                    self.misuse(&mut rd, i, r, *by_name, start, stop, *iter, &mut cur, &mut tainted, &mut buf)?;
                    seen.stop_beyond = true;
                }
                Op::Inverted { rec, by_name, a, b: bb, iter } => {
                    let r = pick(*rec);
                    let e = &b.entries[r];
                    let start = 1 + idx(*a, e.len as usize - 1) as u64;
                    let stop = idx(*bb, start as usize - 1) as u64;
                    self.misuse(&mut rd, i, r, *by_name, start, stop, *iter, &mut cur, &mut tainted, &mut buf)?;
                    seen.inverted = true;
                }
                Op::StartBeyond { rec, by_name, b: bb, over, iter } => {
                    let r = pick(*rec);
                    let e = &b.entries[r];
                    let start = (e.len + 1).saturating_add(*over);
                    let stop = idx(*bb, e.len as usize) as u64;
                    self.misuse(&mut rd, i, r, *by_name, start, stop, *iter, &mut cur, &mut tainted, &mut buf)?;
                    seen.inverted = true;
                }
                Op::Read => {
                    self.log.borrow_mut().boundaries.clear();
                    let res = rd.read(&mut buf);
                    match cur {
                        Cur::NoFetch => {
                            ensure!(res.is_err(), "{}: read() without a successful fetch returned Ok with {}", self.ctx(i), excerpt(&buf));
                            seen.read_without_fetch = true;
                        }
                        Cur::Bad => {
                            ensure!(res.is_err(), "{}: read() after a fetch with an invalid interval returned Ok with {}", self.ctx(i), excerpt(&buf));
                        }
                        Cur::Valid { rec, start, stop } => {
                            let want = &b.seqs[rec][start as usize..stop as usize];
                            match &res {
                                Ok(()) => {
                                    ensure!(
                                        !self.beyond(rec, start, stop),
                                        "{}: read() of {}..{} of record {} returned Ok although the file ends before the last requested base (offset {}); got {}",
                                        self.ctx(i),
                                        start,
                                        stop,
                                        rec,
                                        b.entries[rec].off(stop - 1),
                                        excerpt(&buf)
                                    );
                                    ensure!(
                                        buf == want,
                                        "{}: read() of {}..{} of record {} returned {} bases {} but the slice has {} bases {} (first difference at {})",
                                        self.ctx(i),
                                        start,
                                        stop,
                                        rec,
                                        buf.len(),
                                        excerpt(&buf),
                                        want.len(),
                                        excerpt(want),
                                        first_diff(&buf, want)
                                    );
                                    if self.cut.is_some() {
                                        seen.cut_before_ok = true;
                                    }
                                }
                                Err(e) => {
                                    ensure!(self.cut.is_some() || tainted, "{}: read() of the valid interval {}..{} of record {} failed: {:?}", self.ctx(i), start, stop, rec, e);
                                }
                            }
                            self.note(seen, rec, start, stop, fetches, last_iter_partial);
                            seen.read_buf = true;
                            if tainted {
                                seen.read_after_failed_fetch = true;
                            }
                        }
                    }
                    last_iter_partial = false;
                }
                Op::ReadIter { take } => {
                    self.log.borrow_mut().boundaries.clear();
                    let expect_len = match cur {
                        Cur::Valid { start, stop, .. } => (stop - start) as usize,
                        _ => 0,
                    };
                    let limit = match take {
                        Some(f) => idx(*f, expect_len),
                        None => usize::MAX,
                    };
                    let cap = expect_len + 8;
                    // collect: Ok bytes until the first error / the end / `limit` items
                    let mut got: Vec<u8> = Vec::new();
                    let mut err: Option<String> = None;
                    let mut ended = false;
                    match rd.read_iter() {
                        Err(e) => err = Some(format!("read_iter(): {:?}", e)),
                        Ok(mut it) => {
                            let mut n = 0usize;
                            loop {
                                if n >= limit {
                                    break;
                                }
                                if n >= cap {
                                    fail!("{}: read_iter() does not terminate: more than {} items for an interval of {} bases", self.ctx(i), cap, expect_len);
                                }
                                match it.next() {
                                    None => {
                                        ended = true;
                                        break;
                                    }
                                    Some(Ok(x)) => got.push(x),
                                    Some(Err(e)) => {
                                        err = Some(format!("item #{}: {:?}", n, e));
                                        break;
                                    }
                                }
                                n += 1;
                            }
                        }
                    }
                    match cur {
                        Cur::NoFetch => {
                            ensure!(err.is_some() && got.is_empty(), "{}: read_iter() without a successful fetch produced {} and no error", self.ctx(i), excerpt(&got));
                            seen.read_without_fetch = true;
                        }
                        Cur::Bad => {
                            ensure!(err.is_some() && got.is_empty(), "{}: read_iter() after a fetch with an invalid interval produced {} and no error", self.ctx(i), excerpt(&got));
                        }
                        Cur::Valid { rec, start, stop } => {
                            let want = &b.seqs[rec][start as usize..stop as usize];
                            // whatever was delivered as Ok must be the beginning of the slice
                            ensure!(
                                got.len() <= want.len() && got[..] == want[..got.len()],
                                "{}: read_iter() of {}..{} of record {} delivered {} but the slice is {} (first difference at {}){}",
                                self.ctx(i),
                                start,
                                stop,
                                rec,
                                excerpt(&got),
                                excerpt(want),
                                first_diff(&got, want),
                                err.as_ref().map(|e| format!("; then {}", e)).unwrap_or_default()
                            );
                            match &err {
                                Some(e) => ensure!(self.cut.is_some() || tainted, "{}: read_iter() of the valid interval {}..{} of record {} failed: {}", self.ctx(i), start, stop, rec, e),
                                None => {
                                    if ended {
                                        ensure!(
                                            got.len() == want.len(),
                                            "{}: read_iter() of {}..{} of record {} ended after {} of {} bases without an error",
                                            self.ctx(i),
                                            start,
                                            stop,
                                            rec,
                                            got.len(),
                                            want.len()
                                        );
                                        seen.iter_full = true;
                                        if self.cut.is_some() {
                                            seen.cut_before_ok = true;
                                        }
                                    }
                                    // Ok items only: none of them may lie behind the cut
                                    if !got.is_empty() {
                                        ensure!(
                                            !self.beyond(rec, start, start + got.len() as u64),
                                            "{}: read_iter() of {}..{} of record {} delivered {} bases although the file ends before base {}",
                                            self.ctx(i),
                                            start,
                                            stop,
                                            rec,
                                            got.len(),
                                            start + got.len() as u64 - 1
                                        );
                                    }
                                }
                            }
                            self.note(seen, rec, start, stop, fetches, last_iter_partial);
                            if tainted {
                                seen.read_after_failed_fetch = true;
                            }
                        }
                    }
                    last_iter_partial = take.is_some() && matches!(cur, Cur::Valid { .. }) && limit < expect_len;
                }
            }
        }
        Ok(())
    }

    /// fetch with an invalid interval: the error may be reported by the fetch or by the read that follows
    #[allow(clippy::too_many_arguments)]
    fn misuse(&self, rd: &mut IndexedReader<ChunkedReader>, i: usize, r: usize, by_name: bool, start: u64, stop: u64, iter: bool, cur: &mut Cur, tainted: &mut bool, buf: &mut Vec<u8>) -> Result<(), Stop> {
        let e = &self.b.entries[r];
        let res = if by_name { rd.fetch(&e.name, start, stop) } else { rd.fetch_by_rid(r, start, stop) };
        if res.is_err() {
            *tainted = true;
            return Ok(());
        }
        *cur = Cur::Bad;
        *tainted = false;
        if iter {
            let failed = match rd.read_iter() {
                Err(_) => true,
                Ok(mut it) => matches!(it.next(), Some(Err(_))),
            };
            ensure!(failed, "{}: interval {}..{} of record {} (length {}) was accepted by fetch and by read_iter()", self.ctx(i), start, stop, r, e.len);
        } else {
            let res = rd.read(buf);
            ensure!(res.is_err(), "{}: interval {}..{} of record {} (length {}) was accepted by fetch and by read(), which returned {}", self.ctx(i), start, stop, r, e.len, excerpt(buf));
        }
        Ok(())
    }

    fn note(&self, seen: &mut Seen, rec: usize, start: u64, stop: u64, fetches: usize, last_iter_partial: bool) {
        let e = &self.b.entries[rec];
        if let Some(_k) = self.cut {
            if self.beyond(rec, start, stop) {
                seen.cut_beyond = true;
            } else {
                seen.cut_before = true;
            }
            return;
        }
        if start == stop {
            seen.empty_interval = true;
            return;
        }
        let w = e.width;
        let cross2 = (stop - 1) / w - start / w >= 2;
        let mid = start % w != 0;
        let (lo, hi) = (e.off(start), e.off(stop - 1));
        let inside = self.log.borrow().boundaries.iter().any(|&p| p > lo && p <= hi);
        seen.cross2 |= cross2;
        seen.mid_line_start |= mid;
        seen.chunk_inside |= inside;
        seen.nt |= cross2 && mid && inside;
        seen.span_8k |= hi - lo > 8192;
        seen.whole_record |= start == 0 && stop == e.len;
        seen.single_base |= stop - start == 1;
        seen.refetch_same_reader |= fetches >= 2;
        seen.partial_iter_then_read |= last_iter_partial;
        if rec + 1 == self.b.entries.len() && stop == e.len && !self.c.final_newline {
            seen.last_line_unterminated_read = true;
        }
    }
}

pub fn check(c: &Case) -> R {
    ensure!(!c.recs.is_empty() && c.recs.iter().all(|r| r.len >= 1 && r.width >= 1 && !r.name.is_empty()), "harness: invalid layout generated");
    ensure!(!c.sched.is_empty(), "harness: empty schedule generated");
    let b = build(c);
    let mut seen = Seen::default();
    Run { c, b: &b, cut: None, log: new_log() }.history(&mut seen)?;
    if let Some(f) = c.cut {
        let k = idx(f, b.file.len() - 1) as u64; // strictly shorter than the file
        Run { c, b: &b, cut: Some(k), log: new_log() }.history(&mut seen)?;
    }

    let mut pass = Pass::new(seen.nt);
    pass.add_if(seen.cross2, "fetch crossing >= 2 line ends");
    pass.add_if(seen.mid_line_start, "start not at a line start");
    pass.add_if(seen.chunk_inside, "read() boundary inside the fetched bytes");
    pass.add_if(c.crlf, "CRLF");
    pass.add_if(!c.final_newline, "last terminator missing");
    pass.add_if(seen.last_line_unterminated_read, "read up to the unterminated end of the file");
    pass.add_if(seen.span_8k, "fetch spanning > 8 KiB of the file");
    pass.add_if(seen.span_8k && c.sched.iter().any(|&s| s >= 8192), "several full buffer fills");
    pass.add_if(c.recs.iter().any(|r| r.len > 8192), "sequence > 8 KiB");
    pass.add_if(seen.partial_iter_then_read, "partially consumed iterator, then another read");
    pass.add_if(seen.refetch_same_reader, "several fetches on one reader");
    pass.add_if(seen.iter_full, "iterator consumed completely");
    pass.add_if(seen.read_buf, "read into buffer");
    pass.add_if(seen.unknown_name, "unknown name");
    pass.add_if(seen.bad_rid, "record number out of range");
    pass.add_if(seen.stop_beyond, "stop beyond the length");
    pass.add_if(seen.inverted, "start > stop");
    pass.add_if(seen.read_without_fetch, "read without fetch");
    pass.add_if(seen.read_after_failed_fetch, "read after a failed fetch");
    pass.add_if(seen.empty_interval, "empty interval");
    pass.add_if(seen.whole_record, "whole record");
    pass.add_if(seen.single_base, "single base");
    pass.add_if(seen.cut_beyond, "cut file: requested base behind the cut");
    pass.add_if(seen.cut_before, "cut file: interval entirely before the cut");
    pass.add_if(seen.cut_before_ok, "cut file: interval before the cut read correctly");
    pass.add_if(c.recs.iter().any(|r| r.width == 1), "line width 1");
    pass.add_if(c.recs.iter().any(|r| r.len % r.width == 0), "length multiple of line width");
    pass.add_if(c.recs.iter().any(|r| r.len <= r.width), "single-line record");
    pass.add_if(c.samtools_single && c.recs.iter().any(|r| r.len <= r.width), "samtools-style index entry of a single-line record");
    pass.add_if(c.recs.iter().any(|r| r.width > 512), "line longer than the iterator buffer (512)");
    pass.add_if(c.sched.iter().all(|&s| s <= 3), "schedule of 1..3 byte reads");
    pass.add_if(c.via_index, "Index::new + with_index");
    pass.add_if(c.recs.len() >= 2, ">= 2 records");
    pass.add_if(names(&c.recs).iter().zip(&c.recs).any(|(n, r)| *n != r.name), "colliding names made unique");
    Ok(pass)
}

// ---------------------------------------------------------------------------
// strategies

fn name_strat() -> BoxedStrategy<String> {
    prop_oneof![
        3 => proptest::collection::vec(prop_oneof![Just('c'), Just('h'), Just('r'), Just('1'), Just('0'), Just('_')], 1..=5).prop_map(|v| v.into_iter().collect::<String>()),
        3 => proptest::collection::vec((b'!'..=b'~').prop_map(|b| b as char), 1..=10).prop_map(|v| v.into_iter().collect::<String>()),
        // names starting with a double quote (the .fai must not be read with CSV quoting)
        1 => proptest::collection::vec((b'!'..=b'~').prop_map(|b| b as char), 0..=6).prop_map(|v| format!("\"{}", v.into_iter().collect::<String>())),
    ]
    .boxed()
}

fn rec_strat() -> BoxedStrategy<RecL> {
    let len = prop_oneof![3 => 1usize..=20, 4 => 21usize..=300, 2 => 301usize..=3000, 2 => 8193usize..=20000];
    let width = prop_oneof![2 => 1usize..=4, 4 => 5usize..=70, 2 => 71usize..=700];
    (name_strat(), proptest::option::weighted(0.4, "[a-zA-Z0-9=;.]{1,8}( [a-zA-Z0-9=;.]{1,8}){0,2}"), len, any::<u32>(), width)
        .prop_map(|(name, desc, len, seed, width)| RecL { name, desc, len, seed, width })
        .boxed()
}

fn fetch_op() -> BoxedStrategy<Op> {
    prop_oneof![
        8 => (any::<u16>(), any::<bool>(), any::<u16>(), any::<u16>(), any::<bool>()).prop_map(|(rec, by_name, a, span, near)| Op::Fetch { rec, by_name, a, span, near }),
        2 => (any::<u16>(), any::<bool>()).prop_map(|(rec, by_name)| Op::FetchAll { rec, by_name }),
    ]
    .boxed()
}

fn read_op() -> BoxedStrategy<Op> {
    prop_oneof![
        5 => Just(Op::Read),
        3 => Just(Op::ReadIter { take: None }),
        2 => any::<u16>().prop_map(|f| Op::ReadIter { take: Some(f) }),
    ]
    .boxed()
}

fn misuse_op() -> BoxedStrategy<Op> {
    let over = || prop_oneof![Just(0u64), 0u64..100, Just(u64::MAX)];
    prop_oneof![
        (proptest::option::of(any::<u16>()), "[a-z0-9_]{0,3}", any::<bool>()).prop_map(|(from_rec, salt, all)| Op::UnknownName { from_rec, salt, all }),
        (prop_oneof![Just(0u32), 0u32..1000, Just(u32::MAX)], any::<bool>()).prop_map(|(extra, all)| Op::BadRid { extra, all }),
        (any::<u16>(), any::<bool>(), any::<u16>(), over(), any::<bool>()).prop_map(|(rec, by_name, a, over, iter)| Op::StopBeyond { rec, by_name, a, over, iter }),
        (any::<u16>(), any::<bool>(), any::<u16>(), any::<u16>(), any::<bool>()).prop_map(|(rec, by_name, a, b, iter)| Op::Inverted { rec, by_name, a, b, iter }),
        (any::<u16>(), any::<bool>(), any::<u16>(), over(), any::<bool>()).prop_map(|(rec, by_name, b, over, iter)| Op::StartBeyond { rec, by_name, b, over, iter }),
    ]
    .boxed()
}

/// a history is a concatenation of short groups, so that most reads follow a fetch
fn group_strat() -> BoxedStrategy<Vec<Op>> {
    prop_oneof![
        8 => (fetch_op(), read_op()).prop_map(|(f, r)| vec![f, r]),
        3 => (fetch_op(), any::<u16>(), read_op()).prop_map(|(f, t, r)| vec![f, Op::ReadIter { take: Some(t) }, r]),
        1 => (fetch_op(), fetch_op(), read_op()).prop_map(|(f, g, r)| vec![f, g, r]),
        2 => misuse_op().prop_map(|m| vec![m]),
        1 => (misuse_op(), read_op()).prop_map(|(m, r)| vec![m, r]),
        2 => read_op().prop_map(|r| vec![r]),
    ]
    .boxed()
}

fn ops_strat() -> BoxedStrategy<Vec<Op>> {
    proptest::collection::vec(group_strat(), 1..=5).prop_map(|g| g.concat()).boxed()
}

fn sched_strat() -> BoxedStrategy<Vec<u32>> {
    prop_oneof![
        3 => proptest::collection::vec(1u32..=3, 1..=5),
        3 => proptest::collection::vec(1u32..=50, 1..=5),
        2 => proptest::collection::vec(1u32..=1000, 1..=4),
        2 => proptest::collection::vec(prop_oneof![1u32..=20000, Just(8192u32), Just(8191u32), Just(8193u32)], 1..=3),
        1 => Just(vec![1_000_000u32]),
    ]
    .boxed()
}

pub fn strat(_t: Tier) -> BoxedStrategy<Case> {
    (
        proptest::collection::vec(rec_strat(), 1..=4),
        (proptest::bool::weighted(0.45), proptest::bool::weighted(0.7), any::<bool>(), proptest::bool::weighted(0.8), proptest::bool::weighted(0.3)),
        sched_strat(),
        any::<bool>(),
        ops_strat(),
        proptest::option::weighted(0.85, any::<u16>()),
    )
        .prop_map(|(recs, (crlf, final_newline, fai_crlf, fai_final_newline, samtools_single), sched, via_index, ops, cut)| Case {
            recs,
            crlf,
            final_newline,
            fai_crlf,
            fai_final_newline,
            samtools_single,
            sched,
            via_index,
            ops,
            cut,
        })
        .boxed()
}

pub fn property() -> Property {
    Property {
        id: "C12",
        rule: "1-4 records (unique names, optional header description; length 1..20000 with a band above 8 KiB; per-record line width 1..700; LF or CRLF; last terminator optionally missing; symbols a fixed pseudo-random function of (seed, position) over 20 letters so that shifted data is visible) are laid out by the harness, which also writes the matching .fai (LF/CRLF, samtools-style entry for single-line records optional). One IndexedReader (new or Index::new+with_index) over a chunked Read+Seek double (cyclic schedule of 1..3 / 1..50 / 1..1000 / around 8192 / unfragmented read sizes) executes a history of 1-15 operations (groups of fetch+read, fetch+partial iterator+read, fetch+fetch+read, misuse, lone reads): fetch / fetch_by_rid with a valid interval (uniform or short and near line ends), fetch_all(_by_rid), read into a reused buffer, read_iter consumed completely or partly, and the misuse operations unknown name, record number out of range, stop > length, start > stop, read before any fetch. Oracle = the generated sequences: every successful read/iterator equals sequence[start..stop] whatever happened before; misuse must be reported as Err (by the fetch or by the read that follows). The same history then runs on the file cut at a random offset behind the same index: Err is required when a requested base lies at or behind the cut, otherwise Err or exactly the slice; bytes delivered by the iterator before an error must be a prefix of the slice. Iterators are capped at interval length + 8 items. Non-trivial = some read on the intact file crossed >= 2 line ends, started inside a line and had a read() boundary inside the fetched bytes. Distinct = distinct serialised case.",
        assumptions: &[
            "record names are unique, non-empty and without blanks (names starting with a double quote are generated: the .fai is not a quoted CSV dialect)",
            "empty records are excluded (line width >= 1 is required)",
            "no ErrorKind::Interrupted is injected: IndexedReader uses BufReader::fill_buf directly, which std does not retry",
            "after a fetch call that failed (unknown name / record number), a read may either fail or serve the previously fetched interval",
        ],
        subs: vec![Box::new(PropSub {
            name: "C12/history",
            quick: 400_000,
            thorough: 8_000_000,
            shards_quick: 16,
            shards_thorough: 16,
            strat,
            check,
            must_reach: &[
                "fetch crossing >= 2 line ends",
                "start not at a line start",
                "read() boundary inside the fetched bytes",
                "CRLF",
                "last terminator missing",
                "read up to the unterminated end of the file",
                "fetch spanning > 8 KiB of the file",
                "several full buffer fills",
                "partially consumed iterator, then another read",
                "unknown name",
                "record number out of range",
                "stop beyond the length",
                "start > stop",
                "read without fetch",
                "cut file: requested base behind the cut",
                "cut file: interval before the cut read correctly",
            ],
            watch: true,
        })],
    }
}
