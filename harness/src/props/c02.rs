//! C02 — banded alignment is sound, exact when the band covers the matrix,
//! terminates, and honours the cell budget.

use super::c01;
use crate::engine::gen::idx;
use crate::engine::*;
use crate::oracles::align::*;
use crate::{ensure, fail};
use bio::alignment::pairwise::banded::Aligner;
use bio::alignment::pairwise::MIN_SCORE;
use bio::alignment::sparse;
use bio::alignment::{Alignment, AlignmentMode, AlignmentOperation};
use proptest::prelude::*;
use serde::{Deserialize, Serialize};

#[derive(Serialize, Deserialize, Debug, Clone, PartialEq)]
pub enum Chain {
    Lcskpp,
    Sdpkpp,
}

#[derive(Serialize, Deserialize, Debug, Clone, PartialEq)]
pub enum Entry {
    Custom,
    CustomPrehash,
    /// custom_with_matches on the sub-list of the true k-mer matches selected by the cyclic mask
    Matches { mask: Vec<bool> },
    Expanded { mask: Vec<bool>, allowed_mismatches: Option<u8>, union: bool },
    /// custom_with_match_path with a contiguous slice of a chain computed by lcskpp/sdpkpp
    MatchPath { chain: Chain, from: u16, to: u16 },
    Global,
    Semiglobal,
    SemiglobalPrehash,
    Local,
}

impl Entry {
    pub fn mode(&self) -> Mode {
        match self {
            Entry::Global => Mode::Global,
            Entry::Semiglobal | Entry::SemiglobalPrehash => Mode::Semiglobal,
            Entry::Local => Mode::Local,
            _ => Mode::Custom,
        }
    }
    pub fn label(&self) -> &'static str {
        match self {
            Entry::Custom => "entry custom",
            Entry::CustomPrehash => "entry custom_with_prehash",
            Entry::Matches { .. } => "entry custom_with_matches",
            Entry::Expanded { .. } => "entry custom_with_expanded_matches",
            Entry::MatchPath { .. } => "entry custom_with_match_path",
            Entry::Global => "entry global",
            Entry::Semiglobal => "entry semiglobal",
            Entry::SemiglobalPrehash => "entry semiglobal_with_prehash",
            Entry::Local => "entry local",
        }
    }
}

#[derive(Serialize, Deserialize, Debug, Clone)]
pub struct BCall {
    pub entry: Entry,
    pub x: B,
    pub y: B,
    /// when present, the library is handed two views of this one buffer instead of `x` and `y` (which then
    /// are copies of the views and feed the oracles): sequences that share memory
    #[serde(default)]
    pub shared: Option<Shared>,
}

#[derive(Serialize, Deserialize, Debug, Clone)]
pub struct Shared {
    pub buf: B,
    pub x: (usize, usize),
    pub y: (usize, usize),
}

impl BCall {
    /// the slices handed to the library
    pub fn views(&self) -> (&[u8], &[u8]) {
        match &self.shared {
            Some(s) => (&s.buf[s.x.0..s.x.1], &s.buf[s.y.0..s.y.1]),
            None => (&self.x, &self.y),
        }
    }
}

#[derive(Serialize, Deserialize, Debug, Clone)]
pub struct Case {
    pub spec: ScoreSpec,
    /// hand the scoring over with `match_scores: Some(..)` when the table is a constant match/mismatch scheme
    pub with_match_scores: bool,
    pub k: usize,
    pub w: usize,
    pub history: Vec<BCall>,
    pub call: BCall,
}

fn masked(ms: &[(u32, u32)], mask: &[bool]) -> Vec<(u32, u32)> {
    if mask.is_empty() {
        return ms.to_vec();
    }
    ms.iter().enumerate().filter(|(i, _)| mask[i % mask.len()]).map(|(_, m)| *m).collect()
}

struct Outcome {
    a: Alignment,
    /// the band provably covers the whole matrix (no match was given to the band construction)
    full_band: bool,
    n_matches: usize,
}

fn run_call(al: &mut Aligner<TableFn>, c: &BCall, sp: &ScoreSpec, k: usize) -> Outcome {
    let (x, y) = c.views();
    // (the k-mer matches are computed from the owned copies: what find_kmer_matches does with shared memory is C19's business)
    let all = sparse::find_kmer_matches(&c.x, &c.y, k);
    match &c.entry {
        Entry::Custom => Outcome { a: al.custom(x, y), full_band: all.is_empty(), n_matches: all.len() },
        Entry::Global => Outcome { a: al.global(x, y), full_band: all.is_empty(), n_matches: all.len() },
        Entry::Semiglobal => Outcome { a: al.semiglobal(x, y), full_band: all.is_empty(), n_matches: all.len() },
        Entry::Local => Outcome { a: al.local(x, y), full_band: all.is_empty(), n_matches: all.len() },
        Entry::CustomPrehash => {
            let h = sparse::hash_kmers(y, k);
            Outcome { a: al.custom_with_prehash(x, y, &h), full_band: all.is_empty(), n_matches: all.len() }
        }
        Entry::SemiglobalPrehash => {
            let h = sparse::hash_kmers(y, k);
            Outcome { a: al.semiglobal_with_prehash(x, y, &h), full_band: all.is_empty(), n_matches: all.len() }
        }
        Entry::Matches { mask } => {
            let ms = masked(&all, mask);
            Outcome { a: al.custom_with_matches(x, y, &ms), full_band: ms.is_empty(), n_matches: ms.len() }
        }
        Entry::Expanded { mask, allowed_mismatches, union } => {
            let ms = masked(&all, mask);
            let n = ms.len();
            Outcome { a: al.custom_with_expanded_matches(x, y, ms, allowed_mismatches.map(|v| v as usize), *union), full_band: n == 0, n_matches: n }
        }
        Entry::MatchPath { chain, from, to } => {
            let path = match chain {
                Chain::Lcskpp => sparse::lcskpp(&all, k).path,
                Chain::Sdpkpp => {
                    let ms = sp.uniform().map(|(m, _)| m).unwrap_or(2).max(0) as u32;
                    sparse::sdpkpp(&all, k, ms, sp.gap_open, sp.gap_extend).path
                }
            };
            if all.is_empty() || path.is_empty() {
                return Outcome { a: al.custom_with_match_path(x, y, &[], &[]), full_band: true, n_matches: 0 };
            }
            let l = path.len();
            let (mut f, mut t) = (idx(*from, l - 1), idx(*to, l - 1));
            if f > t {
                std::mem::swap(&mut f, &mut t);
            }
            Outcome { a: al.custom_with_match_path(x, y, &all, &path[f..=t]), full_band: false, n_matches: all.len() }
        }
    }
}

/// For the wrappers that filter clip operations, recover the unfiltered path by running the same
/// aligner through the matching custom entry with the mode's penalties (via get_mut_scoring) and
/// require that wrapper and custom call agree.
fn unfiltered(al: &mut Aligner<TableFn>, c: &BCall, sp: &ScoreSpec, k: usize, wrapped: &Alignment) -> Result<Alignment, Stop> {
    let mode = c.entry.mode();
    let saved = {
        let s = al.get_mut_scoring();
        [s.xclip_prefix, s.xclip_suffix, s.yclip_prefix, s.yclip_suffix]
    };
    let mc = sp.mode_clips(mode);
    {
        let s = al.get_mut_scoring();
        s.xclip_prefix = mc[0].unwrap_or(MIN_SCORE);
        s.xclip_suffix = mc[1].unwrap_or(MIN_SCORE);
        s.yclip_prefix = mc[2].unwrap_or(MIN_SCORE);
        s.yclip_suffix = mc[3].unwrap_or(MIN_SCORE);
    }
    let raw = match c.entry {
        Entry::SemiglobalPrehash => {
            let (x, y) = c.views();
            let h = sparse::hash_kmers(y, k);
            al.custom_with_prehash(x, y, &h)
        }
        _ => {
            let (x, y) = c.views();
            al.custom(x, y)
        }
    };
    {
        let s = al.get_mut_scoring();
        s.xclip_prefix = saved[0];
        s.xclip_suffix = saved[1];
        s.yclip_prefix = saved[2];
        s.yclip_suffix = saved[3];
    }
    let mut f = raw.clone();
    if mode != Mode::Global {
        f.filter_clip_operations();
    }
    f.mode = wrapped.mode;
    ensure!(
        f == *wrapped,
        "{}: the wrapper result differs from custom() with the mode's clip penalties: wrapper {:?} vs custom {:?} (x={:?} y={:?} k={} scoring {:?})",
        c.entry.label(),
        wrapped,
        raw,
        lossy(&c.x),
        lossy(&c.y),
        k,
        sp
    );
    Ok(raw)
}

fn is_sentinel(a: &Alignment) -> bool {
    a.score == MIN_SCORE && a.operations.is_empty() && a.xstart == 0 && a.xend == 0 && a.ystart == 0 && a.yend == 0 && a.xlen == 0 && a.ylen == 0
}

struct Checked {
    has_gap: bool,
    has_clip: bool,
    full_band: bool,
    exact: bool,
    n_matches: usize,
    zero_clip: bool,
}

fn check_call(what: &str, al: &mut Aligner<TableFn>, c: &BCall, sp: &ScoreSpec, k: usize, w: usize) -> Result<Checked, Stop> {
    let out = run_call(al, c, sp, k);
    let a = &out.a;
    let mode = c.entry.mode();
    let ctx = || format!("{} {} x={:?} y={:?} k={} w={} scoring={:?}", what, c.entry.label(), lossy(&c.x), lossy(&c.y), k, w, sp);
    ensure!(
        !(is_sentinel(a) && (c.x.len() + 1) * (c.y.len() + 1) <= 5_000_000 && !(c.x.is_empty() && c.y.is_empty())),
        "{}: budget sentinel returned although the whole matrix has only {} cells",
        ctx(),
        (c.x.len() + 1) * (c.y.len() + 1)
    );
    // path validity and re-scoring
    let v = if mode == Mode::Custom {
        match validate(a, &c.x, &c.y, sp, Mode::Custom) {
            Ok(v) => v,
            Err(e) => fail!("{}: invalid alignment: {} (alignment {:?})", ctx(), e, a),
        }
    } else {
        // coordinates / filtered operations of the wrapper result
        if let Err(e) = validate(a, &c.x, &c.y, sp, mode) {
            fail!("{}: invalid alignment: {} (alignment {:?})", ctx(), e, a);
        }
        let raw = unfiltered(al, c, sp, k, a)?;
        let mut sp2 = sp.clone();
        sp2.clips = sp.mode_clips(mode);
        match validate(&raw, &c.x, &c.y, &sp2, Mode::Custom) {
            Ok(v) => v,
            Err(e) => fail!("{}: invalid unfiltered alignment: {} (alignment {:?})", ctx(), e, raw),
        }
    };
    if v.recomputed != a.score as i64 && known::is_open("banded-row0-credit") && row0_credit_mechanism(a, c, sp, v.recomputed) {
        return Err(Stop::Skip("banded-row0-credit"));
    }
    ensure!(v.recomputed == a.score as i64, "{}: reported score {} but the operations/coordinates re-score to {} (alignment {:?})", ctx(), a.score, v.recomputed, a);
    let (opt, _) = c01::optimum(&c.x, &c.y, sp, mode)?;
    ensure!(a.score as i64 <= opt, "{}: reported score {} exceeds the unbanded optimum {} (alignment {:?})", ctx(), a.score, opt, a);
    // band covers the whole matrix: no match given, or every k-mer window is widened past both lengths
    let wide = w >= c.x.len().max(c.y.len()) + 1;
    let exact_required = out.full_band;
    if exact_required {
        ensure!(a.score as i64 == opt, "{}: the band covers the whole matrix (no k-mer match) but the score {} is not the unbanded optimum {} (alignment {:?})", ctx(), a.score, opt, a);
    }
    let _ = wide;
    let zero_clip = a.operations.iter().any(|o| matches!(o, AlignmentOperation::Xclip(0) | AlignmentOperation::Yclip(0)));
    Ok(Checked { has_gap: v.has_gap, has_clip: v.has_clip, full_band: out.full_band, exact: a.score as i64 == opt, n_matches: out.n_matches, zero_clip })
}

/// Known finding "banded-row0-credit": when row 0 of the last column lies outside the band, the score
/// credited for reaching cell (0, n) is max(yclip_prefix, yclip_suffix), but the traceback through that
/// cell deletes all of y whenever gap_open + n*gap_extend > yclip_prefix; the reported score is then
/// lower than the score of the returned path by exactly that difference. The signature is the input
/// condition (custom mode, m,n >= 1, deleting all of y is cheaper than clipping it) together with this
/// exact mechanism (path starts by deleting all of y; discrepancy equals the credit difference), so any
/// other discrepancy is still reported.
fn row0_credit_mechanism(a: &Alignment, c: &BCall, sp: &ScoreSpec, recomputed: i64) -> bool {
    let (m, n) = (c.x.len(), c.y.len());
    if c.entry.mode() != Mode::Custom || m == 0 || n == 0 {
        return false;
    }
    let d_all = sp.gap_open as i64 + sp.gap_extend as i64 * n as i64;
    let v0 = sp.clip_raw(2).max(sp.clip_raw(3)) as i64;
    let starts_del_all = a.operations.len() >= n && a.operations[..n].iter().all(|o| *o == AlignmentOperation::Del);
    d_all > v0 && starts_del_all && recomputed - a.score as i64 == d_all - v0
}

/// `match_scores` is the public (match, mismatch) summary the band construction uses as a hint for chaining
/// k-mers; the alignment itself is defined by `match_fn`. With `with_match_scores` a constant scheme carries its
/// exact summary, and a table with symbol-specific scores carries a "typical" one (largest diagonal entry, smallest
/// off-diagonal entry, clamped to match >= 0 >= mismatch) that does not describe the function - soundness, validity and exactness on a full
/// band hold whatever the hint says.
pub fn scoring_for(sp: &ScoreSpec, with_match_scores: bool) -> bio::alignment::pairwise::Scoring<TableFn> {
    let mut sc = sp.scoring(with_match_scores);
    if with_match_scores && sc.match_scores.is_none() {
        // inside the documented domain of a (match, mismatch) pair: match >= 0 >= mismatch (MatchParams::new asserts it)
        let s = sp.sigma as usize;
        let diag = (0..s).map(|i| sp.table[i * s + i]).max().unwrap_or(0).max(0);
        let off = (0..s * s).filter(|i| i / s != i % s).map(|i| sp.table[i]).min().unwrap_or(-1).min(0);
        sc.match_scores = Some((diag, off));
    }
    sc
}

fn new_aligner(c: &Case) -> Aligner<TableFn> {
    // schemes the plain constructors can express (no clip penalties, no summary) go through them every other time
    let plain = c.spec.clips.iter().all(|p| p.is_none()) && !c.with_match_scores;
    if plain && (c.call.x.len() + c.call.y.len()) % 3 == 1 {
        return Aligner::new(c.spec.gap_open, c.spec.gap_extend, c.spec.table_fn(), c.k, c.w);
    }
    if plain && (c.call.x.len() + c.call.y.len()) % 3 == 2 {
        return Aligner::with_capacity(c.call.x.len() / 2, c.call.y.len() / 2, c.spec.gap_open, c.spec.gap_extend, c.spec.table_fn(), c.k, c.w);
    }
    Aligner::with_scoring(scoring_for(&c.spec, c.with_match_scores), c.k, c.w)
}

fn known_skip(c: &BCall) -> Option<&'static str> {
    if c.y.is_empty() && known::is_open("banded-empty-y") {
        return Some("banded-empty-y");
    }
    if c.x.is_empty() && !c.y.is_empty() && known::is_open("banded-empty-x") {
        return Some("banded-empty-x");
    }
    None
}

pub fn check(c: &Case) -> R {
    for call in c.history.iter().chain(std::iter::once(&c.call)) {
        if let Some(sig) = known_skip(call) {
            return Err(Stop::Skip(sig));
        }
    }
    for call in c.history.iter().chain(std::iter::once(&c.call)) {
        if let Some(s) = &call.shared {
            ensure!(s.x.0 <= s.x.1 && s.x.1 <= s.buf.len() && s.y.0 <= s.y.1 && s.y.1 <= s.buf.len() && s.buf[s.x.0..s.x.1] == call.x[..] && s.buf[s.y.0..s.y.1] == call.y[..], "harness: shared buffer views {:?} do not equal x / y", s);
        }
    }
    let sp = &c.spec;
    let mut fresh = new_aligner(c);
    let r = check_call("fresh aligner:", &mut fresh, &c.call, sp, c.k, c.w)?;
    // a clone of the aligner (taken after the call above) is the same aligner: same scoring, clip penalties, k, w
    {
        let a_fresh = run_call(&mut new_aligner(c), &c.call, sp, c.k).a;
        let mut cl = fresh.clone();
        let a_cl = run_call(&mut cl, &c.call, sp, c.k).a;
        ensure!(a_cl == a_fresh, "a clone() of the banded aligner (k={} w={} scoring {:?}) answers the call {:?} with {:?}, a fresh aligner of the same configuration with {:?}", c.k, c.w, sp, c.call, a_cl, a_fresh);
    }
    if !c.history.is_empty() {
        let mut used = new_aligner(c);
        for h in &c.history {
            check_call("history call:", &mut used, h, sp, c.k, c.w)?;
        }
        let a_used = run_call(&mut used, &c.call, sp, c.k).a;
        let a_fresh = run_call(&mut new_aligner(c), &c.call, sp, c.k).a;
        ensure!(
            a_used == a_fresh,
            "result depends on the aligner's history: after {:?} the call {:?} returned {:?}, a fresh aligner returned {:?} (k={} w={} scoring {:?})",
            c.history,
            c.call,
            a_used,
            a_fresh,
            c.k,
            c.w,
            sp
        );
    }
    let (m, n) = (c.call.x.len(), c.call.y.len());
    let partial = r.n_matches > 0 && !r.full_band;
    let mut p = Pass::new((partial && m >= 2 && n >= 2) || !c.history.is_empty());
    p.add(c.call.entry.label());
    p.add_if(r.full_band, "full band (no match)");
    p.add_if(partial, "partial band");
    p.add_if(partial && !r.exact, "banded score below the unbanded optimum");
    p.add_if(c.w == 0, "w=0");
    p.add_if(r.has_clip, "clipped end");
    p.add_if(r.has_gap, "gap in path");
    p.add_if(r.zero_clip, "zero-length clip op");
    p.add_if(!c.history.is_empty(), "reuse");
    p.add_if(c.with_match_scores && sp.uniform().is_some(), "match_scores: Some");
    p.add_if(c.with_match_scores && sp.uniform().is_none(), "match_scores hint that does not describe match_fn");
    p.add_if(m == 0 || n == 0, "empty input");
    p.add_if(m < c.k || n < c.k, "sequence shorter than k");
    if let Some(s) = &c.call.shared {
        let (a, b) = (s.x, s.y);
        p.add_if(a.0 == b.0 && m != n && m > 0 && n > 0, "same start address, different lengths");
        p.add_if(a == b && m > 0, "the very same slice twice");
        p.add_if(a.0 < b.1 && b.0 < a.1 && a != b, "overlapping views");
    }
    Ok(p)
}

// ---------------------------------------------------------------------------
// generators

fn mask() -> BoxedStrategy<Vec<bool>> {
    prop_oneof![
        2 => Just(Vec::new()),                                        // all matches
        1 => Just(vec![false]),                                       // none: band = full matrix
        3 => proptest::collection::vec(any::<bool>(), 1..=12),
    ]
    .boxed()
}

pub fn entry() -> BoxedStrategy<Entry> {
    prop_oneof![
        4 => Just(Entry::Custom),
        2 => Just(Entry::CustomPrehash),
        3 => mask().prop_map(|mask| Entry::Matches { mask }),
        3 => (mask(), prop_oneof![Just(None), (0u8..=2).prop_map(Some)], any::<bool>()).prop_map(|(mask, allowed_mismatches, union)| Entry::Expanded { mask, allowed_mismatches, union }),
        3 => (prop_oneof![Just(Chain::Lcskpp), Just(Chain::Sdpkpp)], any::<u16>(), any::<u16>()).prop_map(|(chain, from, to)| Entry::MatchPath { chain, from, to }),
        2 => Just(Entry::Global),
        2 => Just(Entry::Semiglobal),
        1 => Just(Entry::SemiglobalPrehash),
        2 => Just(Entry::Local),
    ]
    .boxed()
}

fn bcall(sigma: u8, max: usize) -> BoxedStrategy<BCall> {
    (entry(), c01::seq_pair(sigma, max)).prop_map(|(entry, (x, y))| BCall { entry, x: B(x), y: B(y), shared: None }).boxed()
}

fn strat_sized(max: usize) -> BoxedStrategy<Case> {
    (1u8..=3)
        .prop_flat_map(move |sigma| {
            (
                c01::spec(sigma),
                any::<bool>(),
                prop_oneof![3 => 1usize..=3, 2 => 4usize..=6],
                prop_oneof![2 => Just(0usize), 4 => 1usize..=3, 2 => 4usize..=8, 1 => 61usize..=100],
                prop_oneof![2 => Just(Vec::new()).boxed(), 1 => proptest::collection::vec(bcall(sigma, max), 1..=2).boxed()],
                bcall(sigma, max),
            )
        })
        .prop_map(|(spec, with_match_scores, k, w, history, call)| Case { spec, with_match_scores, k, w, history, call })
        .boxed()
}

pub fn strat(t: Tier) -> BoxedStrategy<Case> {
    match t {
        Tier::Quick => prop_oneof![2 => strat_sized(12), 2 => strat_sized(30), 1 => strat_sized(60)].boxed(),
        Tier::Thorough => prop_oneof![2 => strat_sized(12), 2 => strat_sized(40), 1 => strat_sized(90)].boxed(),
    }
}

// ---------------------------------------------------------------------------
// cell budget

#[derive(Serialize, Deserialize, Debug, Clone)]
pub struct BudgetCase {
    pub m: usize,
    pub n: usize,
    pub mode: Mode,
    pub gap_open: i32,
    pub gap_extend: i32,
}

/// The constant in the code is 5,000,000 cells; its doc comment says 10 million. A full-matrix band of
/// at most 5,000,000 cells must therefore be aligned exactly, one of more than 10,000,000 cells must
/// yield the explicit sentinel, and in between either answer is accepted (never a wrong alignment).
pub fn check_budget(c: &BudgetCase) -> R {
    let x = vec![b'a'; c.m];
    let y = vec![b'b'; c.n];
    let sp = ScoreSpec { sigma: 2, table: vec![1, -1, -1, 1], gap_open: c.gap_open, gap_extend: c.gap_extend, clips: [Some(-3), Some(-2), Some(-4), Some(-1)] };
    let mut al = Aligner::with_scoring(sp.scoring(true), 4, 2);
    let a = match c.mode {
        Mode::Custom => al.custom(&x, &y),
        Mode::Global => al.global(&x, &y),
        Mode::Semiglobal => al.semiglobal(&x, &y),
        Mode::Local => al.local(&x, &y),
    };
    let cells = (c.m + 1) * (c.n + 1);
    let sentinel = is_sentinel(&a);
    if cells <= 5_000_000 {
        ensure!(!sentinel, "matrix of {} cells (<= 5,000,000) but the budget sentinel was returned (m={} n={})", cells, c.m, c.n);
    }
    if cells > 10_000_000 {
        ensure!(sentinel, "matrix of {} cells (> 10,000,000, no k-mer match so the band is the full matrix) but no sentinel alignment was returned: score {} xlen {} ylen {} #ops {}", cells, a.score, a.xlen, a.ylen, a.operations.len());
    }
    if sentinel {
        ensure!(a.mode == AlignmentMode::Custom || a.mode == c.mode.expected(), "sentinel with unexpected mode {:?}", a.mode);
    } else {
        let v = match validate(&a, &x, &y, &sp, c.mode) {
            Ok(v) => v,
            Err(e) => fail!("m={} n={} {:?}: invalid alignment: {}", c.m, c.n, c.mode, e),
        };
        // wrappers filter clips; re-scoring of filtered paths is only safe when no gap run is split, which holds here
        ensure!(v.recomputed == a.score as i64, "m={} n={} {:?}: reported {} re-scored {}", c.m, c.n, c.mode, a.score, v.recomputed);
        let opt = opt_reference(&x, &y, &sp, sp.mode_clips(c.mode));
        ensure!(opt == a.score as i64, "m={} n={} {:?}: full band, reported {} but optimum {}", c.m, c.n, c.mode, a.score, opt);
    }
    // the same aligner object afterwards: a refused (or just-accepted) huge call must not leave anything behind
    // that changes later results (every entry point, pairs with and without a shared 4-mer)
    for (fx, fy) in [(&b"abbabbab"[..], &b"abbabaab"[..]), (&b"aabab"[..], &b"bbbab"[..]), (&b"abababbbab"[..], &b"bab"[..])] {
        for entry in [Entry::Custom, Entry::CustomPrehash, Entry::Matches { mask: vec![] }, Entry::Local, Entry::Semiglobal, Entry::Global, Entry::Custom] {
            let call = BCall { entry, x: B(fx.to_vec()), y: B(fy.to_vec()), shared: None };
            let what = format!("after a {} {:?} call of {} x {} symbols on the same aligner:", if sentinel { "refused" } else { "large" }, c.mode, c.m, c.n);
            check_call(&what, &mut al, &call, &sp, 4, 2)?;
        }
    }
    Ok(Pass::new(true)
        .class_if(sentinel, "aligner reused after a refused call")
        .class_if(cells == 5_000_000, "exactly 5,000,000 cells: aligned")
        .class_if(cells < 5_000_000, "just below the budget: aligned")
        .class_if(cells > 10_000_000, "above 10,000,000 cells: sentinel")
        .class_if(cells > 5_000_000 && cells <= 10_000_000, "between code constant and documented value")
        .class_if(sentinel, "sentinel returned"))
}

fn enumerate_budget(_t: Tier) -> Box<dyn Iterator<Item = BudgetCase>> {
    let mut v = Vec::new();
    // (m+1)(n+1): 2000*2500 = 5,000,000 exactly; 1999*2500 just below; 2237*2237 = 5,004,169; 3163*3163 = 10,004,569
    for (m, n) in [(1999usize, 2499usize), (2499, 1999), (1998, 2499), (2236, 2236), (3162, 3162), (1, 5_000_001)] {
        for (mode, go, ge) in [(Mode::Custom, -2, -1), (Mode::Local, 0, -1), (Mode::Global, -1, 0), (Mode::Semiglobal, -3, -2)] {
            if m <= 1 && mode != Mode::Custom {
                continue;
            }
            v.push(BudgetCase { m, n, mode, gap_open: go, gap_extend: ge });
        }
    }
    Box::new(v.into_iter())
}


// ---------------------------------------------------------------------------
// bounded-exhaustive: every pair of non-empty strings over {a,b} up to length 3 (4 thorough),
// k in {1,2}, w in {0,1}, the scoring grid of C01/exhaustive, custom mode for every clip combination
// and the three standard modes once per (table, gap) block

fn enumerate_small(t: Tier) -> Box<dyn Iterator<Item = Case>> {
    let maxlen = match t {
        Tier::Quick => 3,
        Tier::Thorough => 4,
    };
    let strings: Vec<Vec<u8>> = c01::small_strings(maxlen).into_iter().filter(|s| !s.is_empty()).collect();
    let strings = std::sync::Arc::new(strings);
    let specs: Vec<ScoreSpec> = c01::exhaustive_specs(Tier::Quick).into_iter().filter(|sp| sp.table != vec![0, 1, -1, -1]).collect();
    let n = strings.len();
    Box::new(specs.into_iter().flat_map(move |sp| {
        let strings = strings.clone();
        let std_modes = sp.clips == [None; 4];
        (0..n * n * 4).flat_map(move |q| {
            let (pair, kw) = (q / 4, q % 4);
            let (k, w) = (1 + kw / 2, kw % 2);
            let (x, y) = (strings[pair / n].clone(), strings[pair % n].clone());
            let entries: Vec<Entry> = if std_modes { vec![Entry::Custom, Entry::Global, Entry::Semiglobal, Entry::Local] } else { vec![Entry::Custom] };
            let sp = sp.clone();
            entries.into_iter().map(move |entry| Case { spec: sp.clone(), with_match_scores: true, k, w, history: Vec::new(), call: BCall { entry, x: B(x.clone()), y: B(y.clone()), shared: None } })
        })
    }))
}


// ---------------------------------------------------------------------------
// large scale: sequences of 255..1100 symbols (matrices beyond 65536 cells), real k-mer backbones with
// gaps, k up to 10, an earlier call of the same shape on the same aligner (other mode / entry point)

pub mod large {
    use super::*;

    #[derive(Serialize, Deserialize, Debug, Clone)]
    pub struct Case {
        pub spec: ScoreSpec,
        pub with_match_scores: bool,
        pub k: usize,
        pub w: usize,
        pub entry: Entry,
        pub m: usize,
        pub n: usize,
        pub content: u8,
        pub seed: u64,
        pub edits: u16,
        /// an earlier call with sequences of the same lengths through this entry point
        pub earlier: Option<Entry>,
        /// lengths of unrelated x-prefix, y-prefix, x-suffix, y-suffix stretches
        #[serde(default)]
        pub junk: [u8; 4],
    }

    pub fn check(c: &Case) -> R {
        ensure!(c.m >= 1 && c.n >= 1 && c.m <= 1100 && c.n <= 1100 && c.k >= 1, "harness: case outside the large-scale domain");
        let (x, y) = c01::large::gen_pair_junk(c.seed, c.m, c.n, c.content, c.spec.sigma, c.edits, c.junk);
        let call = BCall { entry: c.entry.clone(), x: B(x), y: B(y), shared: None };
        let mk = || Aligner::with_scoring(scoring_for(&c.spec, c.with_match_scores), c.k, c.w);
        let mut fresh = mk();
        let r = check_call("fresh aligner (large):", &mut fresh, &call, &c.spec, c.k, c.w)?;
        if let Some(e) = &c.earlier {
            let (x0, y0) = c01::large::gen_pair_junk(c.seed ^ 0x5eed, c.m, c.n, c.content, c.spec.sigma, c.edits, [c.junk[1], c.junk[0], c.junk[3], c.junk[2]]);
            let first = BCall { entry: e.clone(), x: B(x0), y: B(y0), shared: None };
            let mut used = mk();
            check_call("earlier call of the same shape (large):", &mut used, &first, &c.spec, c.k, c.w)?;
            // the observed call on the used aligner is validated in full (not only compared): stale traceback
            // cells show up as operations that do not re-score to the reported score
            check_call("call after an earlier call of the same shape (large):", &mut used, &call, &c.spec, c.k, c.w)?;
            let a_used = run_call(&mut used, &call, &c.spec, c.k).a;
            let a_fresh = run_call(&mut mk(), &call, &c.spec, c.k).a;
            ensure!(a_used == a_fresh, "banded result depends on the aligner's history (earlier {} with the same lengths {}x{}, k={} w={}): score {} / {} operations vs score {} / {} operations on a fresh aligner", e.label(), c.m, c.n, c.k, c.w, a_used.score, a_used.operations.len(), a_fresh.score, a_fresh.operations.len());
        }
        let partial = r.n_matches > 0 && !r.full_band;
        let mut p = Pass::new(partial);
        p.add(c.entry.label());
        p.add_if(partial, "partial band");
        p.add_if(partial && !r.exact, "banded score below the unbanded optimum");
        p.add_if((c.m + 1) * (c.n + 1) >= 65536, "matrix of 65536 or more cells");
        p.add_if((255..=257).contains(&c.m) || (255..=257).contains(&c.n), "a length in 255..257");
        p.add_if((511..=513).contains(&c.m) || (511..=513).contains(&c.n), "a length in 511..513");
        p.add_if((1023..=1025).contains(&c.m) || (1023..=1025).contains(&c.n), "a length in 1023..1025");
        p.add_if(c.earlier.is_some(), "reuse with an earlier call of the same shape");
        p.add_if(r.has_clip, "clipped end");
        p.add_if(c.content > 0, "byte values beyond the letters");
        p.add_if(c.junk.iter().any(|j| *j > 0), "unrelated prefix/suffix stretches");
        Ok(p)
    }

    fn simple_entry() -> BoxedStrategy<Entry> {
        prop_oneof![
            4 => Just(Entry::Custom),
            1 => Just(Entry::CustomPrehash),
            1 => Just(Entry::Matches { mask: vec![true, true, false] }),
            1 => Just(Entry::Expanded { mask: vec![], allowed_mismatches: Some(1), union: true }),
            1 => Just(Entry::MatchPath { chain: Chain::Sdpkpp, from: 0, to: u16::MAX }),
            2 => Just(Entry::Global),
            2 => Just(Entry::Semiglobal),
            1 => Just(Entry::SemiglobalPrehash),
            2 => Just(Entry::Local),
        ]
        .boxed()
    }

    pub fn strat(_t: Tier) -> BoxedStrategy<Case> {
        let len = || prop_oneof![4 => proptest::sample::select(vec![255usize, 256, 257]), 2 => proptest::sample::select(vec![511usize, 512, 513]), 1 => proptest::sample::select(vec![1023usize, 1024, 1025]), 3 => 258usize..=400, 1 => 60usize..=254];
        (1u8..=4)
            .prop_flat_map(move |sigma| {
                (
                    (c01::spec(sigma), any::<bool>(), prop_oneof![3 => 2usize..=5, 2 => 6usize..=10], prop_oneof![2 => Just(0usize), 3 => 1usize..=3, 2 => 4usize..=12]),
                    simple_entry(),
                    len(),
                    len(),
                    0u8..=2,
                    any::<u64>(),
                    prop_oneof![4 => 0u16..=12, 2 => 12u16..=60],
                    proptest::option::weighted(0.5, simple_entry()),
                    prop_oneof![2 => Just([0u8; 4]), 3 => [0u8..=40, 0u8..=40, 0u8..=40, 0u8..=40], 2 => [0u8..=40, 0u8..=6, 0u8..=0, 0u8..=0]],
                )
            })
            .prop_map(|((spec, with_match_scores, k, w), entry, m, n, content, seed, edits, earlier, junk)| Case { spec, with_match_scores, k, w, entry, m, n, content, seed, edits, earlier, junk })
            .boxed()
    }
}


// ---------------------------------------------------------------------------
// same-shape reuse: two consecutive calls on one banded aligner with sequences of identical lengths
// (matrices of 65536 or more cells), different modes / clip penalties; the second result must equal the
// result of a fresh aligner. Cheap (no optimum oracle), so it runs in large numbers.

pub mod reuse {
    use super::*;

    #[derive(Serialize, Deserialize, Debug, Clone)]
    pub struct Case {
        pub spec: ScoreSpec,
        pub k: usize,
        pub w: usize,
        pub m: usize,
        pub n: usize,
        pub seed: u64,
        pub first: Entry,
        /// clip penalties in force during the first call (set through get_mut_scoring), restored before the second
        pub first_clips: [Option<i32>; 4],
        pub second: Entry,
        pub edits: u16,
        pub junk: [u8; 4],
    }

    fn set_clips(al: &mut Aligner<TableFn>, c: [Option<i32>; 4]) {
        let s = al.get_mut_scoring();
        s.xclip_prefix = c[0].unwrap_or(MIN_SCORE);
        s.xclip_suffix = c[1].unwrap_or(MIN_SCORE);
        s.yclip_prefix = c[2].unwrap_or(MIN_SCORE);
        s.yclip_suffix = c[3].unwrap_or(MIN_SCORE);
    }

    pub fn check(c: &Case) -> R {
        ensure!(c.m >= 1 && c.n >= 1 && c.m <= 600 && c.n <= 600, "harness: case outside the reuse domain");
        let (xa, ya) = c01::large::gen_pair_junk(c.seed ^ 0x5eed, c.m, c.n, 0, c.spec.sigma, c.edits, [0; 4]);
        let (xb, yb) = c01::large::gen_pair_junk(c.seed, c.m, c.n, 0, c.spec.sigma, c.edits, c.junk);
        let first = BCall { entry: c.first.clone(), x: B(xa), y: B(ya), shared: None };
        let second = BCall { entry: c.second.clone(), x: B(xb), y: B(yb), shared: None };
        let mk = || Aligner::with_scoring(c.spec.scoring(true), c.k, c.w);
        let mut used = mk();
        set_clips(&mut used, c.first_clips);
        let _ = run_call(&mut used, &first, &c.spec, c.k);
        set_clips(&mut used, c.spec.clips);
        let a_used = run_call(&mut used, &second, &c.spec, c.k).a;
        let out = run_call(&mut mk(), &second, &c.spec, c.k);
        let a_fresh = out.a;
        ensure!(
            a_used == a_fresh,
            "banded result depends on the aligner's history: after {} (clip penalties {:?}) on sequences of the same lengths {}x{}, {} returns score {} x {}..{} y {}..{} with {} operations; a fresh aligner returns score {} x {}..{} y {}..{} with {} operations (k={} w={} scoring {:?} seed {} edits {} junk {:?})",
            c.first.label(), c.first_clips, c.m, c.n, c.second.label(), a_used.score, a_used.xstart, a_used.xend, a_used.ystart, a_used.yend, a_used.operations.len(), a_fresh.score, a_fresh.xstart, a_fresh.xend, a_fresh.ystart, a_fresh.yend, a_fresh.operations.len(), c.k, c.w, c.spec, c.seed, c.edits, c.junk
        );
        let partial = out.n_matches > 0 && !out.full_band;
        let starts_with_gap_or_clip = matches!(a_fresh.operations.first(), Some(AlignmentOperation::Ins) | Some(AlignmentOperation::Del) | Some(AlignmentOperation::Xclip(_)) | Some(AlignmentOperation::Yclip(_)));
        Ok(Pass::new(partial)
            .class_if(partial, "partial band")
            .class_if((c.m + 1) * (c.n + 1) >= 65536, "matrix of 65536 or more cells")
            .class_if((c.m + 1) * (c.n + 1) < 65536, "matrix below 65536 cells")
            .class_if(starts_with_gap_or_clip, "second alignment starts with a gap or clip")
            .class_if(a_fresh.xstart > 0 && a_fresh.operations.iter().take(8).any(|o| *o == AlignmentOperation::Del), "x prefix clipped and y prefix deleted")
            .class_if(c.first_clips != c.spec.clips, "clip penalties changed between the calls"))
    }

    fn simple() -> BoxedStrategy<Entry> {
        prop_oneof![3 => Just(Entry::Custom), 2 => Just(Entry::Semiglobal), 1 => Just(Entry::Local), 1 => Just(Entry::Global), 1 => Just(Entry::CustomPrehash)].boxed()
    }

    pub fn strat(_t: Tier) -> BoxedStrategy<Case> {
        (2u8..=4)
            .prop_flat_map(|sigma| {
                (
                    c01::spec(sigma),
                    [c01::clip(), c01::clip(), c01::clip(), c01::clip()],
                    prop_oneof![3 => 3usize..=6, 1 => 7usize..=9],
                    prop_oneof![3 => Just(0usize), 3 => Just(1usize), 2 => 2usize..=4],
                    prop_oneof![5 => (255usize..=266, 255usize..=266), 2 => (30usize..=60, 30usize..=60), 1 => (300usize..=330, 200usize..=230)],
                    any::<u64>(),
                    simple(),
                    simple(),
                    0u16..=10,
                    prop_oneof![1 => Just([0u8; 4]), 3 => [0u8..=30, 0u8..=6, 0u8..=20, 0u8..=4], 2 => [0u8..=6, 0u8..=30, 0u8..=4, 0u8..=20]],
                )
            })
            .prop_map(|(spec, first_clips, k, w, (m, n), seed, first, second, edits, junk)| Case { spec, k, w, m, n, seed, first, first_clips, second, edits, junk })
            .boxed()
    }
}

pub fn property() -> Property {
    Property {
        id: "C02",
        rule: "sequences over 1-3 letters (independent / mutated copies / embedded copies, lengths 0..=60, so k-mer backbones with gaps arise), scoring as in C01 (table given as closure or with match_scores), k in 1..=6, w in 0..=8, all nine entry points (match sub-lists by mask, expanded matches with/without union, match paths = contiguous slices of lcskpp/sdpkpp chains), 0-2 earlier calls on the same aligner. Oracle: path validator + re-scoring (wrappers are compared with custom() under the mode's penalties to recover the unfiltered path), score <= unbanded optimum of the C01 model, == optimum when no match was given to the band construction, reused == fresh; budget sub-check enumerates matrices at 5,000,000 cells, just below, between 5 and 10 million, above 10 million. Non-trivial = at least one k-mer match with m,n>=2 (partial band) or a reuse history.",
        assumptions: &[
            "scoring bounds as in C01",
            "match paths handed to custom_with_match_path are contiguous slices of chains produced by lcskpp/sdpkpp (validity of the path is the caller's documented duty)",
            "termination is decided by the watchdog: a case must finish within 120 s / 3 GiB (normal cost < 1 ms), reproduced twice in isolation before it is reported",
            "cell budget: the code constant is 5,000,000, its doc comment says 10 million; <=5,000,000 must align, >10,000,000 must return the sentinel, in between either is accepted",
        ],
        subs: vec![
            Box::new(PropSub {
                name: "C02/random",
                quick: 160_000,
                thorough: 4_000_000,
                shards_quick: 16,
                shards_thorough: 16,
                strat,
                check,
                must_reach: &["partial band", "full band (no match)", "w=0", "reuse", "entry custom_with_match_path", "entry custom_with_expanded_matches", "entry semiglobal_with_prehash", "banded score below the unbanded optimum", "match_scores: Some"],
                watch: true,
            }),
            Box::new(PropSub { name: "C02/large", quick: 1_600, thorough: 40_000, shards_quick: 16, shards_thorough: 16, strat: large::strat, check: large::check, must_reach: &["partial band", "matrix of 65536 or more cells", "a length in 255..257", "a length in 511..513", "a length in 1023..1025", "reuse with an earlier call of the same shape", "banded score below the unbanded optimum", "entry semiglobal", "entry custom", "entry local"], watch: true }),
            Box::new(PropSub { name: "C02/reuse-same-shape", quick: 64_000, thorough: 4_000_000, shards_quick: 16, shards_thorough: 16, strat: reuse::strat, check: reuse::check, must_reach: &["partial band", "matrix of 65536 or more cells", "second alignment starts with a gap or clip", "x prefix clipped and y prefix deleted", "clip penalties changed between the calls"], watch: true }),
            Box::new(ExhSub { name: "C02/exhaustive", enumerate: enumerate_small, check, must_reach: &["partial band", "full band (no match)", "w=0", "entry global", "entry semiglobal", "entry local"] }),
            Box::new(ExhSub { name: "C02/budget", enumerate: enumerate_budget, check: check_budget, must_reach: &["exactly 5,000,000 cells: aligned", "above 10,000,000 cells: sentinel"] }),
        ],
    }
}
