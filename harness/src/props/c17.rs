//! C17 — RankSelect rank/select and WaveletMatrix::rank equal naive counting.
//!
//! Sub-checks
//! * `C17/rank-select`            random bit vectors x superblock factor k, every i and every j
//! * `C17/rank-select-exhaustive` every bit vector of length 1..=10 (thorough: ..=16) for k in {1,2}
//! * `C17/wavelet`                random texts over ACGTN$, every symbol and every position
//! * `C17/wavelet-exhaustive`     every text over ACGTN$ of length 1..=5 (thorough: ..=7)

use crate::engine::*;
use crate::ensure;
use bio::data_structures::rank_select::RankSelect;
use bio::data_structures::wavelet_matrix::WaveletMatrix;
use bv::{BitVec, BitsMut};
use proptest::prelude::*;
use serde::{Deserialize, Serialize};

// ---------------------------------------------------------------------------
// rank / select

#[derive(Serialize, Deserialize, Debug, Clone)]
pub struct Case {
    /// superblock factor (superblock = 32*k bits)
    pub k: usize,
    /// the bit vector, position 0 first, as a string of '0'/'1'
    pub bits: String,
}

fn short(bits: &str) -> String {
    if bits.len() <= 200 {
        bits.to_string()
    } else {
        format!("{}..({} bits)", &bits[..200], bits.len())
    }
}

pub fn check(c: &Case) -> R {
    let n = c.bits.len();
    ensure!(n >= 1 && c.k >= 1, "harness: empty bit vector or k=0 generated");
    ensure!(c.bits.bytes().all(|b| b == b'0' || b == b'1'), "harness: bits must be a string of 0/1");
    let bools: Vec<bool> = c.bits.bytes().map(|b| b == b'1').collect();
    // The logical content is `bools`; how the BitVec came to hold it varies with the case (a fixed function of
    // n and k, so that replays agree): built clean, cut down from a longer all-ones vector (the storage bits
    // behind the end may keep their old value), or grown by push and cut back by pop.
    let history = (n + c.k) % 3;
    let mut bv: BitVec<u8> = match history {
        0 => BitVec::new_fill(false, n as u64),
        1 => {
            let mut v: BitVec<u8> = BitVec::new_fill(true, n as u64 + 13);
            v.truncate(n as u64);
            v
        }
        _ => {
            let mut v: BitVec<u8> = BitVec::new();
            for i in 0..n + 5 {
                v.push(i % 2 == 0 || i >= n);
            }
            for _ in 0..5 {
                v.pop();
            }
            v
        }
    };
    ensure!(bv.len() == n as u64, "harness: bit vector of length {} built, expected {}", bv.len(), n);
    for (i, &b) in bools.iter().enumerate() {
        bv.set_bit(i as u64, b);
    }
    let rs = RankSelect::new(bv, c.k);
    let k = c.k;

    // rank / get: running counts
    let mut ones = 0u64;
    let mut pos1: Vec<u64> = Vec::new();
    let mut pos0: Vec<u64> = Vec::new();
    for (i, &b) in bools.iter().enumerate() {
        let i = i as u64;
        if b {
            ones += 1;
            pos1.push(i);
        } else {
            pos0.push(i);
        }
        let zeros = i + 1 - ones;
        ensure!(rs.get(i) == b, "get({}) = {} but bit is {}; k={} bits={}", i, rs.get(i), b, k, short(&c.bits));
        let r1 = rs.rank_1(i);
        ensure!(r1 == Some(ones), "rank_1({}) = {:?}, expected Some({}); k={} n={} bits={}", i, r1, ones, k, n, short(&c.bits));
        let r0 = rs.rank_0(i);
        ensure!(r0 == Some(zeros), "rank_0({}) = {:?}, expected Some({}); k={} n={} bits={}", i, r0, zeros, k, n, short(&c.bits));
    }
    // beyond the end (i = n is inside the property's quantifier; the others are the padded tail of
    // the last byte, the next byte and the next superblock)
    let n64 = n as u64;
    let mut beyond = vec![n64, n64 + 1, n64 + 7, (n64 + 7) / 8 * 8, (n64 + 7) / 8 * 8 + 1, (n64 / (32 * k as u64) + 1) * 32 * k as u64];
    beyond.dedup();
    for i in beyond {
        let r1 = rs.rank_1(i);
        ensure!(r1.is_none(), "rank_1({}) = {:?} beyond the end, expected None; k={} n={} bits={}", i, r1, k, n, short(&c.bits));
        let r0 = rs.rank_0(i);
        ensure!(r0.is_none(), "rank_0({}) = {:?} beyond the end, expected None; k={} n={} bits={}", i, r0, k, n, short(&c.bits));
    }
    // select: every j in 0..=n+1
    for j in 0..=(n64 + 1) {
        let e1 = if j == 0 { None } else { pos1.get(j as usize - 1).cloned() };
        let e0 = if j == 0 { None } else { pos0.get(j as usize - 1).cloned() };
        let s1 = rs.select_1(j);
        ensure!(s1 == e1, "select_1({}) = {:?}, expected {:?} ({} one bits); k={} n={} bits={}", j, s1, e1, pos1.len(), k, n, short(&c.bits));
        let s0 = rs.select_0(j);
        ensure!(s0 == e0, "select_0({}) = {:?}, expected {:?} ({} zero bits); k={} n={} bits={}", j, s0, e0, pos0.len(), k, n, short(&c.bits));
    }

    let s = 32 * k;
    let mut pass = Pass::new(n > s);
    // classes
    pass.add_if(k == 1, "k=1");
    pass.add_if((2..=4).contains(&k), "k in 2..=4");
    pass.add_if(k >= 5, "k>=5");
    pass.add_if(n % s == 0, "n multiple of 32k");
    pass.add_if(n % s == 1, "n = 32kj+1");
    pass.add_if(n % s == s - 1, "n = 32kj-1");
    pass.add_if(n % 8 != 0, "last byte padded");
    pass.add_if(history == 1 && n % 8 != 0 && bools.iter().any(|b| !b), "vector cut down from all-ones (storage behind the end may be dirty), holds a zero");
    pass.add_if(history == 2, "vector grown by push and cut back by pop");
    pass.add_if(n % 8 != 0 && !bools[n - 1], "last byte padded and last bit zero (select_0 next to the padding)");
    pass.add_if(n % 8 != 0 && pos1.is_empty(), "padded and all zero (select_0(n+1) must not see padding)");
    pass.add_if(pos1.is_empty(), "all zero");
    pass.add_if(pos0.is_empty(), "all one");
    let nsb = n.div_ceil(s);
    pass.add_if(nsb >= 2, ">=2 superblocks");
    pass.add_if(nsb >= 4, ">=4 superblocks");
    if nsb >= 2 {
        let mut zero_sb = false;
        let mut one_sb = false;
        let mut zero_run = false;
        let mut prev_zero = false;
        for b in 0..nsb {
            let blk = &bools[b * s..((b + 1) * s).min(n)];
            let z = blk.iter().all(|x| !*x);
            let o = blk.iter().all(|x| *x);
            zero_sb |= z;
            one_sb |= o;
            zero_run |= z && prev_zero;
            prev_zero = z;
        }
        pass.add_if(zero_sb && !pos1.is_empty(), "all-zero superblock in a non-zero vector");
        pass.add_if(one_sb && !pos0.is_empty(), "all-one superblock in a non-constant vector");
        pass.add_if(zero_run && !pos1.is_empty(), "run of all-zero superblocks (equal superblock ranks)");
    }
    pass.add("select j=0 and j>count");
    Ok(pass)
}

fn k_strat() -> BoxedStrategy<usize> {
    prop_oneof![3 => Just(1usize), 4 => 2usize..=4, 2 => 5usize..=12, 1 => 13usize..=40].boxed()
}

fn n_strat(k: usize) -> BoxedStrategy<usize> {
    let s = 32 * k;
    prop_oneof![
        1 => 1usize..=10,
        2 => 1usize..=100,
        4 => (1usize..=5, 0usize..=2).prop_map(move |(j, d)| s * j + d - 1),
        1 => (1usize..=40, 0usize..=2).prop_map(|(j, d)| 8 * j + d - 1),
        2 => 1usize..=3000,
    ]
    .boxed()
}

fn bits_strat(k: usize, n: usize) -> BoxedStrategy<Vec<bool>> {
    let s = 32 * k;
    let dens = |p: f64| proptest::collection::vec(prop::bool::weighted(p), n..=n);
    // chunked: every chunk of `g` bits is all-zero, all-one or random
    let chunked = |g: usize| {
        let nch = n.div_ceil(g);
        (proptest::collection::vec(prop_oneof![3 => Just(0u8), 2 => Just(1u8), 2 => Just(2u8)], nch..=nch), proptest::collection::vec(any::<bool>(), n..=n)).prop_map(
            move |(modes, mut bits)| {
                for (i, b) in bits.iter_mut().enumerate() {
                    match modes[i / g] {
                        0 => *b = false,
                        1 => *b = true,
                        _ => {}
                    }
                }
                bits
            },
        )
    };
    // sparse: at most three bits differ from the background
    let sparse = (any::<bool>(), proptest::collection::vec(any::<u16>(), 0..=3)).prop_map(move |(bg, flips)| {
        let mut bits = vec![bg; n];
        for f in flips {
            let i = gen::idx(f, n - 1);
            bits[i] = !bg;
        }
        bits
    });
    prop_oneof![
        1 => Just(vec![false; n]),
        1 => Just(vec![true; n]),
        1 => dens(0.01),
        3 => dens(0.5),
        1 => dens(0.99),
        3 => chunked(s),
        2 => chunked(8),
        2 => sparse,
    ]
    .boxed()
}

pub fn strat(_t: Tier) -> BoxedStrategy<Case> {
    k_strat()
        .prop_flat_map(|k| n_strat(k).prop_map(move |n| (k, n)))
        .prop_flat_map(|(k, n)| bits_strat(k, n).prop_map(move |b| Case { k, bits: b.iter().map(|&x| if x { '1' } else { '0' }).collect() }))
        .boxed()
}

fn enumerate(t: Tier) -> Box<dyn Iterator<Item = Case>> {
    let maxn = match t {
        Tier::Quick => 10usize,
        Tier::Thorough => 16usize,
    };
    Box::new((1..=2usize).flat_map(move |k| {
        (1..=maxn).flat_map(move |n| (0u32..(1u32 << n)).map(move |v| Case { k, bits: (0..n).map(|i| if (v >> i) & 1 == 1 { '1' } else { '0' }).collect() }))
    }))
}

// ---------------------------------------------------------------------------
// wavelet matrix

pub mod wavelet {
    use super::*;

    pub const SYMS: &[u8; 6] = b"ACGTN$";

    #[derive(Serialize, Deserialize, Debug, Clone)]
    pub struct Case {
        pub text: B,
    }

    pub fn check(c: &Case) -> R {
        let t: &[u8] = &c.text;
        ensure!(!t.is_empty() && t.iter().all(|x| SYMS.contains(x)), "harness: text must be non-empty over ACGTN$");
        let wm = WaveletMatrix::new(t);
        let mut cnt = [0u64; 6];
        for (p, &x) in t.iter().enumerate() {
            let xi = SYMS.iter().position(|s| *s == x).unwrap();
            cnt[xi] += 1;
            for (ci, &sym) in SYMS.iter().enumerate() {
                let got = wm.rank(sym, p as u64);
                ensure!(
                    got == cnt[ci],
                    "WaveletMatrix::rank({:?}, {}) = {}, expected {}; text {:?} (len {})",
                    sym as char,
                    p,
                    got,
                    cnt[ci],
                    lossy(t),
                    t.len()
                );
            }
        }
        let distinct = cnt.iter().filter(|&&x| x > 0).count();
        let n = t.len();
        let mut pass = Pass::new(n > 32 && distinct >= 2);
        pass.add_if(distinct == 6, "all six symbols");
        pass.add_if(distinct == 1, "single symbol");
        pass.add_if(cnt[4] > 0 && cnt[5] > 0, "contains N and $");
        pass.add_if(n % 32 == 0, "len multiple of 32");
        pass.add_if(n % 32 == 1 && n > 1, "len = 32j+1");
        pass.add_if(n % 32 == 31, "len = 32j-1");
        pass.add_if(n > 64, "len > 64");
        pass.add_if(n % 8 != 0, "levels have a padded last byte");
        Ok(pass)
    }

    pub fn strat(_t: Tier) -> BoxedStrategy<Case> {
        let len = prop_oneof![
            1 => 1usize..=10,
            2 => 1usize..=100,
            3 => (1usize..=12, 0usize..=2).prop_map(|(j, d)| 32 * j + d - 1),
            2 => 1usize..=400,
        ];
        // symbol distribution: uniform over a random non-empty subset, or skewed towards one symbol
        let sym = prop_oneof![
            3 => Just(vec![0u8, 1, 2, 3, 4, 5]),
            2 => proptest::sample::subsequence(vec![0u8, 1, 2, 3, 4, 5], 1..=6),
            1 => (0u8..6, 0u8..6).prop_map(|(a, b)| vec![a, a, a, a, a, a, a, a, a, b]),
            1 => (0u8..6).prop_map(|a| vec![a, a, a, a, a, a, a, a, a, a, a, a, a, a, a, a, a, a, a, 0, 1, 2, 3, 4, 5]),
        ];
        (len, sym)
            .prop_flat_map(|(n, pool)| proptest::collection::vec(proptest::sample::select(pool), n..=n))
            .prop_map(|v| Case { text: B(v.into_iter().map(|i| SYMS[i as usize]).collect()) })
            .boxed()
    }

    pub fn enumerate(t: Tier) -> Box<dyn Iterator<Item = Case>> {
        let maxn = match t {
            Tier::Quick => 5u32,
            Tier::Thorough => 7u32,
        };
        Box::new((1..=maxn).flat_map(|n| {
            (0..6u64.pow(n)).map(move |mut v| {
                let mut t = Vec::with_capacity(n as usize);
                for _ in 0..n {
                    t.push(SYMS[(v % 6) as usize]);
                    v /= 6;
                }
                Case { text: B(t) }
            })
        }))
    }
}

// ---------------------------------------------------------------------------
// Large-scale sub-checks (`C17/large-*`): bit-vector length, superblock factor k, number of
// superblocks, number of matching bits inside one superblock, select arguments, wavelet-matrix text
// length and run length are pushed across the ladder 255/256/257 ... 2^20+1 (and k up to 65537, i.e.
// superblocks of 2^21 bits). Cases hold generator parameters and a seed (splitmix64 expansion).

pub mod large {
    use super::*;
    use crate::oracles::scale::c071718::{intern, is_ladder, lab, labels, ladder_upto, leak_list, sample_positions, watched, Rng, LADDER};

    /// run lengths used by the run patterns: short ones, the ladder, and the superblock size +-1
    fn run_len(rng: &mut Rng, s: u64) -> u64 {
        match rng.below(8) {
            0 => 1 + rng.below(64),
            1 => 255 + rng.below(3),
            2 => 4095 + rng.below(3),
            3 => 65_535 + rng.below(3),
            4 => s - 1 + rng.below(3),
            5 => 2 * s,
            6 => 70_001,
            _ => 1 + rng.below(5000),
        }
    }

    pub mod rs {
        use super::*;

        #[derive(Serialize, Deserialize, Debug, Clone, Copy, PartialEq, Eq)]
        pub enum Pat {
            AllOnes,
            AllZeros,
            /// 15 of 16 bits set
            Dense,
            /// 1 of 1024 bits set
            Sparse,
            Random,
            /// one bit set every p bits, p from {7, 8, 255, 256, 257, 65535, 65536} by seed
            PeriodOnes,
            /// one bit clear every p bits
            PeriodZeros,
            /// alternating runs of ones and zeros, lengths from the ladder and around the superblock size
            Runs,
            /// the first three quarters are zero, the rest one (long run of equal superblock ranks)
            ZerosThenOnes,
            /// the first three quarters are one, the rest zero
            OnesThenZeros,
        }

        pub const PATS: [Pat; 10] =
            [Pat::AllOnes, Pat::AllZeros, Pat::Dense, Pat::Sparse, Pat::Random, Pat::PeriodOnes, Pat::PeriodZeros, Pat::Runs, Pat::ZerosThenOnes, Pat::OnesThenZeros];

        #[derive(Serialize, Deserialize, Debug, Clone)]
        pub struct Case {
            /// number of bits
            pub n: u32,
            /// superblock factor (superblock = 32*k bits)
            pub k: u32,
            pub pat: Pat,
            pub seed: u64,
        }

        /// bytes, bit i = (bytes[i/8] >> (i%8)) & 1 (the block layout of BitVec<u8>); padding bits are zero
        pub fn expand(c: &Case) -> Vec<u8> {
            let n = c.n as usize;
            let s = 32 * c.k as u64;
            let mut rng = Rng::new(c.seed);
            let mut bytes = vec![0u8; (n + 7) / 8];
            let mut set = |i: usize, bytes: &mut Vec<u8>| bytes[i / 8] |= 1 << (i % 8);
            const PERIODS: [usize; 7] = [7, 8, 255, 256, 257, 65_535, 65_536];
            match c.pat {
                Pat::AllOnes => bytes.iter_mut().for_each(|b| *b = 0xff),
                Pat::AllZeros => {}
                Pat::Dense => {
                    for i in 0..n {
                        if rng.next() % 16 != 0 {
                            set(i, &mut bytes);
                        }
                    }
                }
                Pat::Sparse => {
                    for i in 0..n {
                        if rng.next() % 1024 == 0 {
                            set(i, &mut bytes);
                        }
                    }
                }
                Pat::Random => {
                    for b in bytes.iter_mut() {
                        *b = rng.next() as u8;
                    }
                }
                Pat::PeriodOnes | Pat::PeriodZeros => {
                    let p = PERIODS[(c.seed % 7) as usize];
                    if c.pat == Pat::PeriodZeros {
                        bytes.iter_mut().for_each(|b| *b = 0xff);
                    }
                    let mut i = p - 1;
                    while i < n {
                        if c.pat == Pat::PeriodOnes {
                            set(i, &mut bytes);
                        } else {
                            bytes[i / 8] &= !(1 << (i % 8));
                        }
                        i += p;
                    }
                }
                Pat::Runs => {
                    let mut i = 0usize;
                    let mut one = c.seed % 2 == 0;
                    while i < n {
                        let l = run_len(&mut rng, s) as usize;
                        let e = (i + l).min(n);
                        if one {
                            for j in i..e {
                                set(j, &mut bytes);
                            }
                        }
                        one = !one;
                        i = e;
                    }
                }
                Pat::ZerosThenOnes | Pat::OnesThenZeros => {
                    let cut = n - n / 4;
                    for i in 0..n {
                        if (i >= cut) == (c.pat == Pat::ZerosThenOnes) {
                            set(i, &mut bytes);
                        }
                    }
                }
            }
            if n % 8 != 0 {
                let last = bytes.len() - 1;
                bytes[last] &= (1u16 << (n % 8)) as u8 - 1;
            }
            bytes
        }

        pub fn check(c: &Case) -> R {
            watched(serde_json::to_string(c).unwrap_or_default(), || check_inner(c))
        }

        fn check_inner(c: &Case) -> R {
            let n = c.n as u64;
            let k = c.k as usize;
            ensure!(n >= 1 && n <= (1 << 23) && k >= 1 && k <= 70_000, "harness: n={} k={} outside the supported range", n, k);
            let s = 32 * k as u64;
            let bytes = expand(c);
            let bit = |i: u64| (bytes[(i / 8) as usize] >> (i % 8)) & 1 == 1;
            let mut bv: BitVec<u8> = BitVec::new_fill(false, n);
            for (i, &b) in bytes.iter().enumerate() {
                if b != 0 {
                    bv.set_block(i, b);
                }
            }
            let rs = RankSelect::new(bv, k);
            ensure!(rs.k() == k, "k() = {}, constructed with {}; {:?}", rs.k(), k, c);
            ensure!(rs.bits().len() == n, "bits().len() = {}, expected {}; {:?}", rs.bits().len(), n, c);

            // oracle: positions of the ones and zeros
            let mut pos1: Vec<u32> = Vec::new();
            let mut pos0: Vec<u32> = Vec::new();
            for i in 0..n {
                if bit(i) {
                    pos1.push(i as u32);
                } else {
                    pos0.push(i as u32);
                }
            }
            let ones_upto = |i: u64| pos1.partition_point(|&p| (p as u64) <= i) as u64; // ones at 0..=i
            let ones_before = |i: u64| pos1.partition_point(|&p| (p as u64) < i) as u64;
            let (c1, c0) = (pos1.len() as u64, pos0.len() as u64);
            let mut rng = Rng::new(c.seed ^ 0xabcdef);
            let mut pass = Pass::new(n > s);

            // superblock boundaries to probe: all when few, otherwise first/last, around the ladder indices, random
            let nsb = (n + s - 1) / s;
            let mut sbs: Vec<u64> = if nsb <= 48 {
                (0..nsb).collect()
            } else {
                let mut v = sample_positions(nsb, &[], &mut rng, 16);
                v.truncate(80);
                v.push(nsb - 1);
                v
            };
            sbs.sort_unstable();
            sbs.dedup();
            let bounds: Vec<u64> = sbs.iter().map(|b| b * s).collect();

            // rank: every position when affordable, otherwise a sample
            let per_query = s / 16 + 30;
            let full = n * per_query <= 12_000_000;
            let one_rank = |i: u64, ones: u64, pass: &mut Pass| -> Result<(), Stop> {
                let g = rs.get(i);
                ensure!(g == bit(i), "get({}) = {} but the bit is {}; {:?}", i, g, bit(i), c);
                let r1 = rs.rank_1(i);
                ensure!(r1 == Some(ones), "rank_1({}) = {:?}, expected Some({}); n={} {:?}", i, r1, ones, n, c);
                let r0 = rs.rank_0(i);
                ensure!(r0 == Some(i + 1 - ones), "rank_0({}) = {:?}, expected Some({}); n={} {:?}", i, r0, i + 1 - ones, n, c);
                let within = ones - ones_before(i / s * s);
                pass.add_if(within > 255, "rank_1 after > 255 ones inside the superblock");
                pass.add_if(within > 65_535, "rank_1 after > 65535 ones inside the superblock");
                pass.add_if(ones > 65_535, "rank_1 result > 65535");
                pass.add_if(i + 1 - ones > 65_535, "rank_0 result > 65535");
                Ok(())
            };
            if full {
                let mut ones = 0u64;
                for i in 0..n {
                    ones += bit(i) as u64;
                    one_rank(i, ones, &mut pass)?;
                }
                pass.add("rank at every position");
            } else {
                let budget = (30_000_000 / (s / 8 + 50)).clamp(60, 900) as usize;
                let mut ps = sample_positions(n, &bounds, &mut rng, budget / 3);
                if ps.len() > budget {
                    // keep first/last and an even subsample of the rest
                    let step = ps.len().div_ceil(budget);
                    let last = *ps.last().unwrap();
                    ps = ps.into_iter().step_by(step).collect();
                    ps.push(last);
                }
                for i in ps {
                    one_rank(i, ones_upto(i), &mut pass)?;
                }
                pass.add("rank at sampled positions");
            }
            // the alias
            for i in [0, n / 2, n - 1] {
                ensure!(rs.rank(i) == Some(ones_upto(i)), "rank({}) = {:?}, expected Some({}); {:?}", i, rs.rank(i), ones_upto(i), c);
            }
            // beyond the end
            for i in [n, n + 1, n + 7, (n + 7) / 8 * 8, (n + 7) / 8 * 8 + 1, (n / s + 1) * s, n + 65_536, u64::MAX] {
                ensure!(rs.rank_1(i).is_none() && rs.rank_0(i).is_none(), "rank_1({}) = {:?}, rank_0 = {:?} beyond the end (n={}), expected None; {:?}", i, rs.rank_1(i), rs.rank_0(i), n, c);
            }

            // select: j around 0, the count, the ladder, the counts at the probed superblock boundaries (+ ladder offsets), random
            let sel_budget = (20_000_000 / (s / 8 + 200)).clamp(80, 1500) as usize;
            for which in [true, false] {
                let (pos, cnt) = if which { (&pos1, c1) } else { (&pos0, c0) };
                let mut js: Vec<u64> = vec![0, 1, 2, 3, cnt.saturating_sub(1), cnt, cnt + 1, cnt + 2, n, n + 1];
                for &l in LADDER.iter() {
                    for d in 0..3u64 {
                        js.push(l + d - 1);
                    }
                }
                let mut prio = js.len();
                for &b in &bounds {
                    let before = if which { ones_before(b) } else { b - ones_before(b) };
                    for d in 0..4u64 {
                        js.push((before + d).saturating_sub(1));
                    }
                    prio = js.len();
                    for l in [255u64, 256, 257, 65_535, 65_536, 65_537] {
                        js.push(before + l);
                    }
                }
                let _ = prio;
                for _ in 0..100 {
                    js.push(1 + rng.below(cnt.max(1)));
                }
                js.retain(|&j| j <= n + 1);
                js.sort_unstable();
                js.dedup();
                if js.len() > sel_budget {
                    let step = js.len().div_ceil(sel_budget);
                    let must: Vec<u64> = vec![0, 1, cnt, cnt + 1, n + 1, 65_535, 65_536, 65_537];
                    let mut t: Vec<u64> = js.iter().copied().step_by(step).collect();
                    t.extend(must.into_iter().filter(|&j| j <= n + 1));
                    t.sort_unstable();
                    t.dedup();
                    js = t;
                }
                for j in js {
                    let e: Option<u64> = if j == 0 { None } else { pos.get(j as usize - 1).map(|&p| p as u64) };
                    let g = if which { rs.select_1(j) } else { rs.select_0(j) };
                    ensure!(g == e, "select_{}({}) = {:?}, expected {:?} ({} such bits); n={} {:?}", which as u8, j, g, e, cnt, n, c);
                    if let Some(p) = e {
                        let sb0 = p / s * s;
                        let before = if which { ones_before(sb0) } else { sb0 - ones_before(sb0) };
                        let within = j - before;
                        if which {
                            pass.add_if(within > 255, "select_1 answer preceded by > 255 ones inside its superblock");
                            pass.add_if(within > 65_535, "select_1 answer preceded by > 65535 ones inside its superblock");
                            pass.add_if(j > 65_535, "select_1 argument > 65535");
                        } else {
                            pass.add_if(within > 255, "select_0 answer preceded by > 255 zeros inside its superblock");
                            pass.add_if(within > 65_535, "select_0 answer preceded by > 65535 zeros inside its superblock");
                            pass.add_if(j > 65_535, "select_0 argument > 65535");
                        }
                        pass.add_if(p / s > 65_535, "select answer in a superblock with index > 65535");
                    }
                }
            }
            for j in [0, 1, c1 / 2, c1, c1 + 1] {
                let e: Option<u64> = if j == 0 { None } else { pos1.get(j as usize - 1).map(|&p| p as u64) };
                ensure!(rs.select(j) == e, "select({}) = {:?}, expected {:?}; {:?}", j, rs.select(j), e, c);
            }

            // classes
            if is_ladder(n) {
                pass.add(lab("bits n", n));
            }
            if is_ladder(k as u64) || (2047..=2049).contains(&k) {
                pass.add(lab("k", k as u64));
            }
            if is_ladder(nsb) {
                pass.add(lab("superblocks", nsb));
            }
            pass.add_if(n > 65_536, "n > 65536");
            pass.add_if(n > 1 << 20, "n > 2^20");
            pass.add_if(n > 1 << 21, "n > 2^21");
            pass.add_if(s > 65_536, "superblock spans more than 65536 bits");
            pass.add_if(s > 65_536 && n > s, "superblock spans more than 65536 bits, >= 2 superblocks");
            pass.add_if(nsb > 65_536, "more than 65536 superblocks");
            pass.add_if(n % s == 0, "n multiple of 32k");
            pass.add_if(n % s == 1, "n = 32kj+1");
            pass.add_if(n % s == s - 1, "n = 32kj-1");
            pass.add_if(n % 8 != 0, "last byte padded");
            // longest run of superblocks without a one / without a zero (equal superblock ranks)
            if nsb <= 200_000 {
                let (mut run1, mut run0, mut best1, mut best0) = (0u64, 0u64, 0u64, 0u64);
                let mut prev = 0u64;
                for b in 0..nsb {
                    let end = ((b + 1) * s).min(n);
                    let o = ones_before(end);
                    let ones_in = o - prev;
                    prev = o;
                    run1 = if ones_in == 0 { run1 + 1 } else { 0 };
                    run0 = if ones_in == end - b * s { run0 + 1 } else { 0 };
                    best1 = best1.max(run1);
                    best0 = best0.max(run0);
                }
                pass.add_if(best1 > 255 && c1 > 0, "run of > 255 all-zero superblocks in a non-zero vector");
                pass.add_if(best1 > 65_535 && c1 > 0, "run of > 65535 all-zero superblocks in a non-zero vector");
                pass.add_if(best0 > 255 && c0 > 0, "run of > 255 all-one superblocks in a non-constant vector");
                pass.add_if(best0 > 65_535 && c0 > 0, "run of > 65535 all-one superblocks in a non-constant vector");
            }
            pass.add(match c.pat {
                Pat::AllOnes => "pattern all ones",
                Pat::AllZeros => "pattern all zeros",
                Pat::Dense => "pattern dense",
                Pat::Sparse => "pattern sparse",
                Pat::Random => "pattern random",
                Pat::PeriodOnes => "pattern periodic ones",
                Pat::PeriodZeros => "pattern periodic zeros",
                Pat::Runs => "pattern runs",
                Pat::ZerosThenOnes => "pattern zeros then ones",
                Pat::OnesThenZeros => "pattern ones then zeros",
            });
            Ok(pass)
        }

        /// k ladder: the common ladder up to 65537 plus 2047..2049 (32k = 65536 bits)
        pub fn k_ladder() -> Vec<u64> {
            let mut v = ladder_upto(65_537);
            v.extend([2047, 2048, 2049]);
            v.sort_unstable();
            v
        }

        pub fn enumerate(t: Tier) -> Box<dyn Iterator<Item = Case>> {
            let mut v: Vec<Case> = Vec::new();
            let mut q = 0u64;
            let reps: u64 = if t == Tier::Quick { 1 } else { 4 };
            for rep in 0..reps {
                let mut push = |n: u64, k: u64, pat: Pat, v: &mut Vec<Case>| {
                    q += 1;
                    v.push(Case { n: n as u32, k: k as u32, pat, seed: 0xc17 + q * 7907 + rep * 49_979_687 });
                };
                // (1) every ladder length, small k (1, 3, 8, 40 rotating): three patterns each (all when thorough)
                for (i, &n) in LADDER.iter().enumerate() {
                    let npat = if t == Tier::Thorough { 10 } else { 3 };
                    for j in 0..npat {
                        let k = [1u64, 3, 8, 40][(i + j) % 4];
                        push(n, k, PATS[(i * 3 + j + rep as usize) % 10], &mut v);
                    }
                }
                // (2) every ladder k with >= 2 superblocks (n = 2*32k + 37, and 3*32k exactly / -1 / +1 rotating): dense
                //     patterns so that more than 255 / 65535 matches precede the answer inside one superblock
                for (i, &k) in k_ladder().iter().enumerate() {
                    let s = 32 * k;
                    let n = [2 * s + 37, 3 * s, 2 * s - 1, 2 * s + 1][i % 4];
                    push(n, k, Pat::AllOnes, &mut v);
                    push(n, k, Pat::AllZeros, &mut v);
                    let extra = if t == Tier::Thorough { 8 } else { 2 };
                    for j in 0..extra {
                        push(n, k, [Pat::Dense, Pat::Runs, Pat::Random, Pat::PeriodZeros, Pat::PeriodOnes, Pat::ZerosThenOnes, Pat::OnesThenZeros, Pat::Sparse][(i + j) % 8], &mut v);
                    }
                }
                // (3) number of superblocks across the ladder (k = 1, 2): last superblock partial, full, one bit
                for (i, &nsb) in ladder_upto(65_537).iter().enumerate() {
                    let k = 1 + (i as u64 % 2);
                    let s = 32 * k;
                    let n = [nsb * s - 5, nsb * s, (nsb - 1) * s + 1][i % 3];
                    push(n, k, [Pat::Runs, Pat::ZerosThenOnes, Pat::OnesThenZeros, Pat::Sparse, Pat::Dense][(i + rep as usize) % 5], &mut v);
                    if nsb > 65_000 || t == Tier::Thorough {
                        push(n, k, Pat::ZerosThenOnes, &mut v);
                        push(n, k, Pat::OnesThenZeros, &mut v);
                    }
                }
                // (4) beyond 2^21 bits with k = 1: more than 65536 superblocks, runs of more than 65535 equal superblock ranks
                for (n, pat) in [((1u64 << 22) + 1, Pat::ZerosThenOnes), ((1 << 22) + 1, Pat::OnesThenZeros), ((1 << 21) + 100, Pat::Random), ((1 << 21) - 1, Pat::Sparse), ((1 << 22) - 1, Pat::AllOnes)] {
                    push(n, 1, pat, &mut v);
                }
            }
            Box::new(v.into_iter())
        }

        pub fn strat(_t: Tier) -> BoxedStrategy<Case> {
            let near_n: Vec<u64> = LADDER.iter().copied().filter(|&v| v <= 131_073).collect();
            let near_k: Vec<u64> = k_ladder().into_iter().filter(|&v| v <= 8193).collect();
            let n = prop_oneof![
                4 => 1000u32..=100_000,
                3 => (proptest::sample::select(near_n), -3i64..=3).prop_map(|(v, d)| (v as i64 + d) as u32),
                1 => 100_000u32..=1_100_000,
            ];
            let k = prop_oneof![
                3 => 1u32..=64,
                2 => (proptest::sample::select(near_k), -2i64..=2).prop_map(|(v, d)| (v as i64 + d) as u32),
                1 => 64u32..=9000,
            ];
            (n, k, proptest::sample::select(PATS.to_vec()), any::<u64>()).prop_map(|(n, k, pat, seed)| Case { n, k, pat, seed }).boxed()
        }

        pub fn must() -> &'static [&'static str] {
            let mut v = labels("bits n", &LADDER);
            v.extend(labels("k", &k_ladder()));
            v.extend(labels("superblocks", &ladder_upto(65_537)));
            v.extend([
                "n > 2^21",
                "superblock spans more than 65536 bits, >= 2 superblocks",
                "more than 65536 superblocks",
                "rank_1 after > 65535 ones inside the superblock",
                "select_1 answer preceded by > 65535 ones inside its superblock",
                "select_0 answer preceded by > 65535 zeros inside its superblock",
                "select_1 argument > 65535",
                "select_0 argument > 65535",
                "select answer in a superblock with index > 65535",
                "run of > 65535 all-zero superblocks in a non-zero vector",
                "run of > 65535 all-one superblocks in a non-constant vector",
                "rank at every position",
                "rank at sampled positions",
                "n multiple of 32k",
                "n = 32kj+1",
                "n = 32kj-1",
            ]);
            leak_list(v)
        }
    }

    pub mod wm {
        use super::*;
        use crate::props::c17::wavelet::SYMS;

        #[derive(Serialize, Deserialize, Debug, Clone, Copy, PartialEq, Eq)]
        pub enum Pat {
            /// one symbol only (which one: seed mod 6)
            Homopolymer,
            /// ACGTN$ACGTN$...
            Periodic,
            /// runs of one symbol, lengths from the ladder
            Runs,
            Random,
            /// 99 % one symbol
            Skewed,
            /// six blocks A..A C..C G..G T..T N..N $..$
            Sorted,
            /// the same blocks in reverse order
            SortedDesc,
        }

        pub const PATS: [Pat; 7] = [Pat::Homopolymer, Pat::Periodic, Pat::Runs, Pat::Random, Pat::Skewed, Pat::Sorted, Pat::SortedDesc];

        #[derive(Serialize, Deserialize, Debug, Clone)]
        pub struct Case {
            pub n: u32,
            pub pat: Pat,
            pub seed: u64,
        }

        /// (symbol indices into SYMS, longest run of equal symbols)
        pub fn expand(c: &Case) -> Vec<u8> {
            let n = c.n as usize;
            let mut rng = Rng::new(c.seed);
            let mut t: Vec<u8> = Vec::with_capacity(n);
            match c.pat {
                Pat::Homopolymer => t.resize(n, (c.seed % 6) as u8),
                Pat::Periodic => t.extend((0..n).map(|i| (i % 6) as u8)),
                Pat::Runs => {
                    let mut sym = (c.seed % 6) as u8;
                    while t.len() < n {
                        let l = (run_len(&mut rng, 32) as usize).min(n - t.len());
                        let cur = t.len();
                        t.resize(cur + l, sym);
                        sym = (sym + 1 + rng.below(5) as u8) % 6;
                    }
                }
                Pat::Random => t.extend((0..n).map(|_| rng.below(6) as u8)),
                Pat::Skewed => {
                    let main = (c.seed % 6) as u8;
                    t.extend((0..n).map(|_| if rng.below(100) == 0 { rng.below(6) as u8 } else { main }));
                }
                Pat::Sorted | Pat::SortedDesc => {
                    for i in 0..n {
                        let b = (i * 6 / n) as u8;
                        t.push(if c.pat == Pat::Sorted { b } else { 5 - b });
                    }
                }
            }
            t
        }

        pub fn check(c: &Case) -> R {
            watched(serde_json::to_string(c).unwrap_or_default(), || check_inner(c))
        }

        fn check_inner(c: &Case) -> R {
            let n = c.n as usize;
            ensure!(n >= 1 && n <= (1 << 21), "harness: n {} outside 1..=2^21", n);
            let idx = expand(c);
            let text: Vec<u8> = idx.iter().map(|&i| SYMS[i as usize]).collect();
            let wm = WaveletMatrix::new(&text);
            let mut rng = Rng::new(c.seed ^ 0x77);
            // run boundaries are interesting positions
            let mut run_starts: Vec<u64> = Vec::new();
            let (mut longest, mut cur) = (0usize, 0usize);
            for i in 0..n {
                if i > 0 && idx[i] != idx[i - 1] {
                    if run_starts.len() < 300 {
                        run_starts.push(i as u64);
                    }
                    cur = 0;
                }
                cur += 1;
                longest = longest.max(cur);
            }
            let full = n <= 70_001;
            let ps: Vec<u64> = if full { (0..n as u64).collect() } else { sample_positions(n as u64, &run_starts, &mut rng, 1500) };
            let mut cnt = [0u64; 6];
            let mut next = 0usize;
            for (p, &x) in idx.iter().enumerate() {
                cnt[x as usize] += 1;
                if next < ps.len() && ps[next] == p as u64 {
                    next += 1;
                    for (ci, &sym) in SYMS.iter().enumerate() {
                        let got = wm.rank(sym, p as u64);
                        ensure!(got == cnt[ci], "WaveletMatrix::rank({:?}, {}) = {}, expected {}; text length {} {:?}", sym as char, p, got, cnt[ci], n, c);
                    }
                }
            }
            ensure!(next == ps.len(), "harness: not all sampled positions visited");
            let distinct = cnt.iter().filter(|&&x| x > 0).count();
            let mut pass = Pass::new(n > 32);
            if is_ladder(n as u64) {
                pass.add(lab("text length", n as u64));
            }
            for l in [255usize, 4095, 65_535, 131_071, 1 << 19] {
                if longest > l {
                    pass.add(intern(format!("run of equal symbols > {}", l)));
                }
            }
            for (ci, &x) in cnt.iter().enumerate() {
                if x > 65_535 {
                    pass.add(intern(format!("more than 65535 occurrences of {}", SYMS[ci] as char)));
                }
            }
            pass.add_if(n > 65_536, "text length > 65536");
            pass.add_if(n >= 1 << 20, "text length >= 2^20");
            pass.add_if(distinct == 6, "all six symbols");
            pass.add_if(distinct == 1, "single symbol");
            pass.add_if(full, "rank at every position");
            pass.add_if(!full, "rank at sampled positions");
            pass.add(match c.pat {
                Pat::Homopolymer => "pattern homopolymer",
                Pat::Periodic => "pattern periodic",
                Pat::Runs => "pattern runs",
                Pat::Random => "pattern random",
                Pat::Skewed => "pattern skewed",
                Pat::Sorted => "pattern sorted",
                Pat::SortedDesc => "pattern sorted descending",
            });
            Ok(pass)
        }

        pub fn enumerate(t: Tier) -> Box<dyn Iterator<Item = Case>> {
            let mut v = Vec::new();
            let mut q = 0u64;
            let reps: u64 = if t == Tier::Quick { 1 } else { 4 };
            for rep in 0..reps {
                for (i, &n) in LADDER.iter().enumerate() {
                    let npat = if t == Tier::Thorough {
                        7
                    } else if n <= 131_073 {
                        4
                    } else {
                        3
                    };
                    for j in 0..npat {
                        q += 1;
                        // homopolymer and runs at every length; the others rotate
                        let pat = match j {
                            0 => Pat::Homopolymer,
                            1 => Pat::Runs,
                            _ => [Pat::Periodic, Pat::Random, Pat::Skewed, Pat::Sorted, Pat::SortedDesc][(i * 2 + j + rep as usize) % 5],
                        };
                        v.push(Case { n: n as u32, pat, seed: 0x3a7 + q * 6007 + rep * 86_028_121 });
                    }
                }
            }
            Box::new(v.into_iter())
        }

        pub fn strat(_t: Tier) -> BoxedStrategy<Case> {
            let near_n: Vec<u64> = LADDER.iter().copied().filter(|&v| v <= 131_073).collect();
            let n = prop_oneof![
                4 => 1000u32..=60_000,
                3 => (proptest::sample::select(near_n), -3i64..=3).prop_map(|(v, d)| (v as i64 + d) as u32),
                1 => 100_000u32..=600_000,
            ];
            (n, proptest::sample::select(PATS.to_vec()), any::<u64>()).prop_map(|(n, pat, seed)| Case { n, pat, seed }).boxed()
        }

        pub fn must() -> &'static [&'static str] {
            let mut v = labels("text length", &LADDER);
            v.extend([
                "run of equal symbols > 65535",
                "run of equal symbols > 524288",
                "more than 65535 occurrences of A",
                "more than 65535 occurrences of C",
                "more than 65535 occurrences of G",
                "more than 65535 occurrences of T",
                "more than 65535 occurrences of N",
                "more than 65535 occurrences of $",
                "all six symbols",
                "single symbol",
                "rank at every position",
                "rank at sampled positions",
            ]);
            leak_list(v)
        }
    }
}

pub fn property() -> Property {
    Property {
        id: "C17",
        rule: "rank-select: k from {1, 2..=4, 5..=12, 13..=40}; n from 1..=10, 1..=100, 32k*j+{-1,0,1} (j<=5), 8j+{-1,0,1}, 1..=3000; bits all-zero, all-one, density 1/50/99 %, per-superblock or per-byte chunks that are all-zero/all-one/random, or at most three bits flipped on a constant background. For every i<n rank_1/rank_0/get are compared with running counts, for i>=n (n, n+1, padded tail, next byte, next superblock) they must be None, select_1/select_0(j) for every j in 0..=n+1 are compared with the positions of the j-th one/zero (None for j=0 and j>count). Exhaustive: every bit vector of length 1..=10 (thorough 16) for k=1,2. wavelet: texts over ACGTN$ of length 1..=10, 1..=100, 32j+{-1,0,1}, 1..=400 with uniform, subset and skewed symbol distributions; WaveletMatrix::rank(c,p) for all six symbols and every p against running counts; exhaustive: all texts of length 1..=5 (thorough 7). Non-trivial = n > 32k (more than one superblock) resp. text longer than 32 with at least two distinct symbols; distinct = distinct serialised case. Large-scale sub-checks (large-*): cases are generator parameters {n, k, pattern, seed} expanded with splitmix64; bit-vector length n over the ladder 255/256/257, 511..513, 1023..1025, 4095..4097, 8191..8193, 16383..16385, 32767..32769, 65535..65537, 70001, 131071..131073, 2^19+-1, 2^20+-1 and up to 2^22+1; superblock factor k over the same ladder up to 65537 (plus 2047..2049) with at least two superblocks; number of superblocks over the ladder up to 65537 and 131073; patterns all-ones, all-zeros, dense, sparse, random, periodic, runs (ladder lengths, superblock size +-1), zeros-then-ones, ones-then-zeros; the oracle is the list of positions of the ones/zeros; rank_1/rank_0/get at every position when n*32k is small, otherwise at first/last, every ladder value +-2, the probed superblock boundaries +-2 and random positions; select_1/select_0 at 0, 1, count-1..count+2, n, n+1, ladder values +-1, the counts at the probed superblock boundaries (+ 255..257, 65535..65537) and random arguments; aliases rank/select, k(), bits(). Wavelet matrix: text length over the ladder, patterns homopolymer, runs, periodic, random, skewed, sorted; rank for all six symbols at every position up to 70001 symbols, beyond that at first/last, ladder +-2, run boundaries +-2 and 1500 random positions against running counts.",
        assumptions: &["n >= 1, k >= 1; select arguments j within 0..=n+1 as quantified", "wavelet matrix texts use only the upper-case symbols A,C,G,T,N,$ and p < |text|"],
        subs: vec![
            // the enumerated ladders are single long jobs: queued first so that they overlap with everything else
            Box::new(ExhSub { name: "C17/large-rank-select-ladder", enumerate: large::rs::enumerate, check: large::rs::check, must_reach: large::rs::must() }),
            Box::new(ExhSub { name: "C17/large-wavelet-ladder", enumerate: large::wm::enumerate, check: large::wm::check, must_reach: large::wm::must() }),
            Box::new(PropSub {
                name: "C17/large-rank-select-random",
                quick: 320,
                thorough: 6_400,
                shards_quick: 8,
                shards_thorough: 16,
                strat: large::rs::strat,
                check: large::rs::check,
                must_reach: &["n > 65536", "superblock spans more than 65536 bits", "rank at every position", "rank at sampled positions"],
                watch: true,
            }),
            Box::new(PropSub {
                name: "C17/large-wavelet-random",
                quick: 480,
                thorough: 9_600,
                shards_quick: 8,
                shards_thorough: 16,
                strat: large::wm::strat,
                check: large::wm::check,
                must_reach: &["text length > 65536", "run of equal symbols > 255"],
                watch: true,
            }),
            Box::new(PropSub {
                name: "C17/rank-select",
                quick: 160_000,
                thorough: 1_600_000,
                shards_quick: 16,
                shards_thorough: 16,
                strat,
                check,
                must_reach: &[
                    "k=1",
                    "k>=5",
                    "n multiple of 32k",
                    "n = 32kj+1",
                    "n = 32kj-1",
                    "last byte padded and last bit zero (select_0 next to the padding)",
                    "padded and all zero (select_0(n+1) must not see padding)",
                    "all-zero superblock in a non-zero vector",
                    "all-one superblock in a non-constant vector",
                    "run of all-zero superblocks (equal superblock ranks)",
                    ">=4 superblocks",
                ],
                watch: false,
            }),
            Box::new(ExhSub { name: "C17/rank-select-exhaustive", enumerate, check, must_reach: &["all zero", "all one", "last byte padded"] }),
            Box::new(PropSub {
                name: "C17/wavelet",
                quick: 300_000,
                thorough: 2_400_000,
                shards_quick: 16,
                shards_thorough: 16,
                strat: wavelet::strat,
                check: wavelet::check,
                must_reach: &["all six symbols", "single symbol", "len multiple of 32", "len = 32j+1", "len = 32j-1", "len > 64"],
                watch: false,
            }),
            Box::new(ExhSub { name: "C17/wavelet-exhaustive", enumerate: wavelet::enumerate, check: wavelet::check, must_reach: &[] }),
        ],
    }
}
