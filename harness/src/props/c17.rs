//! C17 — RankSelect rank/select and WaveletMatrix::rank equal naive counting.
//!
//! Sub-checks
//! * `C17/rank-select`            random bit vectors x superblock factor k, every i and every j
//! * `C17/rank-select-exhaustive` every bit vector of length 1..=10 (thorough: ..=16) for k in {1,2}
//! * `C17/wavelet`                random texts over ACGTN$, every symbol and every position
//! * `C17/wavelet-exhaustive`     every text over ACGTN$ of length 1..=5 (thorough: ..=7)

use crate::engine::*;
use crate::ensure;
use bio::data_structures::rank_select::RankSelect;
use bio::data_structures::wavelet_matrix::WaveletMatrix;
use bv::{BitVec, BitsMut};
use proptest::prelude::*;
use serde::{Deserialize, Serialize};

// ---------------------------------------------------------------------------
// rank / select

#[derive(Serialize, Deserialize, Debug, Clone)]
pub struct Case {
    /// superblock factor (superblock = 32*k bits)
    pub k: usize,
    /// the bit vector, position 0 first, as a string of '0'/'1'
    pub bits: String,
}

fn short(bits: &str) -> String {
    if bits.len() <= 200 {
        bits.to_string()
    } else {
        format!("{}..({} bits)", &bits[..200], bits.len())
    }
}

pub fn check(c: &Case) -> R {
    let n = c.bits.len();
    ensure!(n >= 1 && c.k >= 1, "harness: empty bit vector or k=0 generated");
    ensure!(c.bits.bytes().all(|b| b == b'0' || b == b'1'), "harness: bits must be a string of 0/1");
    let bools: Vec<bool> = c.bits.bytes().map(|b| b == b'1').collect();
    let mut bv: BitVec<u8> = BitVec::new_fill(false, n as u64);
    for (i, &b) in bools.iter().enumerate() {
        if b {
            bv.set_bit(i as u64, true);
        }
    }
    let rs = RankSelect::new(bv, c.k);
    let k = c.k;

    // rank / get: running counts
    let mut ones = 0u64;
    let mut pos1: Vec<u64> = Vec::new();
    let mut pos0: Vec<u64> = Vec::new();
    for (i, &b) in bools.iter().enumerate() {
        let i = i as u64;
        if b {
            ones += 1;
            pos1.push(i);
        } else {
            pos0.push(i);
        }
        let zeros = i + 1 - ones;
        ensure!(rs.get(i) == b, "get({}) = {} but bit is {}; k={} bits={}", i, rs.get(i), b, k, short(&c.bits));
        let r1 = rs.rank_1(i);
        ensure!(r1 == Some(ones), "rank_1({}) = {:?}, expected Some({}); k={} n={} bits={}", i, r1, ones, k, n, short(&c.bits));
        let r0 = rs.rank_0(i);
        ensure!(r0 == Some(zeros), "rank_0({}) = {:?}, expected Some({}); k={} n={} bits={}", i, r0, zeros, k, n, short(&c.bits));
    }
    // beyond the end (i = n is inside the property's quantifier; the others are the padded tail of
    // the last byte, the next byte and the next superblock)
    let n64 = n as u64;
    let mut beyond = vec![n64, n64 + 1, n64 + 7, (n64 + 7) / 8 * 8, (n64 + 7) / 8 * 8 + 1, (n64 / (32 * k as u64) + 1) * 32 * k as u64];
    beyond.dedup();
    for i in beyond {
        let r1 = rs.rank_1(i);
        ensure!(r1.is_none(), "rank_1({}) = {:?} beyond the end, expected None; k={} n={} bits={}", i, r1, k, n, short(&c.bits));
        let r0 = rs.rank_0(i);
        ensure!(r0.is_none(), "rank_0({}) = {:?} beyond the end, expected None; k={} n={} bits={}", i, r0, k, n, short(&c.bits));
    }
    // select: every j in 0..=n+1
    for j in 0..=(n64 + 1) {
        let e1 = if j == 0 { None } else { pos1.get(j as usize - 1).cloned() };
        let e0 = if j == 0 { None } else { pos0.get(j as usize - 1).cloned() };
        let s1 = rs.select_1(j);
        ensure!(s1 == e1, "select_1({}) = {:?}, expected {:?} ({} one bits); k={} n={} bits={}", j, s1, e1, pos1.len(), k, n, short(&c.bits));
        let s0 = rs.select_0(j);
        ensure!(s0 == e0, "select_0({}) = {:?}, expected {:?} ({} zero bits); k={} n={} bits={}", j, s0, e0, pos0.len(), k, n, short(&c.bits));
    }

    let s = 32 * k;
    let mut pass = Pass::new(n > s);
    // classes
    pass.add_if(k == 1, "k=1");
    pass.add_if((2..=4).contains(&k), "k in 2..=4");
    pass.add_if(k >= 5, "k>=5");
    pass.add_if(n % s == 0, "n multiple of 32k");
    pass.add_if(n % s == 1, "n = 32kj+1");
    pass.add_if(n % s == s - 1, "n = 32kj-1");
    pass.add_if(n % 8 != 0, "last byte padded");
    pass.add_if(n % 8 != 0 && !bools[n - 1], "last byte padded and last bit zero (select_0 next to the padding)");
    pass.add_if(n % 8 != 0 && pos1.is_empty(), "padded and all zero (select_0(n+1) must not see padding)");
    pass.add_if(pos1.is_empty(), "all zero");
    pass.add_if(pos0.is_empty(), "all one");
    let nsb = n.div_ceil(s);
    pass.add_if(nsb >= 2, ">=2 superblocks");
    pass.add_if(nsb >= 4, ">=4 superblocks");
    if nsb >= 2 {
        let mut zero_sb = false;
        let mut one_sb = false;
        let mut zero_run = false;
        let mut prev_zero = false;
        for b in 0..nsb {
            let blk = &bools[b * s..((b + 1) * s).min(n)];
            let z = blk.iter().all(|x| !*x);
            let o = blk.iter().all(|x| *x);
            zero_sb |= z;
            one_sb |= o;
            zero_run |= z && prev_zero;
            prev_zero = z;
        }
        pass.add_if(zero_sb && !pos1.is_empty(), "all-zero superblock in a non-zero vector");
        pass.add_if(one_sb && !pos0.is_empty(), "all-one superblock in a non-constant vector");
        pass.add_if(zero_run && !pos1.is_empty(), "run of all-zero superblocks (equal superblock ranks)");
    }
    pass.add("select j=0 and j>count");
    Ok(pass)
}

fn k_strat() -> BoxedStrategy<usize> {
    prop_oneof![3 => Just(1usize), 4 => 2usize..=4, 2 => 5usize..=12, 1 => 13usize..=40].boxed()
}

fn n_strat(k: usize) -> BoxedStrategy<usize> {
    let s = 32 * k;
    prop_oneof![
        1 => 1usize..=10,
        2 => 1usize..=100,
        4 => (1usize..=5, 0usize..=2).prop_map(move |(j, d)| s * j + d - 1),
        1 => (1usize..=40, 0usize..=2).prop_map(|(j, d)| 8 * j + d - 1),
        2 => 1usize..=3000,
    ]
    .boxed()
}

fn bits_strat(k: usize, n: usize) -> BoxedStrategy<Vec<bool>> {
    let s = 32 * k;
    let dens = |p: f64| proptest::collection::vec(prop::bool::weighted(p), n..=n);
    // chunked: every chunk of `g` bits is all-zero, all-one or random
    let chunked = |g: usize| {
        let nch = n.div_ceil(g);
        (proptest::collection::vec(prop_oneof![3 => Just(0u8), 2 => Just(1u8), 2 => Just(2u8)], nch..=nch), proptest::collection::vec(any::<bool>(), n..=n)).prop_map(
            move |(modes, mut bits)| {
                for (i, b) in bits.iter_mut().enumerate() {
                    match modes[i / g] {
                        0 => *b = false,
                        1 => *b = true,
                        _ => {}
                    }
                }
                bits
            },
        )
    };
    // sparse: at most three bits differ from the background
    let sparse = (any::<bool>(), proptest::collection::vec(any::<u16>(), 0..=3)).prop_map(move |(bg, flips)| {
        let mut bits = vec![bg; n];
        for f in flips {
            let i = gen::idx(f, n - 1);
            bits[i] = !bg;
        }
        bits
    });
    prop_oneof![
        1 => Just(vec![false; n]),
        1 => Just(vec![true; n]),
        1 => dens(0.01),
        3 => dens(0.5),
        1 => dens(0.99),
        3 => chunked(s),
        2 => chunked(8),
        2 => sparse,
    ]
    .boxed()
}

pub fn strat(_t: Tier) -> BoxedStrategy<Case> {
    k_strat()
        .prop_flat_map(|k| n_strat(k).prop_map(move |n| (k, n)))
        .prop_flat_map(|(k, n)| bits_strat(k, n).prop_map(move |b| Case { k, bits: b.iter().map(|&x| if x { '1' } else { '0' }).collect() }))
        .boxed()
}

fn enumerate(t: Tier) -> Box<dyn Iterator<Item = Case>> {
    let maxn = match t {
        Tier::Quick => 10usize,
        Tier::Thorough => 16usize,
    };
    Box::new((1..=2usize).flat_map(move |k| {
        (1..=maxn).flat_map(move |n| (0u32..(1u32 << n)).map(move |v| Case { k, bits: (0..n).map(|i| if (v >> i) & 1 == 1 { '1' } else { '0' }).collect() }))
    }))
}

// ---------------------------------------------------------------------------
// wavelet matrix

pub mod wavelet {
    use super::*;

    pub const SYMS: &[u8; 6] = b"ACGTN$";

    #[derive(Serialize, Deserialize, Debug, Clone)]
    pub struct Case {
        pub text: B,
    }

    pub fn check(c: &Case) -> R {
        let t: &[u8] = &c.text;
        ensure!(!t.is_empty() && t.iter().all(|x| SYMS.contains(x)), "harness: text must be non-empty over ACGTN$");
        let wm = WaveletMatrix::new(t);
        let mut cnt = [0u64; 6];
        for (p, &x) in t.iter().enumerate() {
            let xi = SYMS.iter().position(|s| *s == x).unwrap();
            cnt[xi] += 1;
            for (ci, &sym) in SYMS.iter().enumerate() {
                let got = wm.rank(sym, p as u64);
                ensure!(
                    got == cnt[ci],
                    "WaveletMatrix::rank({:?}, {}) = {}, expected {}; text {:?} (len {})",
                    sym as char,
                    p,
                    got,
                    cnt[ci],
                    lossy(t),
                    t.len()
                );
            }
        }
        let distinct = cnt.iter().filter(|&&x| x > 0).count();
        let n = t.len();
        let mut pass = Pass::new(n > 32 && distinct >= 2);
        pass.add_if(distinct == 6, "all six symbols");
        pass.add_if(distinct == 1, "single symbol");
        pass.add_if(cnt[4] > 0 && cnt[5] > 0, "contains N and $");
        pass.add_if(n % 32 == 0, "len multiple of 32");
        pass.add_if(n % 32 == 1 && n > 1, "len = 32j+1");
        pass.add_if(n % 32 == 31, "len = 32j-1");
        pass.add_if(n > 64, "len > 64");
        pass.add_if(n % 8 != 0, "levels have a padded last byte");
        Ok(pass)
    }

    pub fn strat(_t: Tier) -> BoxedStrategy<Case> {
        let len = prop_oneof![
            1 => 1usize..=10,
            2 => 1usize..=100,
            3 => (1usize..=12, 0usize..=2).prop_map(|(j, d)| 32 * j + d - 1),
            2 => 1usize..=400,
        ];
        // symbol distribution: uniform over a random non-empty subset, or skewed towards one symbol
        let sym = prop_oneof![
            3 => Just(vec![0u8, 1, 2, 3, 4, 5]),
            2 => proptest::sample::subsequence(vec![0u8, 1, 2, 3, 4, 5], 1..=6),
            1 => (0u8..6, 0u8..6).prop_map(|(a, b)| vec![a, a, a, a, a, a, a, a, a, b]),
            1 => (0u8..6).prop_map(|a| vec![a, a, a, a, a, a, a, a, a, a, a, a, a, a, a, a, a, a, a, 0, 1, 2, 3, 4, 5]),
        ];
        (len, sym)
            .prop_flat_map(|(n, pool)| proptest::collection::vec(proptest::sample::select(pool), n..=n))
            .prop_map(|v| Case { text: B(v.into_iter().map(|i| SYMS[i as usize]).collect()) })
            .boxed()
    }

    pub fn enumerate(t: Tier) -> Box<dyn Iterator<Item = Case>> {
        let maxn = match t {
            Tier::Quick => 5u32,
            Tier::Thorough => 7u32,
        };
        Box::new((1..=maxn).flat_map(|n| {
            (0..6u64.pow(n)).map(move |mut v| {
                let mut t = Vec::with_capacity(n as usize);
                for _ in 0..n {
                    t.push(SYMS[(v % 6) as usize]);
                    v /= 6;
                }
                Case { text: B(t) }
            })
        }))
    }
}

pub fn property() -> Property {
    Property {
        id: "C17",
        rule: "rank-select: k from {1, 2..=4, 5..=12, 13..=40}; n from 1..=10, 1..=100, 32k*j+{-1,0,1} (j<=5), 8j+{-1,0,1}, 1..=3000; bits all-zero, all-one, density 1/50/99 %, per-superblock or per-byte chunks that are all-zero/all-one/random, or at most three bits flipped on a constant background. For every i<n rank_1/rank_0/get are compared with running counts, for i>=n (n, n+1, padded tail, next byte, next superblock) they must be None, select_1/select_0(j) for every j in 0..=n+1 are compared with the positions of the j-th one/zero (None for j=0 and j>count). Exhaustive: every bit vector of length 1..=10 (thorough 16) for k=1,2. wavelet: texts over ACGTN$ of length 1..=10, 1..=100, 32j+{-1,0,1}, 1..=400 with uniform, subset and skewed symbol distributions; WaveletMatrix::rank(c,p) for all six symbols and every p against running counts; exhaustive: all texts of length 1..=5 (thorough 7). Non-trivial = n > 32k (more than one superblock) resp. text longer than 32 with at least two distinct symbols; distinct = distinct serialised case.",
        assumptions: &["n >= 1, k >= 1; select arguments j within 0..=n+1 as quantified", "wavelet matrix texts use only the upper-case symbols A,C,G,T,N,$ and p < |text|"],
        subs: vec![
            Box::new(PropSub {
                name: "C17/rank-select",
                quick: 160_000,
                thorough: 1_600_000,
                shards_quick: 16,
                shards_thorough: 16,
                strat,
                check,
                must_reach: &[
                    "k=1",
                    "k>=5",
                    "n multiple of 32k",
                    "n = 32kj+1",
                    "n = 32kj-1",
                    "last byte padded and last bit zero (select_0 next to the padding)",
                    "padded and all zero (select_0(n+1) must not see padding)",
                    "all-zero superblock in a non-zero vector",
                    "all-one superblock in a non-constant vector",
                    "run of all-zero superblocks (equal superblock ranks)",
                    ">=4 superblocks",
                ],
                watch: false,
            }),
            Box::new(ExhSub { name: "C17/rank-select-exhaustive", enumerate, check, must_reach: &["all zero", "all one", "last byte padded"] }),
            Box::new(PropSub {
                name: "C17/wavelet",
                quick: 300_000,
                thorough: 2_400_000,
                shards_quick: 16,
                shards_thorough: 16,
                strat: wavelet::strat,
                check: wavelet::check,
                must_reach: &["all six symbols", "single symbol", "len multiple of 32", "len = 32j+1", "len = 32j-1", "len > 64"],
                watch: false,
            }),
            Box::new(ExhSub { name: "C17/wavelet-exhaustive", enumerate: wavelet::enumerate, check: wavelet::check, must_reach: &[] }),
        ],
    }
}
