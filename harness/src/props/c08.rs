//! C08 — exact pattern matchers return exactly all occurrences.

use crate::engine::gen::idx;
use crate::engine::*;
use crate::oracles::naive_find;
use crate::{ensure};
use bio::pattern_matching::{bndm::BNDM, bom::BOM, horspool::Horspool, kmp::KMP, shift_and::ShiftAnd};
use proptest::prelude::*;
use serde::{Deserialize, Serialize};

#[derive(Serialize, Deserialize, Debug, Clone)]
pub struct Case {
    pub pattern: B,
    /// the matcher is built once and applied to every text in order, then to the first one again
    pub texts: Vec<B>,
}

fn check_matcher(name: &str, p: &[u8], texts: &[B], find: &dyn Fn(&[u8]) -> Vec<usize>) -> Result<(), Stop> {
    let n = texts.len();
    for round in 0..=n {
        let t: &[u8] = if round == n { &texts[0] } else { &texts[round] };
        if round == n && n == 1 {
            // still repeat: same matcher, same text, second call
        }
        let expect = naive_find(p, t);
        let got = find(t);
        ensure!(
            got == expect,
            "{}: pattern {:?} (m={}) text {:?} (call #{} on the same matcher): got {:?}, expected {:?}",
            name,
            lossy(p),
            p.len(),
            lossy(t),
            round + 1,
            got,
            expect
        );
    }
    Ok(())
}

/// iterators are capped: more results than text positions would mean duplicates / no termination
fn capped<I: Iterator<Item = usize>>(it: I, t: &[u8]) -> Vec<usize> {
    it.take(t.len() + 2).collect()
}

pub fn check(c: &Case) -> R {
    let p: &[u8] = &c.pattern;
    ensure!(!p.is_empty() && !c.texts.is_empty(), "harness: empty pattern/texts generated");
    let m = p.len();
    if m <= 64 {
        let sa = ShiftAnd::new(p);
        check_matcher("ShiftAnd", p, &c.texts, &|t| capped(sa.find_all(t), t))?;
        let bn = BNDM::new(p);
        check_matcher("BNDM", p, &c.texts, &|t| capped(bn.find_all(t), t))?;
    }
    let bom = BOM::new(p);
    check_matcher("BOM", p, &c.texts, &|t| capped(bom.find_all(t), t))?;
    let hp = Horspool::new(p);
    check_matcher("Horspool", p, &c.texts, &|t| capped(hp.find_all(t), t))?;
    let kmp = KMP::new(p);
    check_matcher("KMP", p, &c.texts, &|t| capped(kmp.find_all(t), t))?;

    let occs: Vec<Vec<usize>> = c.texts.iter().map(|t| naive_find(p, t)).collect();
    let any_occ = occs.iter().any(|o| !o.is_empty());
    let overlap = occs.iter().any(|o| o.windows(2).any(|w| w[1] - w[0] < m));
    let mut pass = Pass::new(any_occ && m >= 2);
    pass.add_if(m == 64, "m=64");
    pass.add_if((33..64).contains(&m), "m in 33..63");
    pass.add_if(m > 64, "m>64 (BOM/Horspool/KMP only)");
    pass.add_if(m == 1, "m=1");
    pass.add_if(c.texts.iter().any(|t| t.len() < m), "text shorter than pattern");
    pass.add_if(c.texts.iter().any(|t| t.is_empty()), "empty text");
    pass.add_if(overlap, "overlapping occurrences");
    pass.add_if(any_occ, "has occurrence");
    pass.add_if(!any_occ, "no occurrence");
    pass.add_if(c.texts.len() >= 2, "reuse on several texts");
    Ok(pass)
}

#[derive(Debug, Clone)]
enum Piece {
    Rand(Vec<u8>),
    Pat,
    Prefix(u16),
    Suffix(u16),
}

fn assemble(p: &[u8], pieces: &[Piece]) -> Vec<u8> {
    let mut t = Vec::new();
    for pc in pieces {
        match pc {
            Piece::Rand(v) => t.extend_from_slice(v),
            Piece::Pat => t.extend_from_slice(p),
            Piece::Prefix(f) => t.extend_from_slice(&p[..idx(*f, p.len())]),
            Piece::Suffix(f) => t.extend_from_slice(&p[idx(*f, p.len())..]),
        }
    }
    t
}

fn symbol(sigma: u16) -> BoxedStrategy<u8> {
    if sigma >= 256 {
        any::<u8>().boxed()
    } else {
        (0..sigma as u8).prop_map(|c| b'a' + c).boxed()
    }
}

fn pattern_len() -> BoxedStrategy<usize> {
    prop_oneof![
        4 => 1usize..=8,
        2 => 9usize..=30,
        2 => prop_oneof![Just(31usize), Just(32), Just(33), Just(62), Just(63)],
        3 => Just(64usize),
        1 => 34usize..=61,
        1 => 65usize..=70,
    ]
    .boxed()
}

fn pattern(sigma: u16) -> BoxedStrategy<Vec<u8>> {
    prop_oneof![
        // random
        3 => pattern_len().prop_flat_map(move |m| proptest::collection::vec(symbol(sigma), m)),
        // periodic: unit^k cut to length m, last symbol possibly changed
        3 => (pattern_len(), proptest::collection::vec(symbol(sigma), 1..=4), proptest::option::of(symbol(sigma)), any::<bool>()).prop_map(|(m, unit, last, front)| {
            let mut p: Vec<u8> = unit.iter().cycle().take(m).cloned().collect();
            if let Some(l) = last {
                if front { p[0] = l; } else { p[m - 1] = l; }
            }
            p
        }),
    ]
    .boxed()
}

fn text_for(p: Vec<u8>, sigma: u16) -> BoxedStrategy<Vec<u8>> {
    let piece = prop_oneof![
        3 => proptest::collection::vec(symbol(sigma), 0..=12).prop_map(Piece::Rand),
        3 => Just(Piece::Pat),
        2 => any::<u16>().prop_map(Piece::Prefix),
        2 => any::<u16>().prop_map(Piece::Suffix),
    ];
    proptest::collection::vec(piece, 0..=6)
        .prop_map(move |pcs| assemble(&p, &pcs))
        .boxed()
}

pub fn strat(_t: Tier) -> BoxedStrategy<Case> {
    prop_oneof![Just(1u16), Just(2), Just(2), Just(3), Just(4), Just(256)]
        .prop_flat_map(|sigma| pattern(sigma).prop_map(move |p| (sigma, p)))
        .prop_flat_map(|(sigma, p)| {
            let pp = p.clone();
            (Just(p), proptest::collection::vec(text_for(pp, sigma), 1..=3))
        })
        .prop_map(|(p, texts)| Case { pattern: B(p), texts: texts.into_iter().map(B).collect() })
        .boxed()
}

fn all_strings(sigma: u8, max_len: usize, min_len: usize) -> Vec<Vec<u8>> {
    let mut out = Vec::new();
    let mut cur: Vec<Vec<u8>> = vec![vec![]];
    if min_len == 0 {
        out.push(vec![]);
    }
    for l in 1..=max_len {
        let mut next = Vec::new();
        for s in &cur {
            for c in 0..sigma {
                let mut n = s.clone();
                n.push(b'a' + c);
                next.push(n);
            }
        }
        if l >= min_len {
            out.extend(next.iter().cloned());
        }
        cur = next;
    }
    out
}

fn enumerate(t: Tier) -> Box<dyn Iterator<Item = Case>> {
    let (pl, tl, pl3, tl3) = match t {
        Tier::Quick => (4, 8, 2, 5),
        Tier::Thorough => (5, 11, 3, 7),
    };
    let mut v = Vec::new();
    for (sigma, pl, tl) in [(2u8, pl, tl), (3u8, pl3, tl3)] {
        let pats = all_strings(sigma, pl, 1);
        let texts = all_strings(sigma, tl, 0);
        v.push((pats, texts));
    }
    Box::new(v.into_iter().flat_map(|(pats, texts)| {
        let texts = std::sync::Arc::new(texts);
        pats.into_iter().flat_map(move |p| {
            let texts = texts.clone();
            (0..texts.len()).map(move |i| Case { pattern: B(p.clone()), texts: vec![B(texts[i].clone())] })
        })
    }))
}

pub fn property() -> Property {
    Property {
        id: "C08",
        rule: "random: pattern (random or periodic, lengths forced to 1..8, 31..33, 62..64, 65..70) and 1-3 texts assembled from random chunks, whole copies, prefixes and suffixes of the pattern over alphabets of 1,2,3,4,256 symbols; exhaustive: every (pattern,text) over {a,b} / {a,b,c} up to the stated lengths. All five matchers are run on every case, one matcher object over all texts plus the first text again; oracle = naive window scan. Non-trivial = pattern length >= 2 and at least one occurrence; distinct = distinct serialised (pattern, texts).",
        assumptions: &["patterns are non-empty; ShiftAnd/BNDM are only given patterns of at most 64 symbols (documented limit)"],
        subs: vec![
            Box::new(PropSub { name: "C08/random", quick: 400_000, thorough: 6_000_000, shards_quick: 8, shards_thorough: 16, strat, check, must_reach: &["m=64", "overlapping occurrences", "text shorter than pattern", "m>64 (BOM/Horspool/KMP only)"], watch: false }),
            Box::new(ExhSub { name: "C08/exhaustive", enumerate, check, must_reach: &[] }),
        ],
    }
}
