//! C08 — exact pattern matchers return exactly all occurrences.

use crate::engine::gen::idx;
use crate::engine::*;
use crate::oracles::naive_find;
use crate::{ensure};
use bio::pattern_matching::{bndm::BNDM, bom::BOM, horspool::Horspool, kmp::KMP, shift_and::ShiftAnd};
use proptest::prelude::*;
use serde::{Deserialize, Serialize};

#[derive(Serialize, Deserialize, Debug, Clone)]
pub struct Case {
    pub pattern: B,
    /// the matcher is built once and applied to every text in order, then to the first one again
    pub texts: Vec<B>,
}

fn check_matcher(name: &str, p: &[u8], texts: &[B], find: &dyn Fn(&[u8]) -> Vec<usize>) -> Result<(), Stop> {
    let n = texts.len();
    for round in 0..=n {
        let t: &[u8] = if round == n { &texts[0] } else { &texts[round] };
        if round == n && n == 1 {
            // still repeat: same matcher, same text, second call
        }
        let expect = naive_find(p, t);
        let got = find(t);
        ensure!(
            got == expect,
            "{}: pattern {:?} (m={}) text {:?} (call #{} on the same matcher): got {:?}, expected {:?}",
            name,
            lossy(p),
            p.len(),
            lossy(t),
            round + 1,
            got,
            expect
        );
    }
    Ok(())
}

/// iterators are capped: more results than text positions would mean duplicates / no termination
fn capped<I: Iterator<Item = usize>>(it: I, t: &[u8]) -> Vec<usize> {
    it.take(t.len() + 2).collect()
}

pub fn check(c: &Case) -> R {
    let p: &[u8] = &c.pattern;
    ensure!(!p.is_empty() && !c.texts.is_empty(), "harness: empty pattern/texts generated");
    let m = p.len();
    /// the text as an iterator without an upper size hint (a streamed text: `size_hint` = (0, None))
    fn streamed<'a>(t: &'a [u8]) -> impl Iterator<Item = &'a u8> + 'a {
        let mut i = 0;
        std::iter::from_fn(move || {
            let r = t.get(i);
            i += 1;
            r
        })
    }
    if m <= 64 {
        let sa = ShiftAnd::new(p);
        check_matcher("ShiftAnd", p, &c.texts, &|t| capped(sa.find_all(t), t))?;
        check_matcher("ShiftAnd (text as an iterator without size hint)", p, &c.texts, &|t| capped(sa.find_all(streamed(t)), t))?;
        check_matcher("ShiftAnd (text as a chain of two halves)", p, &c.texts, &|t| capped(sa.find_all(t[..t.len() / 2].iter().chain(t[t.len() / 2..].iter())), t))?;
        check_matcher("ShiftAnd (text as owned u8 items)", p, &c.texts, &|t| capped(sa.find_all(t.iter().copied()), t))?;
        check_matcher("ShiftAnd (text as an iterator whose size_hint lower bound is below its length)", p, &c.texts, &|t| capped(sa.find_all(t[..t.len() / 3].iter().chain(t[t.len() / 3..].iter().filter(|_| true))), t))?;
        check_matcher("ShiftAnd (text as &Vec<u8>)", p, &c.texts, &|t| {
            let v = t.to_vec();
            let r = capped(sa.find_all(&v), t);
            r
        })?;
        let bn = BNDM::new(p);
        check_matcher("BNDM", p, &c.texts, &|t| capped(bn.find_all(t), t))?;
    }
    let bom = BOM::new(p);
    check_matcher("BOM", p, &c.texts, &|t| capped(bom.find_all(t), t))?;
    let hp = Horspool::new(p);
    check_matcher("Horspool", p, &c.texts, &|t| capped(hp.find_all(t), t))?;
    let kmp = KMP::new(p);
    check_matcher("KMP", p, &c.texts, &|t| capped(kmp.find_all(t), t))?;
    check_matcher("KMP (text as an iterator without size hint)", p, &c.texts, &|t| capped(kmp.find_all(streamed(t)), t))?;
    check_matcher("KMP (text as owned u8 items)", p, &c.texts, &|t| capped(kmp.find_all(t.iter().copied()), t))?;
    check_matcher("KMP (text as an iterator whose size_hint lower bound is below its length)", p, &c.texts, &|t| capped(kmp.find_all(t[..t.len() / 3].iter().chain(t[t.len() / 3..].iter().filter(|_| true))), t))?;
    check_matcher("KMP (text as a boxed iterator)", p, &c.texts, &|t| {
        let it: Box<dyn Iterator<Item = &u8>> = Box::new(t.iter());
        capped(kmp.find_all(it), t)
    })?;

    let occs: Vec<Vec<usize>> = c.texts.iter().map(|t| naive_find(p, t)).collect();
    let any_occ = occs.iter().any(|o| !o.is_empty());
    let overlap = occs.iter().any(|o| o.windows(2).any(|w| w[1] - w[0] < m));
    let mut pass = Pass::new(any_occ && m >= 2);
    pass.add_if(m == 64, "m=64");
    pass.add_if((33..64).contains(&m), "m in 33..63");
    pass.add_if(m > 64, "m>64 (BOM/Horspool/KMP only)");
    pass.add_if(m == 1, "m=1");
    pass.add_if(c.texts.iter().any(|t| t.len() < m), "text shorter than pattern");
    pass.add_if(c.texts.iter().any(|t| t.is_empty()), "empty text");
    pass.add_if(overlap, "overlapping occurrences");
    pass.add_if(any_occ, "has occurrence");
    pass.add_if(!any_occ, "no occurrence");
    pass.add_if(c.texts.len() >= 2, "reuse on several texts");
    Ok(pass)
}

#[derive(Debug, Clone)]
enum Piece {
    Rand(Vec<u8>),
    Pat,
    Prefix(u16),
    Suffix(u16),
}

fn assemble(p: &[u8], pieces: &[Piece]) -> Vec<u8> {
    let mut t = Vec::new();
    for pc in pieces {
        match pc {
            Piece::Rand(v) => t.extend_from_slice(v),
            Piece::Pat => t.extend_from_slice(p),
            Piece::Prefix(f) => t.extend_from_slice(&p[..idx(*f, p.len())]),
            Piece::Suffix(f) => t.extend_from_slice(&p[idx(*f, p.len())..]),
        }
    }
    t
}

fn symbol(sigma: u16) -> BoxedStrategy<u8> {
    if sigma >= 256 {
        any::<u8>().boxed()
    } else {
        (0..sigma as u8).prop_map(|c| b'a' + c).boxed()
    }
}

fn pattern_len() -> BoxedStrategy<usize> {
    prop_oneof![
        4 => 1usize..=8,
        2 => 9usize..=30,
        2 => prop_oneof![Just(31usize), Just(32), Just(33), Just(62), Just(63)],
        3 => Just(64usize),
        1 => 34usize..=61,
        1 => 65usize..=70,
    ]
    .boxed()
}

fn pattern(sigma: u16) -> BoxedStrategy<Vec<u8>> {
    prop_oneof![
        // random
        3 => pattern_len().prop_flat_map(move |m| proptest::collection::vec(symbol(sigma), m)),
        // periodic: unit^k cut to length m, last symbol possibly changed
        3 => (pattern_len(), proptest::collection::vec(symbol(sigma), 1..=4), proptest::option::of(symbol(sigma)), any::<bool>()).prop_map(|(m, unit, last, front)| {
            let mut p: Vec<u8> = unit.iter().cycle().take(m).cloned().collect();
            if let Some(l) = last {
                if front { p[0] = l; } else { p[m - 1] = l; }
            }
            p
        }),
    ]
    .boxed()
}

fn text_for(p: Vec<u8>, sigma: u16) -> BoxedStrategy<Vec<u8>> {
    let piece = prop_oneof![
        3 => proptest::collection::vec(symbol(sigma), 0..=12).prop_map(Piece::Rand),
        3 => Just(Piece::Pat),
        2 => any::<u16>().prop_map(Piece::Prefix),
        2 => any::<u16>().prop_map(Piece::Suffix),
    ];
    proptest::collection::vec(piece, 0..=6)
        .prop_map(move |pcs| assemble(&p, &pcs))
        .boxed()
}

pub fn strat(_t: Tier) -> BoxedStrategy<Case> {
    prop_oneof![Just(1u16), Just(2), Just(2), Just(3), Just(4), Just(256)]
        .prop_flat_map(|sigma| pattern(sigma).prop_map(move |p| (sigma, p)))
        .prop_flat_map(|(sigma, p)| {
            let pp = p.clone();
            (Just(p), proptest::collection::vec(text_for(pp, sigma), 1..=3))
        })
        .prop_map(|(p, texts)| Case { pattern: B(p), texts: texts.into_iter().map(B).collect() })
        .boxed()
}

fn all_strings(sigma: u8, max_len: usize, min_len: usize) -> Vec<Vec<u8>> {
    let mut out = Vec::new();
    let mut cur: Vec<Vec<u8>> = vec![vec![]];
    if min_len == 0 {
        out.push(vec![]);
    }
    for l in 1..=max_len {
        let mut next = Vec::new();
        for s in &cur {
            for c in 0..sigma {
                let mut n = s.clone();
                n.push(b'a' + c);
                next.push(n);
            }
        }
        if l >= min_len {
            out.extend(next.iter().cloned());
        }
        cur = next;
    }
    out
}

fn enumerate(t: Tier) -> Box<dyn Iterator<Item = Case>> {
    let (pl, tl, pl3, tl3) = match t {
        Tier::Quick => (4, 8, 2, 5),
        Tier::Thorough => (5, 11, 3, 7),
    };
    let mut v = Vec::new();
    for (sigma, pl, tl) in [(2u8, pl, tl), (3u8, pl3, tl3)] {
        let pats = all_strings(sigma, pl, 1);
        let texts = all_strings(sigma, tl, 0);
        v.push((pats, texts));
    }
    Box::new(v.into_iter().flat_map(|(pats, texts)| {
        let texts = std::sync::Arc::new(texts);
        pats.into_iter().flat_map(move |p| {
            let texts = texts.clone();
            (0..texts.len()).map(move |i| Case { pattern: B(p.clone()), texts: vec![B(texts[i].clone())] })
        })
    }))
}


// ---------------------------------------------------------------------------
// large scale: pattern lengths across the threshold ladder (255..257 ... 65535..65537), structured
// and random patterns, texts with planted occurrences at arbitrary offsets and overlaps

pub mod large {
    use super::*;
    use crate::oracles::prng::{ladder_label, Sm, LADDER};
    use crate::oracles::z_find;

    #[derive(Serialize, Deserialize, Debug, Clone)]
    pub struct Case {
        /// pattern length
        pub m: usize,
        /// 0 random, 1 periodic (unit 1..4), 2 distinct head + homopolymer + distinct tail,
        /// 3 homopolymer + distinct last symbol, 4 nested borders (aab)^k a.., 5 all 256 byte values cycling
        pub kind: u8,
        pub sigma: u16,
        pub seed: u64,
        /// lengths of the filler stretches between planted copies (in units scaled by the pattern length: len = gap * m / 64)
        pub gaps: Vec<u16>,
        /// for each planted copy after the first: overlap with the previous copy as a fraction of the pattern's period structure (0 = none)
        pub overlaps: Vec<u16>,
        /// filler: 0 random over the alphabet, 1 a constant symbol that does not occur in the pattern, 2 the pattern's first symbol repeated
        pub filler: u8,
    }

    pub fn pattern(c: &Case) -> Vec<u8> {
        let mut g = Sm::new(c.seed);
        let m = c.m;
        match c.kind {
            0 => g.bytes(m, c.sigma, b'a'),
            1 => {
                let u = 1 + g.below(4) as usize;
                let unit = g.bytes(u, c.sigma.min(4), b'a');
                unit.iter().cycle().take(m).cloned().collect()
            }
            2 => {
                let mut p = vec![b'a'; m];
                p[0] = b'x';
                p[m - 1] = b'b';
                p
            }
            3 => {
                let mut p = vec![b'a'; m];
                p[m - 1] = b'b';
                p
            }
            4 => {
                let mut p: Vec<u8> = b"aab".iter().cycle().take(m).cloned().collect();
                let k = (m / 5).max(1);
                for x in p.iter_mut().rev().take(k) {
                    *x = b'a';
                }
                p
            }
            _ => (0..m).map(|i| (i % 256) as u8).collect(),
        }
    }

    pub fn text(c: &Case, p: &[u8]) -> Vec<u8> {
        let mut g = Sm::new(c.seed ^ 0xabcdef);
        let m = p.len();
        let mut t = Vec::new();
        for (i, gap) in c.gaps.iter().enumerate() {
            let len = (*gap as usize * m) / 64;
            match c.filler {
                0 => t.extend(g.bytes(len, c.sigma, b'a')),
                1 => t.extend(std::iter::repeat(b'~').take(len)),
                _ => t.extend(std::iter::repeat(p[0]).take(len)),
            }
            // planted copy, possibly overlapping the previous one (only meaningful directly after a copy)
            let ov = if len == 0 && i > 0 { crate::engine::gen::idx(c.overlaps.get(i).copied().unwrap_or(0), m - 1) } else { 0 };
            if ov > 0 && t.len() >= ov && t[t.len() - ov..] == p[..ov] {
                t.extend_from_slice(&p[ov..]);
            } else {
                t.extend_from_slice(p);
            }
        }
        t
    }

    pub fn check(c: &Case) -> R {
        ensure!(c.m >= 1 && c.m <= 140_000 && c.gaps.len() <= 8, "harness: case outside the large-scale domain");
        let p = pattern(c);
        let t = text(c, &p);
        let expect = z_find(&p, &t);
        // the linear-time oracle is itself cross-checked on a prefix window
        if p.len() <= 300 && t.len() <= 3000 {
            let naive = naive_find(&p, &t);
            ensure!(naive == expect, "harness oracle self-check failed (z_find vs naive) for m={} — not a finding about rust-bio", p.len());
        }
        let what = |name: &str, got: &[usize]| format!("{} with pattern length {} (kind {}, sigma {}, seed {}) on a text of {} symbols: got {} occurrences {:?}.., expected {} occurrences {:?}..", name, p.len(), c.kind, c.sigma, c.seed, t.len(), got.len(), &got[..got.len().min(6)], expect.len(), &expect[..expect.len().min(6)]);
        let cap = t.len() + 2;
        // Horspool and BOM are quadratic in the worst case (window verification of O(m) at O(n) positions:
        // many overlapping occurrences, or a filler equal to the pattern's homopolymer body). Such inputs
        // are legitimate but would take minutes at these sizes; only the linear-time KMP is run on them.
        let est = if c.filler == 2 { t.len() as u64 * p.len() as u64 } else { (expect.len() as u64 + c.gaps.len() as u64) * p.len() as u64 };
        let heavy = est > 150_000_000;
        if heavy {
            let kmp = KMP::new(&p);
            let got: Vec<usize> = kmp.find_all(t.iter()).take(cap).collect();
            ensure!(got == expect, "{}", what("KMP", &got));
            let mut pass = Pass::new(!expect.is_empty());
            if let Some(l) = ladder_label(c.m) {
                pass.add(l);
            }
            pass.add("quadratic worst case for Horspool/BOM: KMP only");
            return Ok(pass);
        }
        // BOM allocates one table row per pattern symbol, each as wide as the largest symbol value
        if c.m <= 20_000 {
            let bom = BOM::new(&p[..]);
            let got: Vec<usize> = bom.find_all(&t).take(cap).collect();
            ensure!(got == expect, "{}", what("BOM", &got));
        }
        let hp = Horspool::new(&p);
        let got: Vec<usize> = hp.find_all(&t).take(cap).collect();
        ensure!(got == expect, "{}", what("Horspool", &got));
        let kmp = KMP::new(&p);
        let got: Vec<usize> = kmp.find_all(t.iter()).take(cap).collect();
        ensure!(got == expect, "{}", what("KMP", &got));
        // reuse: second text = first half
        let half = &t[..t.len() / 2];
        let e2 = z_find(&p, half);
        let got: Vec<usize> = hp.find_all(half).take(cap).collect();
        ensure!(got == e2, "Horspool reused on a second text: {} vs {} occurrences (m={})", got.len(), e2.len(), p.len());
        let got: Vec<usize> = kmp.find_all(half.iter()).take(cap).collect();
        ensure!(got == e2, "KMP reused on a second text: {} vs {} occurrences (m={})", got.len(), e2.len(), p.len());
        let mut pass = Pass::new(!expect.is_empty());
        if let Some(l) = ladder_label(c.m) {
            pass.add(l);
        }
        pass.add_if(c.m > 256, "pattern longer than 256");
        pass.add_if(c.m > 65536, "pattern longer than 65536");
        pass.add_if(expect.windows(2).any(|w| w[1] - w[0] < p.len()), "overlapping occurrences");
        pass.add_if(expect.len() >= 2, "several occurrences");
        pass.add_if(c.m <= 20_000, "BOM included");
        match c.kind {
            0 => pass.add("random pattern"),
            1 => pass.add("periodic pattern"),
            2 => pass.add("distinct head and tail around a homopolymer"),
            3 => pass.add("homopolymer with distinct last symbol"),
            4 => pass.add("nested borders"),
            _ => pass.add("all byte values"),
        }
        Ok(pass)
    }

    pub fn strat(_t: Tier) -> BoxedStrategy<Case> {
        let m = prop_oneof![
            6 => proptest::sample::select(LADDER.to_vec()),
            2 => 258usize..=1100,
            1 => 1100usize..=9000,
        ];
        (m, 0u8..=5, prop_oneof![Just(2u16), Just(4), Just(256)], any::<u64>(), proptest::collection::vec(prop_oneof![2 => Just(0u16), 3 => 0u16..=64, 2 => 64u16..=200], 1..=5), proptest::collection::vec(any::<u16>(), 5), 0u8..=2)
            .prop_map(|(m, kind, sigma, seed, gaps, overlaps, filler)| Case { m, kind, sigma, seed, gaps, overlaps, filler })
            .boxed()
    }
}

pub fn property() -> Property {
    Property {
        id: "C08",
        rule: "random: pattern (random or periodic, lengths forced to 1..8, 31..33, 62..64, 65..70) and 1-3 texts assembled from random chunks, whole copies, prefixes and suffixes of the pattern over alphabets of 1,2,3,4,256 symbols; exhaustive: every (pattern,text) over {a,b} / {a,b,c} up to the stated lengths. All five matchers are run on every case, one matcher object over all texts plus the first text again; oracle = naive window scan. Non-trivial = pattern length >= 2 and at least one occurrence; distinct = distinct serialised (pattern, texts).",
        assumptions: &["patterns are non-empty; ShiftAnd/BNDM are only given patterns of at most 64 symbols (documented limit)"],
        subs: vec![
            Box::new(PropSub { name: "C08/random", quick: 1_200_000, thorough: 6_000_000, shards_quick: 16, shards_thorough: 16, strat, check, must_reach: &["m=64", "overlapping occurrences", "text shorter than pattern", "m>64 (BOM/Horspool/KMP only)"], watch: false }),
            Box::new(PropSub { name: "C08/large", quick: 800, thorough: 40_000, shards_quick: 16, shards_thorough: 16, strat: large::strat, check: large::check, must_reach: &["size in 255..257", "size in 511..513", "size in 4095..4097", "size in 8191..8193", "size in 65535..65537", "size in 131071..131073", "pattern longer than 65536", "overlapping occurrences", "distinct head and tail around a homopolymer", "BOM included"], watch: true }),
            Box::new(ExhSub { name: "C08/exhaustive", enumerate, check, must_reach: &[] }),
        ],
    }
}
