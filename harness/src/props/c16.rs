//! C16 — partial-order alignment: exact on linear graphs, the graph stays a growing DAG,
//! consensus is a path of the graph.
//!
//! Operation semantics of `poa::AlignmentOperation` (read from poa.rs, `Traceback::alignment`
//! and `Poa::add_alignment`):
//!   Match(None)          consumes a graph node without predecessors (on a linear graph: node 0)
//!                        and one query symbol
//!   Match(Some((p, c)))  consumes graph node `c` (reached from predecessor `p`) and one query symbol
//!   Del(None|Some(..))   consumes one graph node, no query symbol (second tuple element of `Del`
//!                        is row index, not node index: not interpreted here)
//!   Ins(None|Some(..))   consumes one query symbol, no graph node
//!   Xclip / Yclip        skip graph nodes / query symbols: must not occur in a global alignment
//! The operation list is private; it is observed through the derived `Serialize` of
//! `poa::Alignment` and decoded with the derived `Deserialize` of the public operation enum.

use crate::engine::gen::{apply_edits, edit, seq, Edit};
use crate::engine::*;
use crate::{ensure, fail};
use bio::alignment::pairwise::{MatchFunc, Scoring};
use bio::alignment::poa::{Aligner, Alignment, AlignmentOperation, POAGraph};
use proptest::prelude::*;
use serde::{Deserialize, Serialize};
use std::collections::BTreeMap;

// ---------------------------------------------------------------------------
// scoring

#[derive(Serialize, Deserialize, Debug, Clone)]
pub enum Score {
    /// match / mismatch score
    Simple { m: i32, x: i32 },
    /// symmetric sigma x sigma table over the letters 'a'.. (row-major)
    Table { sigma: u8, t: Vec<i32> },
}

impl Score {
    fn s(&self, a: u8, b: u8) -> i32 {
        match self {
            Score::Simple { m, x } => {
                if a == b {
                    *m
                } else {
                    *x
                }
            }
            Score::Table { sigma, t } => {
                let (i, j) = ((a - b'a') as usize, (b - b'a') as usize);
                t[i * (*sigma as usize) + j]
            }
        }
    }
    /// every symbol of `s` is covered by the scoring
    fn covers(&self, s: &[u8]) -> bool {
        match self {
            Score::Simple { .. } => true,
            Score::Table { sigma, t } => {
                t.len() == (*sigma as usize).pow(2) && s.iter().all(|&c| c >= b'a' && c < b'a' + *sigma)
            }
        }
    }
    /// equal symbols score >= 1, different symbols <= 0: then, with a gap penalty <= 0, the
    /// gap-free alignment of a sequence with itself is the *unique* optimal alignment (any other
    /// alignment leaves a reference position unpaired and loses its positive contribution)
    fn identity_unique(&self) -> bool {
        match self {
            Score::Simple { m, x } => *m >= 1 && *x <= 0,
            Score::Table { sigma, t } => {
                let n = *sigma as usize;
                (0..n).all(|i| (0..n).all(|j| if i == j { t[i * n + j] >= 1 } else { t[i * n + j] <= 0 }))
            }
        }
    }
    fn is_table(&self) -> bool {
        matches!(self, Score::Table { .. })
    }
    fn is_symmetric(&self) -> bool {
        match self {
            Score::Simple { .. } => true,
            Score::Table { sigma, t } => {
                let n = *sigma as usize;
                (0..n).all(|i| (0..n).all(|j| t[i * n + j] == t[j * n + i]))
            }
        }
    }
    /// the same scoring with the two arguments exchanged
    fn transposed(&self) -> Score {
        match self {
            Score::Simple { .. } => self.clone(),
            Score::Table { sigma, t } => {
                let n = *sigma as usize;
                let mut u = t.clone();
                for i in 0..n {
                    for j in 0..n {
                        u[i * n + j] = t[j * n + i];
                    }
                }
                Score::Table { sigma: *sigma, t: u }
            }
        }
    }
}

#[derive(Clone, Debug)]
struct MF(Score);
impl MatchFunc for MF {
    fn score(&self, a: u8, b: u8) -> i32 {
        self.0.s(a, b)
    }
}

fn aligner(score: &Score, gap: i32, gap_extend: i32, reference: &[u8]) -> Aligner<MF> {
    Aligner::new(Scoring::new(gap, gap_extend, MF(score.clone())), reference)
}

/// textbook Needleman-Wunsch with a linear (per-base) gap penalty
fn nw(r: &[u8], q: &[u8], sc: &Score, gap: i32) -> i64 {
    let (m, n) = (r.len(), q.len());
    let g = gap as i64;
    let mut prev: Vec<i64> = (0..=n as i64).map(|j| j * g).collect();
    for i in 1..=m {
        let mut cur = vec![0i64; n + 1];
        cur[0] = i as i64 * g;
        for j in 1..=n {
            let d = prev[j - 1] + sc.s(r[i - 1], q[j - 1]) as i64;
            let u = prev[j] + g;
            let l = cur[j - 1] + g;
            cur[j] = d.max(u).max(l);
        }
        prev = cur;
    }
    prev[n]
}

/// read the private operation list through the derived Serialize impl
fn ops_of(a: &Alignment) -> Result<Vec<AlignmentOperation>, String> {
    let v = serde_json::to_value(a).map_err(|e| format!("observation lost: poa::Alignment does not serialise: {}", e))?;
    let score = v.get("score").and_then(|s| s.as_i64());
    if score != Some(a.score as i64) {
        return Err(format!("observation lost: serialised alignment has no matching `score` field: {}", v));
    }
    let ops = v.get("operations").ok_or_else(|| format!("observation lost: serialised alignment has no `operations` field: {}", v))?;
    serde_json::from_value::<Vec<AlignmentOperation>>(ops.clone())
        .map_err(|e| format!("observation lost: operation list {} does not decode: {}", ops, e))
}

struct Walk {
    score: i64,
    gaps: usize,
}

/// the operations must consume reference (a linear graph: node index = position) and query
/// exactly, left to right
fn validate_linear(ops: &[AlignmentOperation], r: &[u8], q: &[u8], sc: &Score, gap: i32) -> Result<Walk, String> {
    let (mut gi, mut qi) = (0usize, 0usize);
    let mut score = 0i64;
    let mut gaps = 0usize;
    for (k, op) in ops.iter().enumerate() {
        match *op {
            AlignmentOperation::Match(m) => {
                let node = match m {
                    None => 0,
                    Some((_, c)) => c,
                };
                if node != gi {
                    return Err(format!("op #{} {:?} refers to graph node {} but the next unconsumed reference position is {}", k, op, node, gi));
                }
                if gi >= r.len() || qi >= q.len() {
                    return Err(format!("op #{} {:?} runs past the end (reference pos {}, query pos {})", k, op, gi, qi));
                }
                score += sc.s(r[gi], q[qi]) as i64;
                gi += 1;
                qi += 1;
            }
            AlignmentOperation::Del(_) => {
                if gi >= r.len() {
                    return Err(format!("op #{} {:?} deletes past the end of the reference", k, op));
                }
                score += gap as i64;
                gaps += 1;
                gi += 1;
            }
            AlignmentOperation::Ins(_) => {
                if qi >= q.len() {
                    return Err(format!("op #{} {:?} inserts past the end of the query", k, op));
                }
                score += gap as i64;
                gaps += 1;
                qi += 1;
            }
            AlignmentOperation::Xclip(_) | AlignmentOperation::Yclip(_, _) => {
                return Err(format!("op #{} {:?}: clipping operation in a global alignment", k, op));
            }
        }
    }
    if gi != r.len() || qi != q.len() {
        return Err(format!("operations consume {} of {} reference and {} of {} query symbols", gi, r.len(), qi, q.len()));
    }
    Ok(Walk { score, gaps })
}

// ---------------------------------------------------------------------------
// sub-check 1: linear graph

pub mod linear {
    use super::*;

    #[derive(Serialize, Deserialize, Debug, Clone)]
    pub struct Case {
        pub reference: B,
        pub query: B,
        pub score: Score,
        /// per-base gap penalty (`gap_open` of the Scoring), <= 0
        pub gap: i32,
        /// documented as unused by poa; arbitrary <= 0
        pub gap_extend: i32,
        /// bandwidth of the banded run = max(|reference|, |query|) + band_extra
        pub band_extra: usize,
    }

    pub fn check(c: &Case) -> R {
        let (r, q): (&[u8], &[u8]) = (&c.reference, &c.query);
        ensure!(!r.is_empty() && !q.is_empty(), "harness: empty reference/query generated");
        ensure!(c.gap <= 0 && c.gap_extend <= 0, "harness: positive gap penalty generated");
        ensure!(c.score.covers(r) && c.score.covers(q), "harness: symbols outside the score table");
        ensure!(!r.contains(&b'X') && !q.contains(&b'X'), "harness: wildcard X generated");
        // The substitution function is called as f(reference symbol, query symbol) or the other way
        // round: the property does not fix the convention, but ONE convention must hold for the
        // whole computation. For asymmetric tables both optima are computed and the one the global
        // score matches is then demanded of the path and of the banded run.
        let expect_rq = nw(r, q, &c.score, c.gap);
        let transposed = c.score.transposed();
        let expect_qr = nw(r, q, &transposed, c.gap);

        let mut al = aligner(&c.score, c.gap, c.gap_extend, r);
        let a = al.global(q).alignment();
        ensure!(
            a.score as i64 == expect_rq || a.score as i64 == expect_qr,
            "global: reference {:?} query {:?} scoring {:?} gap {}: score {} but the Needleman-Wunsch optimum is {} (function applied as f(reference, query)) or {} (as f(query, reference))",
            lossy(r), lossy(q), c.score, c.gap, a.score, expect_rq, expect_qr
        );
        let (expect, conv_score) = if a.score as i64 == expect_rq { (expect_rq, c.score.clone()) } else { (expect_qr, transposed.clone()) };
        let c_score_for_path = conv_score;
        let ops = match ops_of(&a) {
            Ok(o) => o,
            Err(e) => fail!("{}", e),
        };
        let walk = match validate_linear(&ops, r, q, &c_score_for_path, c.gap) {
            Ok(w) => w,
            Err(e) => fail!("global: reference {:?} query {:?} scoring {:?} gap {}: operations {:?} are not an alignment of the query to the reference: {}", lossy(r), lossy(q), c.score, c.gap, ops, e),
        };
        ensure!(
            walk.score == a.score as i64,
            "global: reference {:?} query {:?} scoring {:?} gap {}: operations {:?} recompute to {} but the reported score is {}",
            lossy(r), lossy(q), c.score, c.gap, ops, walk.score, a.score
        );

        let bw = r.len().max(q.len()) + c.band_extra;
        let b = al.global_banded(q, bw).alignment();
        ensure!(
            b.score as i64 == expect,
            "global_banded(bandwidth {}): reference {:?} query {:?} scoring {:?} gap {}: score {} but Needleman-Wunsch optimum (and unbanded score) is {}",
            bw, lossy(r), lossy(q), c.score, c.gap, b.score, expect
        );
        // a fresh aligner (no previous traceback) must agree as well
        let mut al2 = aligner(&c.score, c.gap, c.gap_extend, r);
        let b2 = al2.global_banded(q, bw).alignment();
        ensure!(
            b2.score as i64 == expect,
            "global_banded(bandwidth {}) on a fresh aligner: reference {:?} query {:?} scoring {:?} gap {}: score {} but optimum is {}",
            bw, lossy(r), lossy(q), c.score, c.gap, b2.score, expect
        );

        let differs = r != q;
        let mut pass = Pass::new(differs && walk.gaps >= 1);
        pass.add_if(!differs, "query identical to reference");
        pass.add_if(differs && walk.gaps >= 1, "query != reference, gap in optimal alignment");
        pass.add_if(differs && walk.gaps == 0, "query != reference, substitutions only");
        pass.add_if(r.len() == 1, "reference length 1");
        pass.add_if(q.len() == 1, "query length 1");
        pass.add_if(r.len() != q.len(), "lengths differ");
        pass.add_if(c.gap == 0, "gap penalty 0");
        pass.add_if(c.score.is_table(), "table scoring");
        pass.add_if(!c.score.is_symmetric() && expect_rq != expect_qr, "asymmetric table: argument order matters");
        pass.add_if(c.band_extra == 0, "bandwidth = max(lengths)");
        pass.add_if(expect < 0, "negative optimum");
        pass.add_if(walk.gaps >= 3, ">=3 gap columns");
        Ok(pass)
    }

    pub fn strat(_t: Tier) -> BoxedStrategy<Case> {
        prop_oneof![1 => Just(1u8), 4 => Just(2u8), 3 => Just(3u8)]
            .prop_flat_map(|sigma| {
                let reference = prop_oneof![1 => seq(sigma, b'a', 1..=1), 8 => seq(sigma, b'a', 2..=14), 1 => seq(sigma, b'a', 15..=40)];
                (
                    reference,
                    query_spec(sigma),
                    score(sigma),
                    -3i32..=0,
                    -5i32..=0,
                    prop_oneof![3 => Just(0usize), 2 => 1usize..=4],
                )
            })
            .prop_map(|(r, qs, score, gap, gap_extend, band_extra)| {
                let q = realise(&r, &qs);
                Case { reference: B(r), query: B(q), score, gap, gap_extend, band_extra }
            })
            .boxed()
    }

    fn all_strings(max_len: usize) -> Vec<Vec<u8>> {
        let mut out = Vec::new();
        for l in 1..=max_len {
            for bits in 0..(1u32 << l) {
                out.push((0..l).map(|k| b'a' + ((bits >> k) & 1) as u8).collect());
            }
        }
        out
    }

    pub fn enumerate(t: Tier) -> Box<dyn Iterator<Item = Case>> {
        let max_len = match t {
            Tier::Quick => 4,
            Tier::Thorough => 6,
        };
        let strings = std::sync::Arc::new(all_strings(max_len));
        // (match, mismatch, gap)
        let scorings: Vec<(i32, i32, i32)> = vec![(1, -1, -1), (2, -1, -2), (1, 0, 0), (0, 0, -1), (3, -3, -1), (1, -3, 0), (0, -1, 0)];
        let n = strings.len();
        Box::new(scorings.into_iter().flat_map(move |(m, x, g)| {
            let strings = strings.clone();
            (0..n * n).map(move |k| Case {
                reference: B(strings[k / n].clone()),
                query: B(strings[k % n].clone()),
                score: Score::Simple { m, x },
                gap: g,
                gap_extend: -1,
                band_extra: 0,
            })
        }))
    }
}

// ---------------------------------------------------------------------------
// generators shared by both sub-checks

#[derive(Debug, Clone)]
enum QSpec {
    Same,
    Edits(Vec<Edit>),
    Rand(Vec<u8>),
}

fn query_spec(sigma: u8) -> BoxedStrategy<QSpec> {
    prop_oneof![
        2 => Just(QSpec::Same),
        5 => proptest::collection::vec(edit(sigma, b'a'), 1..=4).prop_map(QSpec::Edits),
        2 => seq(sigma, b'a', 1..=14).prop_map(QSpec::Rand),
        1 => seq(sigma, b'a', 1..=1).prop_map(QSpec::Rand),
    ]
    .boxed()
}

fn realise(reference: &[u8], qs: &QSpec) -> Vec<u8> {
    let mut q = match qs {
        QSpec::Same => reference.to_vec(),
        QSpec::Edits(e) => apply_edits(reference, e),
        QSpec::Rand(v) => v.clone(),
    };
    if q.is_empty() {
        q.push(b'a');
    }
    q
}

fn score(sigma: u8) -> BoxedStrategy<Score> {
    let n = sigma as usize;
    prop_oneof![
        3 => (0i32..=3, -3i32..=0).prop_map(|(m, x)| Score::Simple { m, x }),
        // symmetric table, arbitrary entries
        1 => proptest::collection::vec(-3i32..=3, n * n).prop_map(move |v| symmetric(sigma, v)),
        // asymmetric table, arbitrary entries
        1 => proptest::collection::vec(-3i32..=3, n * n).prop_map(move |v| Score::Table { sigma, t: v }),
        // symmetric table, positive diagonal, non-positive elsewhere
        1 => (proptest::collection::vec(1i32..=3, n), proptest::collection::vec(-3i32..=0, n * n)).prop_map(move |(d, mut v)| {
            for i in 0..n {
                v[i * n + i] = d[i];
            }
            symmetric(sigma, v)
        }),
    ]
    .boxed()
}

fn strict_score(sigma: u8) -> BoxedStrategy<Score> {
    let n = sigma as usize;
    prop_oneof![
        1 => (1i32..=3, -3i32..=0).prop_map(|(m, x)| Score::Simple { m, x }),
        1 => (proptest::collection::vec(1i32..=3, n), proptest::collection::vec(-3i32..=0, n * n)).prop_map(move |(d, mut v)| {
            for i in 0..n {
                v[i * n + i] = d[i];
            }
            symmetric(sigma, v)
        }),
    ]
    .boxed()
}

fn symmetric(sigma: u8, mut v: Vec<i32>) -> Score {
    let n = sigma as usize;
    for i in 0..n {
        for j in 0..i {
            v[i * n + j] = v[j * n + i];
        }
    }
    Score::Table { sigma, t: v }
}

// ---------------------------------------------------------------------------
// sub-check 2: histories of align-and-add operations

pub mod history {
    use super::*;

    #[derive(Serialize, Deserialize, Debug, Clone)]
    pub struct Step {
        pub query: B,
        /// None: `global`; Some(e): `global_banded` with bandwidth = node count + |query| + e
        pub banded: Option<usize>,
        /// calls through the other entry points made on the same aligner immediately before this step's
        /// alignment, results ignored (0: semiglobal, 1: local, 2: custom, 3: global, each with the reversed
        /// query): what the aligner computed before must not leak into the next alignment
        #[serde(default)]
        pub prelude: Vec<u8>,
    }

    #[derive(Serialize, Deserialize, Debug, Clone)]
    pub struct Case {
        pub reference: B,
        pub score: Score,
        pub gap: i32,
        pub gap_extend: i32,
        pub steps: Vec<Step>,
    }

    struct Snap {
        labels: Vec<u8>,
        /// (source, target) -> summed weight
        edges: BTreeMap<(usize, usize), i64>,
    }

    fn snap(g: &POAGraph) -> Snap {
        let labels = g.raw_nodes().iter().map(|n| n.weight).collect();
        let mut edges = BTreeMap::new();
        for e in g.raw_edges() {
            *edges.entry((e.source().index(), e.target().index())).or_insert(0i64) += e.weight as i64;
        }
        Snap { labels, edges }
    }

    /// Kahn's algorithm on the raw edge list
    fn acyclic(s: &Snap) -> bool {
        let n = s.labels.len();
        let mut indeg = vec![0usize; n];
        let mut succ: Vec<Vec<usize>> = vec![Vec::new(); n];
        for &(a, b) in s.edges.keys() {
            if a >= n || b >= n {
                return false;
            }
            indeg[b] += 1;
            succ[a].push(b);
        }
        let mut stack: Vec<usize> = (0..n).filter(|&i| indeg[i] == 0).collect();
        let mut seen = 0;
        while let Some(v) = stack.pop() {
            seen += 1;
            for &w in &succ[v] {
                indeg[w] -= 1;
                if indeg[w] == 0 {
                    stack.push(w);
                }
            }
        }
        seen == n
    }

    /// is `word` spelled by some path of the graph (set-of-states walk)
    fn spelled_by_path(s: &Snap, word: &[u8]) -> bool {
        let n = s.labels.len();
        let mut cur: Vec<bool> = (0..n).map(|i| s.labels[i] == word[0]).collect();
        for &c in &word[1..] {
            let mut next = vec![false; n];
            for &(a, b) in s.edges.keys() {
                if cur[a] && s.labels[b] == c {
                    next[b] = true;
                }
            }
            cur = next;
        }
        cur.iter().any(|&x| x)
    }

    fn describe(c: &Case, upto: usize) -> String {
        let qs: Vec<String> = c.steps[..upto]
            .iter()
            .map(|s| match s.banded {
                None => format!("{}global({:?})", if s.prelude.is_empty() { String::new() } else { format!("[other entry points {:?} on the reversed query] ", s.prelude) }, lossy(&s.query)),
                Some(e) => format!("{}global_banded({:?},+{})", if s.prelude.is_empty() { String::new() } else { format!("[other entry points {:?} on the reversed query] ", s.prelude) }, lossy(&s.query), e),
            })
            .collect();
        format!("reference {:?} scoring {:?} gap {} after [{}]", lossy(&c.reference), c.score, c.gap, qs.join(", "))
    }

    fn check_consensus(c: &Case, upto: usize, al: &Aligner<MF>, s: &Snap) -> Result<Vec<u8>, Stop> {
        let cons = match catch(|| al.consensus()) {
            Ok(v) => v,
            Err(p) => fail!("{}: consensus() panicked: {} (graph: {} nodes, {} edges)", describe(c, upto), p, s.labels.len(), s.edges.len()),
        };
        ensure!(!cons.is_empty(), "{}: consensus is empty", describe(c, upto));
        ensure!(
            spelled_by_path(s, &cons),
            "{}: consensus {:?} is not spelled by any path of the graph (labels {:?}, edges {:?})",
            describe(c, upto), lossy(&cons), lossy(&s.labels), s.edges
        );
        Ok(cons)
    }

    pub fn check(c: &Case) -> R {
        let r: &[u8] = &c.reference;
        ensure!(!r.is_empty() && c.steps.iter().all(|s| !s.query.is_empty()), "harness: empty reference/query generated");
        ensure!(c.gap <= 0 && c.gap_extend <= 0, "harness: positive gap penalty generated");
        ensure!(c.score.covers(r) && c.steps.iter().all(|s| c.score.covers(&s.query)), "harness: symbols outside the score table");
        ensure!(!r.contains(&b'X') && c.steps.iter().all(|s| !s.query.contains(&b'X')), "harness: wildcard X generated");

        let mut al = aligner(&c.score, c.gap, c.gap_extend, r);
        let mut before = snap(al.graph());
        ensure!(before.labels == r, "{}: node labels {:?} of the initial graph differ from the reference", describe(c, 0), lossy(&before.labels));
        // the empty series: consensus of the reference-only graph
        let cons0 = check_consensus(c, 0, &al, &before)?;
        ensure!(cons0 == r, "{}: consensus {:?} of the reference-only graph differs from the reference", describe(c, 0), lossy(&cons0));

        let strict = c.score.identity_unique();
        let mut all_same = true;
        let mut pass = Pass::new(c.steps.len() >= 2);
        for (k, st) in c.steps.iter().enumerate() {
            let q: &[u8] = &st.query;
            if !st.prelude.is_empty() {
                let rq: Vec<u8> = q.iter().rev().copied().collect();
                for &e in &st.prelude {
                    let _ = match e % 4 {
                        0 => al.semiglobal(&rq).alignment().score,
                        1 => al.local(&rq).alignment().score,
                        2 => al.custom(&rq).alignment().score,
                        _ => al.global(&rq).alignment().score,
                    };
                }
                pass.add("other entry points called before the step's alignment");
                pass.add_if(st.banded.is_some() && st.prelude.last().map_or(false, |e| e % 4 < 2), "semiglobal/local immediately before global_banded");
            }
            let a = match st.banded {
                None => al.global(q).alignment(),
                Some(e) => al.global_banded(q, before.labels.len() + q.len() + e).alignment(),
            };
            // while the graph still is the plain chain of the reference (only copies of it were absorbed)
            // it is "a graph built from one sequence": the score must be the Needleman-Wunsch optimum,
            // whatever the aligner object did before
            let chain = before.labels == r && before.edges.len() + 1 == r.len() && (0..r.len().saturating_sub(1)).all(|i| before.edges.contains_key(&(i, i + 1)));
            if chain {
                let e1 = nw(r, q, &c.score, c.gap);
                let e2 = nw(r, q, &c.score.transposed(), c.gap);
                ensure!(
                    a.score as i64 == e1 || a.score as i64 == e2,
                    "{}: the graph is still the chain of the reference, but aligning query {:?} ({}) scores {} instead of the Needleman-Wunsch optimum {}",
                    describe(c, k), lossy(q), if st.banded.is_some() { "global_banded" } else { "global" }, a.score, e1
                );
                pass.add("score checked on a chain graph inside a history");
                pass.add_if(k > 0, "score checked on a chain graph after earlier additions");
            }
            al.add_to_graph();
            let after = snap(al.graph());
            let upto = k + 1;
            ensure!(acyclic(&after), "{}: the graph has a cycle (labels {:?}, edges {:?})", describe(c, upto), lossy(&after.labels), after.edges);
            ensure!(
                after.labels.len() >= before.labels.len() && after.labels[..before.labels.len()] == before.labels[..],
                "{}: node labels changed: before {:?}, after {:?}",
                describe(c, upto), lossy(&before.labels), lossy(&after.labels)
            );
            for (e, w) in &before.edges {
                let now = after.edges.get(e).copied();
                ensure!(
                    now.is_some_and(|n| n >= *w),
                    "{}: edge {:?} had weight {} before the addition and has {:?} after it",
                    describe(c, upto), e, w, now
                );
            }
            let grown = after.labels.len() - before.labels.len();
            ensure!(grown <= q.len(), "{}: node count grew by {} > query length {}", describe(c, upto), grown, q.len());
            let cons = check_consensus(c, upto, &al, &after)?;
            all_same &= q == r;
            if all_same && strict {
                ensure!(
                    after.labels == r,
                    "{}: only copies of the reference were added (identity is the unique optimal alignment) but the node labels are {:?}",
                    describe(c, upto), lossy(&after.labels)
                );
                ensure!(
                    cons == r,
                    "{}: only copies of the reference were added but the consensus is {:?}",
                    describe(c, upto), lossy(&cons)
                );
            }
            pass.add_if(grown > 0, "addition created nodes");
            pass.add_if(grown == 0 && q != r, "query != reference absorbed without new nodes");
            pass.add_if(after.edges.is_empty(), "graph without edges");
            pass.add_if(st.banded.is_some(), "banded step");
            pass.add_if(q == r, "step adds the reference itself");
            before = after;
        }
        let n = before.labels.len();
        let mut outdeg = vec![0usize; n];
        let mut indeg = vec![0usize; n];
        for &(a, b) in before.edges.keys() {
            outdeg[a] += 1;
            indeg[b] += 1;
        }
        pass.add_if(c.steps.len() >= 2, "history length >= 2");
        pass.add_if(c.steps.len() >= 4, "history length >= 4");
        pass.add_if(c.steps.is_empty(), "empty history");
        pass.add_if(r.len() == 1, "reference length 1");
        pass.add_if(all_same && strict && c.steps.len() >= 2, "reference added repeatedly (identity clause checked)");
        pass.add_if(all_same && !strict && !c.steps.is_empty(), "reference added, scoring admits other optimal alignments");
        pass.add_if(outdeg.iter().any(|&d| d >= 2), "branching graph");
        pass.add_if(indeg.iter().filter(|&&d| d == 0).count() >= 2, "several source nodes");
        pass.add_if(outdeg.iter().filter(|&&d| d == 0).count() >= 2, "several sink nodes");
        pass.add_if(before.edges.values().any(|&w| w >= 3), "edge weight >= 3");
        pass.add_if(c.score.is_table(), "table scoring");
        pass.add_if(c.gap == 0, "gap penalty 0");
        Ok(pass)
    }

    pub fn strat(_t: Tier) -> BoxedStrategy<Case> {
        (prop_oneof![1 => Just(1u8), 4 => Just(2u8), 3 => Just(3u8)], prop_oneof![6 => Just(false), 1 => Just(true)])
            .prop_flat_map(|(sigma, identity)| {
                let reference = prop_oneof![1 => seq(sigma, b'a', 1..=1), 1 => seq(sigma, b'a', 2..=3), 6 => seq(sigma, b'a', 4..=14)];
                // identity histories: only copies of the reference under a scoring with a unique optimum
                let qs = if identity { Just(QSpec::Same).boxed() } else { query_spec(sigma) };
                let sc = if identity { strict_score(sigma) } else { score(sigma) };
                let step = (qs, proptest::option::weighted(0.3, 0usize..=3), prop_oneof![3 => Just(Vec::new()), 1 => proptest::collection::vec(0u8..4, 1..=2)]);
                let steps = prop_oneof![1 => proptest::collection::vec(step.clone(), 0..=1), 6 => proptest::collection::vec(step, 2..=5)];
                (reference, steps, sc, -3i32..=0, -5i32..=0)
            })
            .prop_map(|(r, steps, score, gap, gap_extend)| {
                let steps = steps.into_iter().map(|(qs, banded, prelude)| Step { query: B(realise(&r, &qs)), banded, prelude }).collect();
                Case { reference: B(r), score, gap, gap_extend, steps }
            })
            .boxed()
    }
}

// ---------------------------------------------------------------------------
// LARGE-SCALE sub-checks (C16/large-*): reference / query lengths, node counts, edge weights and
// numbers of additions across the threshold ladder. Sequences are expanded deterministically from
// `{lengths, kinds, seed}` by splitmix64. Oracles: the textbook Needleman-Wunsch `nw` of this module
// (O(mn), two rows of i64; for homopolymer pairs additionally the closed form), the path walk
// `validate_linear`, and linear-time structural checks of the graph.

pub mod large {
    use super::*;
    use crate::oracles::scale::c141516::{ladder, Sm64};
    use crate::rung_label_c141516 as rung;

    #[derive(Serialize, Deserialize, Debug, Clone, Copy, PartialEq)]
    pub enum RKind {
        /// uniform over the first `sigma_r` letters
        Random,
        /// all 'a'
        Homopolymer,
        /// a random word of this length repeated
        Periodic(u8),
        /// random over the first sigma_r letters, with an island of `len` copies of the LAST letter of the
        /// alphabet (absent elsewhere when sigma_r < sigma) starting at fraction `at` of the possible range:
        /// a `Foreign { len }` query has its unique optimal alignment on the island
        Island { at: u16, len: u8 },
    }

    #[derive(Serialize, Deserialize, Debug, Clone, Copy, PartialEq)]
    pub enum QKind {
        /// the reference itself
        Same,
        /// the reference with `count` random substitutions / insertions / deletions
        Edits { count: u32 },
        /// uniform over all `sigma` letters
        Random { len: u32 },
        /// all 'a'
        HomoA { len: u32 },
        /// all copies of the last letter of the alphabet (never in the reference when sigma_r < sigma)
        Foreign { len: u32 },
        /// reference[start .. start+len] (start = frac of the possible range) with `subs` substitutions
        Window { start: u16, len: u32, subs: u8 },
        /// random flank + reference + random flank
        Embedded { left: u32, right: u32 },
    }

    fn letters(g: &mut Sm64, n: usize, sigma: u8) -> Vec<u8> {
        (0..n).map(|_| b'a' + g.below(sigma as u64) as u8).collect()
    }

    pub fn make_ref(kind: RKind, m: usize, sigma_r: u8, sigma: u8, g: &mut Sm64) -> Vec<u8> {
        match kind {
            RKind::Island { at, len } => {
                let mut r = letters(g, m, sigma_r);
                let len = (len as usize).clamp(1, m);
                let s = crate::engine::gen::idx(at, m - len);
                for x in r[s..s + len].iter_mut() {
                    *x = b'a' + sigma - 1;
                }
                r
            }
            RKind::Random => letters(g, m, sigma_r),
            RKind::Homopolymer => vec![b'a'; m],
            RKind::Periodic(p) => {
                let w = letters(g, p.max(1) as usize, sigma_r);
                (0..m).map(|i| w[i % w.len()]).collect()
            }
        }
    }

    pub fn make_query(kind: QKind, r: &[u8], sigma: u8, g: &mut Sm64) -> Vec<u8> {
        let mut q = match kind {
            QKind::Same => r.to_vec(),
            QKind::Edits { count } => {
                let mut pos: Vec<usize> = (0..count).map(|_| g.below(r.len() as u64) as usize).collect();
                pos.sort_unstable();
                pos.dedup();
                let mut q = Vec::with_capacity(r.len() + pos.len());
                let mut pi = 0;
                for (i, &c) in r.iter().enumerate() {
                    if pi < pos.len() && pos[pi] == i {
                        pi += 1;
                        match g.below(3) {
                            0 => q.push(b'a' + ((c - b'a') as u64 + 1 + g.below(sigma.max(2) as u64 - 1)) as u8 % sigma.max(1)),
                            1 => {
                                q.push(b'a' + g.below(sigma as u64) as u8);
                                q.push(c);
                            }
                            _ => {}
                        }
                    } else {
                        q.push(c);
                    }
                }
                q
            }
            QKind::Random { len } => letters(g, len as usize, sigma),
            QKind::HomoA { len } => vec![b'a'; len as usize],
            QKind::Foreign { len } => vec![b'a' + sigma - 1; len as usize],
            QKind::Window { start, len, subs } => {
                let len = (len as usize).clamp(1, r.len());
                let s = crate::engine::gen::idx(start, r.len() - len);
                let mut q = r[s..s + len].to_vec();
                for _ in 0..subs {
                    let i = g.below(len as u64) as usize;
                    q[i] = b'a' + g.below(sigma as u64) as u8;
                }
                q
            }
            QKind::Embedded { left, right } => {
                let mut q = letters(g, left as usize, sigma);
                q.extend_from_slice(r);
                q.extend(letters(g, right as usize, sigma));
                q
            }
        };
        if q.is_empty() {
            q.push(b'a');
        }
        q
    }

    #[derive(Deserialize)]
    struct AlnMirror {
        score: i32,
        operations: Vec<AlignmentOperation>,
    }

    /// the private operation list through the derived Serialize impl, decoded without a Value tree
    fn ops_of_streaming(a: &Alignment) -> Result<Vec<AlignmentOperation>, String> {
        let bytes = serde_json::to_vec(a).map_err(|e| format!("observation lost: poa::Alignment does not serialise: {}", e))?;
        let m: AlnMirror = serde_json::from_slice(&bytes).map_err(|e| format!("observation lost: serialised poa::Alignment does not decode as {{score, operations}}: {}", e))?;
        if m.score != a.score {
            return Err("observation lost: serialised alignment has a different `score`".to_string());
        }
        Ok(m.operations)
    }

    fn show_seq(s: &[u8]) -> String {
        if s.len() <= 60 {
            format!("{:?}", lossy(s))
        } else {
            format!("[{} symbols: {:?}..{:?}]", s.len(), lossy(&s[..24]), lossy(&s[s.len() - 24..]))
        }
    }

    fn show_ops(ops: &[AlignmentOperation]) -> String {
        if ops.len() <= 40 {
            format!("{:?}", ops)
        } else {
            format!("[{} operations: {:?} .. {:?}]", ops.len(), &ops[..12], &ops[ops.len() - 12..])
        }
    }

    // -----------------------------------------------------------------------
    // linear graphs

    pub mod linear {
        use super::*;

        #[derive(Serialize, Deserialize, Debug, Clone, Copy, PartialEq)]
        pub enum Api {
            /// Aligner::new / global / global_banded / alignment
            Aligner,
            /// Poa::from_string / custom / global_banded, Traceback::alignment
            Poa,
        }

        #[derive(Serialize, Deserialize, Debug, Clone)]
        pub struct Case {
            /// reference length >= 1
            pub m: u32,
            pub rkind: RKind,
            /// letters of the reference: the first sigma_r of the alphabet (1 <= sigma_r <= sigma)
            pub sigma_r: u8,
            /// alphabet size (2..=4); also the size of a score table
            pub sigma: u8,
            pub q: QKind,
            pub score: Score,
            pub gap: i32,
            pub gap_extend: i32,
            /// Some(e): also run global_banded with bandwidth max(|reference|, |query|) + e
            pub band: Option<u32>,
            pub api: Api,
            pub seed: u64,
        }

        pub fn check(c: &Case) -> R {
            let _published = crate::oracles::scale::c141516::publish(c);
            ensure!(c.m >= 1 && c.sigma >= 1 && c.sigma <= 8 && c.sigma_r >= 1 && c.sigma_r <= c.sigma && c.gap <= 0 && c.gap >= -20 && c.gap_extend <= 0, "harness: bad parameters in {:?}", c);
            let mut g = Sm64::stream(c.seed, 160);
            let r = make_ref(c.rkind, c.m as usize, c.sigma_r, c.sigma, &mut g);
            let q = make_query(c.q, &r, c.sigma, &mut g);
            let (m, n) = (r.len(), q.len());
            ensure!((m as u64) * (n as u64) <= 40_000_000, "harness: matrix of {} x {} cells is too large ({:?})", m, n, c);
            ensure!(c.score.covers(&r) && c.score.covers(&q), "harness: symbols outside the score table in {:?}", c);
            let what = format!("reference {} query {} ({:?})", show_seq(&r), show_seq(&q), c);

            let expect_rq = nw(&r, &q, &c.score, c.gap);
            let transposed = c.score.transposed();
            let expect_qr = if c.score.is_symmetric() { expect_rq } else { nw(&r, &q, &transposed, c.gap) };
            // closed form for homopolymer pairs under match/mismatch scoring (validates `nw` at this size)
            if let Score::Simple { m: ms, x } = c.score {
                if r.iter().all(|&b| b == r[0]) && q.iter().all(|&b| b == q[0]) {
                    let (lo, hi) = (m.min(n) as i64, m.max(n) as i64);
                    let pair = if r[0] == q[0] { ms as i64 } else { x as i64 };
                    let gapv = c.gap as i64;
                    let closed = if pair >= 2 * gapv { lo * pair + (hi - lo) * gapv } else { (lo + hi) * gapv };
                    ensure!(closed == expect_rq, "harness: Needleman-Wunsch reference {} differs from the closed form {} for a homopolymer pair; {}", expect_rq, closed, what);
                }
            }

            let scoring = || Scoring::new(c.gap, c.gap_extend, MF(c.score.clone()));
            let bw = m.max(n) + c.band.unwrap_or(0) as usize;
            // the banded matrix has about |reference| * (|query| + bandwidth) cells
            let band_feasible = c.band.is_some() && (m as u64) * ((n + bw) as u64) <= 14_000_000;
            let (a, b): (Alignment, Option<Alignment>) = match c.api {
                Api::Aligner => {
                    let mut al = Aligner::new(scoring(), &r);
                    let a = al.global(&q).alignment();
                    let b = if band_feasible { Some(al.global_banded(&q, bw).alignment()) } else { None };
                    (a, b)
                }
                Api::Poa => {
                    let poa = bio::alignment::poa::Poa::from_string(scoring(), &r);
                    let a = poa.custom(&q).alignment();
                    let b = if band_feasible { Some(poa.global_banded(&q, bw).alignment()) } else { None };
                    (a, b)
                }
            };
            ensure!(
                a.score as i64 == expect_rq || a.score as i64 == expect_qr,
                "global: score {} but the Needleman-Wunsch optimum is {} (function applied as f(reference, query)) or {} (as f(query, reference)); {}",
                a.score, expect_rq, expect_qr, what
            );
            let (expect, conv) = if a.score as i64 == expect_rq { (expect_rq, c.score.clone()) } else { (expect_qr, transposed) };
            let ops = match ops_of_streaming(&a) {
                Ok(o) => o,
                Err(e) => fail!("{}", e),
            };
            let walk = match validate_linear(&ops, &r, &q, &conv, c.gap) {
                Ok(w) => w,
                Err(e) => fail!("global: operations {} are not an alignment of the query to the reference: {}; {}", show_ops(&ops), e, what),
            };
            ensure!(walk.score == a.score as i64, "global: operations {} recompute to {} but the reported score is {}; {}", show_ops(&ops), walk.score, a.score, what);
            if let Some(b) = &b {
                ensure!(b.score as i64 == expect, "global_banded(bandwidth {}): score {} but the Needleman-Wunsch optimum (and the unbanded score) is {}; {}", bw, b.score, expect, what);
            }

            let mut pass = Pass::new(r != q && (m >= 255 || n >= 255));
            if let Some(l) = rung!("reference length", m) {
                pass.add(l);
            }
            if let Some(l) = rung!("query length", n) {
                pass.add(l);
            }
            pass.add_if(m >= 255 && n >= 255, "reference and query both >= 255");
            pass.add_if(m >= 1023 && n >= 1023, "reference and query both >= 1023");
            pass.add_if(m >= 4095 && n <= 64, "long reference, short query");
            pass.add_if(n >= 4095 && m <= 64, "short reference, long query");
            pass.add_if(b.is_some(), "banded run checked");
            pass.add_if(b.is_some() && (m >= 255 && n >= 255), "banded run checked with both lengths >= 255");
            pass.add_if(b.is_some() && n >= 65535, "banded run checked with query length >= 65535");
            pass.add_if(c.band.is_some() && b.is_none(), "banded run infeasible (matrix of |reference| x (|query|+bandwidth) cells)");
            pass.add_if(walk.gaps >= 255, ">= 255 gap columns");
            pass.add_if(walk.gaps >= 65535, ">= 65535 gap columns");
            pass.add_if(expect <= -255, "optimum <= -255");
            pass.add_if(expect >= 255, "optimum >= 255");
            pass.add_if(expect.abs() >= 32768, "|optimum| >= 32768");
            pass.add_if(expect.abs() >= 65536, "|optimum| >= 65536");
            pass.add_if(!c.score.is_symmetric() && expect_rq != expect_qr, "asymmetric table: argument order matters");
            pass.add_if(c.score.is_table(), "table scoring");
            pass.add_if(r == q, "query identical to reference");
            pass.add(match c.api {
                Api::Aligner => "entry point Aligner::global",
                Api::Poa => "entry point Poa::from_string + Poa::custom",
            });
            pass.add(match c.rkind {
                RKind::Random => "random reference",
                RKind::Homopolymer => "homopolymer reference",
                RKind::Periodic(_) => "periodic reference",
                RKind::Island { .. } => "reference with an island of a foreign letter",
            });
            let max_match_node = ops.iter().filter_map(|o| if let AlignmentOperation::Match(Some((_, c))) = o { Some(*c) } else { None }).max().unwrap_or(0);
            pass.add_if(max_match_node >= 256, "match at a node index >= 256");
            pass.add_if(max_match_node >= 65_537, "match at a node index > 65536");
            pass.add_if(max_match_node >= 131_073, "match at a node index > 131072");
            Ok(pass)
        }

        const ASYM: [i32; 9] = [2, -1, 0, -3, 1, -2, 1, 0, 3];

        fn scoring(k: usize, sigma: u8) -> (Score, i32) {
            let n = sigma as usize;
            match k % 4 {
                0 => (Score::Simple { m: 1, x: -1 }, -1),
                1 => (Score::Simple { m: 2, x: -3 }, -2),
                2 => {
                    // asymmetric table
                    let t: Vec<i32> = (0..n * n).map(|i| if i / n == i % n { 1 + (i % 3) as i32 } else { ASYM[(i * 7 + 3) % 9].min(0) - ((i / n > i % n) as i32) }).collect();
                    (Score::Table { sigma, t }, -1)
                }
                _ => (Score::Simple { m: 0, x: -2 }, 0),
            }
        }

        fn mk(k: usize, m: u64, rkind: RKind, sigma_r: u8, sigma: u8, q: QKind, band: Option<u32>) -> Case {
            let (score, gap) = scoring(k, sigma);
            Case { m: m as u32, rkind, sigma_r, sigma, q, score, gap, gap_extend: -(k as i32 % 3), band, api: if k % 3 == 2 { Api::Poa } else { Api::Aligner }, seed: 0x5eed_0016_0000 + k as u64 * 7919 }
        }

        /// (A) reference and query both long
        pub fn enumerate_square(tier: Tier) -> Box<dyn Iterator<Item = Case>> {
            let mut v = Vec::new();
            let k = 0usize;
            let kc = std::cell::Cell::new(k);
            let push = |v: &mut Vec<Case>, m: u64, rkind: RKind, sigma_r: u8, sigma: u8, q: QKind, band: Option<u32>| {
                v.push(mk(kc.get(), m, rkind, sigma_r, sigma, q, band));
                kc.set(kc.get() + 1);
            };
            let mut sq = ladder(1025);
            sq.extend([2047, 2048, 2049]);
            if tier == Tier::Thorough {
                sq.extend([4094, 4098]);
            }
            for &m in &sq {
                let band = if m <= 2049 { Some((m % 3) as u32) } else { None };
                push(&mut v, m, RKind::Random, 3, 3, QKind::Edits { count: (m / 40 + 3) as u32 }, band);
                if m <= 1025 || tier == Tier::Thorough {
                    push(&mut v, m, RKind::Random, 2, 3, QKind::Same, band);
                    push(&mut v, m, RKind::Random, 4, 4, QKind::Random { len: (m + 1 - m % 3) as u32 }, band);
                    push(&mut v, m, RKind::Homopolymer, 1, 2, QKind::HomoA { len: (m - 2 + m % 5) as u32 }, band);
                    push(&mut v, m, RKind::Homopolymer, 1, 2, QKind::Foreign { len: m as u32 }, band);
                    push(&mut v, m, RKind::Periodic(3), 2, 2, QKind::Edits { count: 5 }, band);
                }
            }
            // 4095..4097 squared (no banded run: 34 million cells)
            push(&mut v, 4095, RKind::Random, 3, 3, QKind::Edits { count: 60 }, None);
            push(&mut v, 4096, RKind::Random, 4, 4, QKind::Edits { count: 100 }, None);
            push(&mut v, 4097, RKind::Periodic(5), 2, 3, QKind::Edits { count: 9 }, None);
            Box::new(v.into_iter())
        }

        /// (B) long reference, short query (no banded run: its matrix has |reference| * bandwidth cells)
        pub fn enumerate_long_reference(tier: Tier) -> Box<dyn Iterator<Item = Case>> {
            let mut v = Vec::new();
            let k = 1000usize;
            let kc = std::cell::Cell::new(k);
            let push = |v: &mut Vec<Case>, m: u64, rkind: RKind, sigma_r: u8, sigma: u8, q: QKind, band: Option<u32>| {
                v.push(mk(kc.get(), m, rkind, sigma_r, sigma, q, band));
                kc.set(kc.get() + 1);
            };
            for &m in &ladder((1 << 20) + 1) {
                if m < 4095 {
                    continue;
                }
                let len: u32 = if m > 140_000 { 3 } else if m > 40_000 { 6 } else { 12 };
                let quick = tier == Tier::Quick;
                if !quick || m <= 140_000 || m % 3 != 2 {
                    push(&mut v, m, RKind::Random, 3, 4, QKind::Window { start: [65535u16, 0, 30_000][(m % 3) as usize], len, subs: 1 }, None);
                }
                if !quick || m <= 40_000 || (m % 3 == 2) {
                    push(&mut v, m, RKind::Homopolymer, 1, 2, QKind::HomoA { len }, None);
                }
                if !quick || m <= 40_000 {
                    push(&mut v, m, RKind::Random, 2, 3, QKind::Foreign { len: 3 }, None);
                }
                // the matched nodes are the LAST ones (or lie around the middle): operations carry large node indices
                if !quick || m <= 140_000 || m % 3 == 1 {
                    let il = len.min(8) as u8;
                    let at = if m % 2 == 0 { 65_535u16 } else { 40_000 };
                    kc.set(kc.get() + (4 - kc.get() % 4) % 4); // scoring 0: match +1, mismatch -1, gap -1 (unique optimum on the island)
                    push(&mut v, m, RKind::Island { at, len: il }, 3, 4, QKind::Foreign { len: il as u32 }, None);
                }
            }
            // islands across node index 65535/65536/65537 and 131071..131073
            for (m, at) in [(70_000u64, 61_356u16), (70_000, 61_357), (140_000, 61_356)] {
                kc.set(kc.get() + (4 - kc.get() % 4) % 4);
                push(&mut v, m, RKind::Island { at, len: 6 }, 3, 4, QKind::Foreign { len: 6 }, None);
            }
            Box::new(v.into_iter())
        }

        /// (C) short reference, long query
        pub fn enumerate_long_query(tier: Tier) -> Box<dyn Iterator<Item = Case>> {
            let mut v = Vec::new();
            let k = 2000usize;
            let kc = std::cell::Cell::new(k);
            let push = |v: &mut Vec<Case>, m: u64, rkind: RKind, sigma_r: u8, sigma: u8, q: QKind, band: Option<u32>| {
                v.push(mk(kc.get(), m, rkind, sigma_r, sigma, q, band));
                kc.set(kc.get() + 1);
            };
            for &n in &ladder((1 << 20) + 1) {
                if n < 4095 {
                    continue;
                }
                let m: u64 = if n > 140_000 { 3 } else { 9 };
                let quick = tier == Tier::Quick;
                let band = if !quick || n <= 140_000 || n % 2 == 0 { Some(1) } else { None };
                if !quick || n <= 140_000 || n % 3 != 2 {
                    push(&mut v, m, RKind::Random, 3, 3, QKind::Embedded { left: (n - m) as u32 / 2, right: (n - m) as u32 - (n - m) as u32 / 2 }, band);
                }
                if !quick || n <= 40_000 || n % 3 == 2 {
                    push(&mut v, m, RKind::Homopolymer, 1, 2, QKind::HomoA { len: n as u32 }, band);
                }
                if !quick || n <= 40_000 {
                    push(&mut v, m, RKind::Random, 2, 3, QKind::Random { len: n as u32 }, band);
                }
            }
            Box::new(v.into_iter())
        }

        pub fn strat(tier: Tier) -> BoxedStrategy<Case> {
            let sqmax: u64 = match tier {
                Tier::Quick => 1025,
                Tier::Thorough => 2049,
            };
            let longmax: u64 = match tier {
                Tier::Quick => 131_073,
                Tier::Thorough => (1 << 20) + 1,
            };
            let near = |max: u64| {
                let l = ladder(max);
                let nl = l.len();
                prop_oneof![3 => (0..nl, -2i64..=2).prop_map(move |(i, d)| (l[i] as i64 + d).max(1) as u64), 1 => 255u64..=max].boxed()
            };
            let score_strat = |sigma: u8| score(sigma);
            (2u8..=4, any::<u64>(), any::<u16>(), any::<u16>(), 0u8..3)
                .prop_flat_map(move |(sigma, seed, a, b, shape)| {
                    let dims = match shape {
                        0 => (near(sqmax), Just(0u64)).boxed(),
                        1 => (near(longmax), 1u64..=12).boxed(),
                        _ => (1u64..=9, near(longmax)).boxed(),
                    };
                    (Just((sigma, seed, a, b, shape)), dims, score_strat(sigma), -3i32..=0, -5i32..=0, proptest::option::weighted(0.7, 0u32..=4))
                })
                .prop_map(|((sigma, seed, a, b, shape), (x, y), score, gap, gap_extend, band)| {
                    let rkind = match a % 6 {
                        0 => RKind::Homopolymer,
                        1 => RKind::Periodic(1 + (a / 6 % 7) as u8),
                        2 if shape == 1 => RKind::Island { at: if a % 4 == 0 { 65_535 } else { a }, len: y.min(8) as u8 },
                        _ => RKind::Random,
                    };
                    let sigma_r = if matches!(rkind, RKind::Island { .. }) { sigma - 1 } else { 1 + (b % sigma as u16) as u8 };
                    let island = matches!(rkind, RKind::Island { .. });
                    let (m, q) = match shape {
                        0 => (x, match b % 5 {
                            0 => QKind::Same,
                            1 => QKind::Random { len: (x as i64 + (a % 7) as i64 - 3).max(1) as u32 },
                            2 => QKind::HomoA { len: x as u32 },
                            _ => QKind::Edits { count: 1 + (a as u32 % 40) },
                        }),
                        1 => {
                            let len = if x > 140_000 { y.min(4) } else { y } as u32;
                            (x, match b % 4 {
                                _ if island => QKind::Foreign { len: len.min(8) },
                                0 => QKind::Foreign { len },
                                1 => QKind::Random { len },
                                _ => QKind::Window { start: a, len, subs: (b / 4 % 3) as u8 },
                            })
                        }
                        _ => {
                            let m = if y > 140_000 { x.min(3) } else { x };
                            (m, match b % 3 {
                                0 => QKind::Random { len: y as u32 },
                                1 => QKind::HomoA { len: y as u32 },
                                _ => QKind::Embedded { left: ((y.saturating_sub(m)) / 2) as u32, right: (y.saturating_sub(m) - y.saturating_sub(m) / 2) as u32 },
                            })
                        }
                    };
                    Case { m: m as u32, rkind, sigma_r, sigma, q, score, gap, gap_extend, band, api: if seed % 3 == 0 { Api::Poa } else { Api::Aligner }, seed }
                })
                .boxed()
        }
    }

    // -----------------------------------------------------------------------
    // histories

    pub mod history {
        use super::*;

        #[derive(Serialize, Deserialize, Debug, Clone)]
        pub struct Step {
            pub q: QKind,
            /// the same query is aligned and added this many times (>= 1)
            pub repeat: u32,
            /// global_banded with bandwidth = node count + |query| + 1 (falls back to global when the
            /// banded matrix, node count x (|query| + bandwidth) cells, would exceed 14 million cells)
            pub banded: bool,
        }

        #[derive(Serialize, Deserialize, Debug, Clone)]
        pub struct Case {
            pub m: u32,
            pub rkind: RKind,
            pub sigma_r: u8,
            pub sigma: u8,
            pub score: Score,
            pub gap: i32,
            pub gap_extend: i32,
            pub steps: Vec<Step>,
            pub seed: u64,
        }

        /// is `word` spelled by a path? frontier walk over adjacency lists; `None`: work budget exceeded
        fn spelled(labels: &[u8], succ: &[Vec<usize>], word: &[u8]) -> Option<bool> {
            let n = labels.len();
            let mut stamp = vec![usize::MAX; n];
            let mut cur: Vec<usize> = (0..n).filter(|&i| labels[i] == word[0]).collect();
            let mut work = n as u64;
            for (k, &c) in word.iter().enumerate().skip(1) {
                let mut next = Vec::new();
                for &a in &cur {
                    for &b in &succ[a] {
                        work += 1;
                        if labels[b] == c && stamp[b] != k {
                            stamp[b] = k;
                            next.push(b);
                        }
                    }
                }
                if work > 400_000_000 {
                    return None;
                }
                cur = next;
                if cur.is_empty() {
                    return Some(false);
                }
            }
            Some(!cur.is_empty())
        }

        struct State {
            labels: Vec<u8>,
            /// (source, target, summed weight), sorted by (source, target), parallel edges merged
            edges: Vec<(usize, usize, i64)>,
        }

        fn snap(g: &POAGraph) -> State {
            let labels = g.raw_nodes().iter().map(|n| n.weight).collect();
            let mut raw: Vec<(usize, usize, i64)> = g.raw_edges().iter().map(|e| (e.source().index(), e.target().index(), e.weight as i64)).collect();
            raw.sort_unstable();
            let mut edges: Vec<(usize, usize, i64)> = Vec::with_capacity(raw.len());
            for (a, b, w) in raw {
                match edges.last_mut() {
                    Some(l) if l.0 == a && l.1 == b => l.2 += w,
                    _ => edges.push((a, b, w)),
                }
            }
            State { labels, edges }
        }

        fn acyclic(s: &State, succ: &[Vec<usize>]) -> bool {
            let n = s.labels.len();
            let mut indeg = vec![0usize; n];
            for &(_, b, _) in &s.edges {
                indeg[b] += 1;
            }
            let mut stack: Vec<usize> = (0..n).filter(|&i| indeg[i] == 0).collect();
            let mut seen = 0;
            while let Some(v) = stack.pop() {
                seen += 1;
                for &w in &succ[v] {
                    indeg[w] -= 1;
                    if indeg[w] == 0 {
                        stack.push(w);
                    }
                }
            }
            seen == n
        }

        /// first old edge that is missing or lighter in the new (sorted) edge list
        fn weight_regression(before: &State, after: &State) -> Option<((usize, usize), i64, Option<i64>)> {
            let mut j = 0;
            for &(a, b, w) in &before.edges {
                while j < after.edges.len() && (after.edges[j].0, after.edges[j].1) < (a, b) {
                    j += 1;
                }
                if j < after.edges.len() && after.edges[j].0 == a && after.edges[j].1 == b {
                    if after.edges[j].2 < w {
                        return Some(((a, b), w, Some(after.edges[j].2)));
                    }
                } else {
                    return Some(((a, b), w, None));
                }
            }
            None
        }

        pub fn check(c: &Case) -> R {
            let _published = crate::oracles::scale::c141516::publish(c);
            ensure!(c.m >= 1 && c.sigma >= 1 && c.sigma <= 8 && c.sigma_r >= 1 && c.sigma_r <= c.sigma && c.gap <= 0 && c.gap >= -20 && c.gap_extend <= 0, "harness: bad parameters in {:?}", c);
            ensure!(c.steps.iter().all(|s| s.repeat >= 1), "harness: repeat 0 in {:?}", c);
            let mut g = Sm64::stream(c.seed, 161);
            let r = make_ref(c.rkind, c.m as usize, c.sigma_r, c.sigma, &mut g);
            ensure!(c.score.covers(&r), "harness: reference outside the score table in {:?}", c);
            let what = |done: usize| format!("reference {} after {} additions of the history {:?}", show_seq(&r), done, c);
            let mut al = aligner(&c.score, c.gap, c.gap_extend, &r);
            let mut before = snap(al.graph());
            ensure!(before.labels == r, "node labels of the initial graph differ from the reference; {}", what(0));
            // the empty series of additions: consensus of the reference-only graph
            let cons0 = match catch(|| al.consensus()) {
                Ok(v) => v,
                Err(p) => fail!("consensus() of the reference-only graph panicked: {}; {}", p, what(0)),
            };
            ensure!(cons0 == r, "consensus {} of the reference-only graph differs from the reference; {}", show_seq(&cons0), what(0));

            let strict = c.score.identity_unique();
            let mut all_same = true;
            let mut done = 0usize;
            let mut pass = Pass::new(c.steps.iter().map(|s| s.repeat as u64).sum::<u64>() >= 2);
            let mut max_weight = 1i64;
            let mut work: u64 = 0;
            for st in &c.steps {
                let q = make_query(st.q, &r, c.sigma, &mut g);
                ensure!(c.score.covers(&q), "harness: query outside the score table in {:?}", c);
                for _ in 0..st.repeat {
                    let nodes = before.labels.len();
                    ensure!((nodes as u64) * (q.len() as u64) <= 40_000_000, "harness: matrix of {} x {} cells is too large ({:?})", nodes, q.len(), c);
                    let bw = nodes + q.len() + 1;
                    let banded = st.banded && (nodes as u64) * ((q.len() + bw) as u64) <= 14_000_000;
                    work += (nodes + before.edges.len()) as u64 + (nodes as u64) * (if banded { q.len() + 2 * bw } else { q.len() }) as u64 / 8;
                    ensure!(work <= 1_000_000_000, "harness: history too expensive ({:?})", c);
                    let a = if banded { al.global_banded(&q, bw).alignment() } else { al.global(&q).alignment() };
                    let chain = before.labels == r && before.edges.len() + 1 == r.len() && before.edges.iter().enumerate().all(|(i, e)| e.0 == i && e.1 == i + 1);
                    if chain && (r.len() as u64) * (q.len() as u64) <= 5_000_000 {
                        let e1 = nw(&r, &q, &c.score, c.gap);
                        let e2 = nw(&r, &q, &c.score.transposed(), c.gap);
                        ensure!(
                            a.score as i64 == e1 || a.score as i64 == e2,
                            "the graph is still the chain of the reference, but aligning query {} ({}) scores {} instead of the Needleman-Wunsch optimum {}; {}",
                            show_seq(&q), if banded { "global_banded" } else { "global" }, a.score, e1, what(done)
                        );
                        pass.add("score checked on a chain graph inside a history");
                        pass.add_if(max_weight >= 256, "score checked on a chain graph whose edge weights exceed 255");
                    }
                    al.add_to_graph();
                    done += 1;
                    let after = snap(al.graph());
                    let n_after = after.labels.len();
                    let mut succ: Vec<Vec<usize>> = vec![Vec::new(); n_after];
                    let mut edges_ok = true;
                    for &(x, y, _) in &after.edges {
                        if x >= n_after || y >= n_after {
                            edges_ok = false;
                        } else {
                            succ[x].push(y);
                        }
                    }
                    ensure!(edges_ok, "an edge refers to a node index >= node count {}; {}", n_after, what(done));
                    ensure!(acyclic(&after, &succ), "the graph has a cycle ({} nodes, {} edges); {}", n_after, after.edges.len(), what(done));
                    ensure!(n_after >= nodes && after.labels[..nodes] == before.labels[..], "node labels changed or nodes were removed: {} nodes before, {} after; {}", nodes, n_after, what(done));
                    if let Some((e, w, now)) = weight_regression(&before, &after) {
                        fail!("edge {:?} had weight {} before the addition and has {:?} after it; {}", e, w, now, what(done));
                    }
                    let grown = n_after - nodes;
                    ensure!(grown <= q.len(), "node count grew by {} > query length {}; {}", grown, q.len(), what(done));
                    let cons = match catch(|| al.consensus()) {
                        Ok(v) => v,
                        Err(p) => fail!("consensus() panicked: {} (graph: {} nodes, {} edges); {}", p, n_after, after.edges.len(), what(done)),
                    };
                    ensure!(!cons.is_empty(), "consensus is empty; {}", what(done));
                    match spelled(&after.labels, &succ, &cons) {
                        Some(ok) => ensure!(ok, "consensus {} is not spelled by any path of the graph ({} nodes, {} edges); {}", show_seq(&cons), n_after, after.edges.len(), what(done)),
                        None => fail!("harness: path check of the consensus exceeded its work budget; {}", what(done)),
                    }
                    all_same &= q == r;
                    if all_same && strict {
                        ensure!(after.labels == r, "only copies of the reference were added (identity is the unique optimal alignment) but the graph has {} nodes instead of {}; {}", n_after, r.len(), what(done));
                        ensure!(cons == r, "only copies of the reference were added but the consensus is {}; {}", show_seq(&cons), what(done));
                        pass.add_if(done >= 2, "reference added repeatedly (identity clause checked)");
                    }
                    let mw = after.edges.iter().map(|e| e.2).max().unwrap_or(0);
                    max_weight = max_weight.max(mw);
                    for t in [256usize, 65_536, 131_072, 1 << 20] {
                        if nodes < t && n_after >= t {
                            pass.add(match t {
                                256 => "node count crosses 256 within one addition",
                                65_536 => "node count crosses 65536 within one addition",
                                131_072 => "node count crosses 131072 within one addition",
                                _ => "node count crosses 2^20 within one addition",
                            });
                        }
                    }
                    if let Some(l) = rung!("node count after an addition", n_after) {
                        pass.add(l);
                    }
                    pass.add_if(grown == q.len() && grown > 0, "node count grew by exactly the query length");
                    pass.add_if(banded, "banded step");
                    pass.add_if(st.banded && !banded, "banded step infeasible (fell back to global)");
                    pass.add_if(nodes >= 256 && after.edges.iter().any(|&(x, y, w)| x >= 256 && y >= 256 && w >= 2), "edge between nodes >= 256 reinforced");
                    pass.add_if(nodes >= 65_536 && after.edges.iter().any(|&(x, y, w)| x >= 65_536 && y >= 65_536 && w >= 2), "edge between nodes >= 65536 reinforced");
                    before = after;
                }
            }
            if let Some(l) = rung!("number of additions", done) {
                pass.add(l);
            }
            if let Some(l) = rung!("largest edge weight", max_weight) {
                pass.add(l);
            }
            pass.add_if(max_weight > 257, "edge weight > 257");
            pass.add_if(max_weight > 65_537, "edge weight > 65537");
            if let Some(l) = rung!("reference length", r.len()) {
                pass.add(l);
            }
            let n = before.labels.len();
            let mut outdeg = vec![0usize; n];
            for &(a, _, _) in &before.edges {
                outdeg[a] += 1;
            }
            pass.add_if(outdeg.iter().any(|&d| d >= 2), "branching graph");
            pass.add_if(c.score.is_table(), "table scoring");
            Ok(pass)
        }

        fn strict_simple(k: usize) -> (Score, i32) {
            [(Score::Simple { m: 1, x: -1 }, -1), (Score::Simple { m: 2, x: 0 }, -2), (Score::Simple { m: 3, x: -3 }, 0), (Score::Simple { m: 1, x: -2 }, -3)][k % 4].clone()
        }

        pub fn enumerate(tier: Tier) -> Box<dyn Iterator<Item = Case>> {
            let mut v = Vec::new();
            let mut k = 0usize;
            let mut push = |v: &mut Vec<Case>, m: u64, rkind: RKind, sigma_r: u8, sigma: u8, steps: Vec<Step>| {
                let (score, gap) = strict_simple(k);
                v.push(Case { m: m as u32, rkind, sigma_r, sigma, score, gap, gap_extend: -1, steps, seed: 0x415_0016_0000 + k as u64 * 104_729 });
                k += 1;
            };
            let same = |repeat: u32, banded: bool| Step { q: QKind::Same, repeat, banded };
            // H1: edge weights across 255..257 and 65535..65537: the same sequence added again and again
            for &w in &[254u32, 255, 256, 300] {
                push(&mut v, 12, RKind::Random, 3, 3, vec![same(w, false)]);
                push(&mut v, 7, RKind::Homopolymer, 1, 2, vec![same(w / 2, true), same(w - w / 2, false)]);
            }
            for &w in &[65_534u32, 65_535, 65_536] {
                push(&mut v, 3, RKind::Random, 2, 2, vec![same(w, false)]);
            }
            push(&mut v, 2, RKind::Periodic(2), 2, 2, vec![same(70_000, false)]);
            // a non-reference branch reinforced 300 times
            push(&mut v, 10, RKind::Random, 2, 3, vec![Step { q: QKind::Edits { count: 2 }, repeat: 300, banded: false }, same(2, false)]);
            // H2: node counts across the ladder. A query of foreign letters adds exactly its length in nodes.
            let mut tops = vec![256u64, 512, 1024, 4096, 8192, 16_384, 32_768, 65_536, 131_072];
            if tier == Tier::Thorough {
                tops.extend([1 << 19, 1 << 20]);
            }
            for &t in &tops {
                for target in [t - 1, t, t + 1] {
                    let f1: u64 = if t > 140_000 { 4 } else { 9 };
                    let f2 = f1 - 2;
                    let m = target - f1; // the first addition lands exactly on `target` nodes
                    let wl = if t > 140_000 { 4 } else { 10 };
                    let mut steps = vec![
                        Step { q: QKind::Foreign { len: f1 as u32 }, repeat: 2, banded: false },
                        Step { q: QKind::Window { start: 65_535, len: wl, subs: 2 }, repeat: 1, banded: false },
                        Step { q: QKind::Foreign { len: f2 as u32 }, repeat: 2, banded: t <= 4096 },
                        Step { q: QKind::Window { start: 20_000, len: wl, subs: 1 }, repeat: 2, banded: false },
                    ];
                    if t > 140_000 {
                        steps.truncate(2); // three additions on graphs of 2^19 / 2^20 nodes
                    }
                    push(&mut v, m, if t <= 1024 && target % 2 == 0 { RKind::Periodic(5) } else { RKind::Random }, 3, 4, steps);
                }
            }
            // H3: the identity clause on long references
            for &m in &[255u64, 256, 257, 511, 512, 513, 1023, 1024, 1025] {
                push(&mut v, m, if m % 2 == 0 { RKind::Random } else { RKind::Periodic(7) }, 3, 3, vec![same(1, m <= 513), same(2, false)]);
            }
            if tier == Tier::Thorough {
                push(&mut v, 2048, RKind::Random, 4, 4, vec![same(2, false)]);
                push(&mut v, 4097, RKind::Random, 4, 4, vec![same(1, false)]);
            }
            // H4: number of additions across 255..257: short random queries against a growing graph
            for &a in &[255u32, 256, 257, 513] {
                push(&mut v, 16, RKind::Random, 3, 3, vec![Step { q: QKind::Same, repeat: 1, banded: false }, Step { q: QKind::Edits { count: 2 }, repeat: a / 2, banded: a % 2 == 0 }, Step { q: QKind::Random { len: 6 }, repeat: a - 1 - a / 2, banded: false }]);
            }
            // many DIFFERENT additions: every step a fresh random query (graph grows steadily)
            push(&mut v, 24, RKind::Random, 3, 3, (0..60).map(|i| Step { q: if i % 3 == 0 { QKind::Edits { count: 3 } } else { QKind::Random { len: 20 } }, repeat: 1, banded: i % 4 == 0 }).collect());
            Box::new(v.into_iter())
        }

        pub fn strat(tier: Tier) -> BoxedStrategy<Case> {
            let tmax: u64 = match tier {
                Tier::Quick => 65_536,
                Tier::Thorough => 131_072,
            };
            let qk = prop_oneof![
                3 => Just(QKind::Same),
                2 => (1u32..=4).prop_map(|count| QKind::Edits { count }),
                2 => (1u32..=12).prop_map(|len| QKind::Foreign { len }),
                2 => (1u32..=12).prop_map(|len| QKind::Random { len }),
                3 => (any::<u16>(), 1u32..=12, 0u8..=3).prop_map(|(start, len, subs)| QKind::Window { start, len, subs }),
            ];
            let step = (qk, prop_oneof![6 => 1u32..=3, 1 => 250u32..=300], any::<bool>()).prop_map(|(q, repeat, banded)| Step { q, repeat, banded });
            let l: Vec<u64> = ladder(tmax + 1).into_iter().filter(|x| x % 2 == 0 || *x == 70_000).collect();
            let nl = l.len();
            let size = prop_oneof![2 => 2u64..=40, 3 => (0..nl, 0u64..=30).prop_map(move |(i, d)| l[i].saturating_sub(d).max(2))];
            (size, proptest::collection::vec(step, 1..=6), 2u8..=4, any::<u16>(), any::<u64>(), -3i32..=0)
                .prop_map(|(m, mut steps, sigma, a, seed, gap)| {
                    let rkind = if m <= 2000 && a % 5 == 0 { RKind::Homopolymer } else if m <= 2000 && a % 5 == 1 { RKind::Periodic(1 + (a / 5 % 6) as u8) } else { RKind::Random };
                    let sigma_r = if m > 2000 { (sigma - 1).max(2) } else { 1 + (a % (sigma as u16 - 1).max(1)) as u8 };
                    // keep the whole history cheap: full-length queries only against short references
                    let mut big = 0;
                    for s in steps.iter_mut() {
                        // at most two long runs of the same query, and those with the unbanded aligner (a banded
                        // step costs node count x (|query| + 2 x bandwidth) cells)
                        if s.repeat > 4 {
                            big += 1;
                            if big > 2 {
                                s.repeat = 2;
                            }
                            s.banded = false;
                        }
                        if m > 600 {
                            if matches!(s.q, QKind::Same | QKind::Edits { .. }) {
                                s.q = QKind::Window { start: a, len: 10, subs: 1 };
                            }
                            s.repeat = s.repeat.min(3);
                        } else if m > 40 {
                            s.repeat = s.repeat.min(4);
                        }
                    }
                    let (score, _) = strict_simple(a as usize / 7);
                    Case { m: m as u32, rkind, sigma_r, sigma: sigma.max(sigma_r + 1), score, gap, gap_extend: -1, steps, seed }
                })
                .boxed()
        }
    }
}

pub fn property() -> Property {
    Property {
        id: "C16",
        rule: "linear: reference (1..14, a tenth 15..40) and query (copy, 1-4 edits of the reference, or random, 1..14) over 1-3 letters (never X), match/mismatch scores or a symmetric score table, per-base gap penalty -3..0 (gap_extend arbitrary); global() score = textbook Needleman-Wunsch, the operation list (read through the derived Serialize of poa::Alignment) consumes reference and query exactly and recomputes to the reported score, global_banded with bandwidth >= max(lengths) gives the same score; exhaustive: all reference/query pairs over {a,b} up to length 4 (6 thorough) under 7 scorings. history: 0-5 global/global_banded(bandwidth >= nodes+|query|) + add_to_graph steps; after every step: acyclic, old node labels unchanged, every old (source,target) edge present with summed weight >= before, node growth <= |query|, consensus() non-empty and spelled by a path; while only copies of the reference were added under a scoring that makes the identity alignment the unique optimum: node labels and consensus equal the reference. Non-trivial = linear: query != reference with at least one gap column in the returned optimal alignment; history: at least 2 additions. Distinct = distinct serialised case. LARGE-SCALE (C16/large-*): cases are {lengths, sequence kinds (random, homopolymer, periodic, island of a foreign letter), query kind (copy, random edits, random, homopolymer, foreign letter, window of the reference, reference embedded in random flanks), scoring, seed}, expanded deterministically by splitmix64. Linear graphs: reference and query both on the rungs 255..257 .. 4095..4097 (banded run with bandwidth = max(lengths)+0..2 up to 2049), long reference (every rung 4095..4097 .. 2^20-1..2^20+1) with a short query, short reference with a long query (same rungs; banded run where its |reference| x (|query|+bandwidth) matrix fits), matches forced onto node indices beyond 65536 / 131072 by islands; entry points Aligner::global/global_banded and Poa::from_string + Poa::custom / Poa::global_banded; oracle: Needleman-Wunsch (closed form for homopolymer pairs), path walk, banded score. Histories: the same sequence added 254..300 and 65534..70000 times (edge weights across 255..257 and 65535..65537), a side branch reinforced 300 times, node counts landing on and crossing every rung 255..257 .. 131071..131073 (thorough: 2^19, 2^20) through queries of a foreign letter (which add exactly their length in nodes), 255..513 additions, identity clause on references of 255..1025 symbols; after EVERY addition the invariants of C16/history (acyclic, labels kept, weights not decreased, growth <= |query|, consensus non-empty and spelled by a path). Non-trivial there: query != reference with a length >= 255 / at least 2 additions.",
        assumptions: &[
            "sequences never contain the symbol X (add_alignment treats a query X as a wildcard that is absorbed by any node)",
            "the argument order of the match function is not part of the property: for asymmetric tables either f(reference, query) or f(query, reference) is accepted, but consistently for score, path and banded run",
            "the clause 'adding the reference leaves nodes and consensus equal to it' is asserted only when equal symbols score >= 1 and different symbols <= 0 (otherwise other alignments of a sequence with itself are equally optimal and may legitimately add nodes)",
            "the empty series of additions is a series: consensus of the reference-only graph must be the reference",
            "scoring uses Scoring::new (no clip penalties configured)",
            "large-scale sub-checks: |reference| * |query| <= 40 million cells; the banded run is made only where its matrix of |reference| * (|query| + bandwidth) cells stays below 14 million; scores -3..3 and lengths <= 2^20+1 keep every i32 score far from the MIN_SCORE sentinel",
            "Poa::from_string + Poa::custom with Scoring::new (all clip penalties MIN_SCORE) is a global alignment: it is held to the same Needleman-Wunsch clause as Aligner::global",
        ],
        subs: vec![
            Box::new(PropSub {
                name: "C16/linear",
                quick: 480_000,
                thorough: 12_000_000,
                shards_quick: 8,
                shards_thorough: 16,
                strat: linear::strat,
                check: linear::check,
                must_reach: &["query != reference, gap in optimal alignment", "query identical to reference", "reference length 1", "bandwidth = max(lengths)", "table scoring", "asymmetric table: argument order matters"],
                watch: true,
            }),
            Box::new(ExhSub { name: "C16/linear-exhaustive", enumerate: linear::enumerate, check: linear::check, must_reach: &["reference length 1"] }),
            Box::new(PropSub {
                name: "C16/history",
                quick: 240_000,
                thorough: 6_000_000,
                shards_quick: 8,
                shards_thorough: 16,
                strat: history::strat,
                check: history::check,
                must_reach: &["history length >= 2", "reference length 1", "graph without edges", "reference added repeatedly (identity clause checked)", "branching graph", "banded step", "edge weight >= 3", "score checked on a chain graph after earlier additions"],
                watch: true,
            }),
            // ---- large-scale sub-checks (threshold ladders for reference/query length, node count, edge weight, additions)
            Box::new(ExhSub { name: "C16/large-linear-both-long", enumerate: large::linear::enumerate_square, check: large::linear::check, must_reach: &["reference length in 255..257", "reference length in 511..513", "reference length in 1023..1025", "reference length in 4095..4097", "reference length in 2047..2049", "query length in 255..257", "query length in 511..513", "query length in 1023..1025", "query length in 4095..4097", "reference and query both >= 1023", "banded run checked with both lengths >= 255", "asymmetric table: argument order matters", "entry point Aligner::global", "entry point Poa::from_string + Poa::custom", "match at a node index >= 256", ">= 255 gap columns", "homopolymer reference", "periodic reference", "query identical to reference"] }),
            Box::new(ExhSub { name: "C16/large-linear-long-reference", enumerate: large::linear::enumerate_long_reference, check: large::linear::check, must_reach: &["reference length in 4095..4097", "reference length in 8191..8193", "reference length in 16383..16385", "reference length in 32767..32769", "reference length in 65535..65537", "reference length in 131071..131073", "reference length in 2^19-1..2^19+1", "reference length in 2^20-1..2^20+1", "reference length ~70000", "match at a node index > 65536", "match at a node index > 131072", ">= 65535 gap columns", "|optimum| >= 65536", "reference with an island of a foreign letter", "entry point Poa::from_string + Poa::custom"] }),
            Box::new(ExhSub { name: "C16/large-linear-long-query", enumerate: large::linear::enumerate_long_query, check: large::linear::check, must_reach: &["query length in 4095..4097", "query length in 8191..8193", "query length in 16383..16385", "query length in 32767..32769", "query length in 65535..65537", "query length in 131071..131073", "query length in 2^19-1..2^19+1", "query length in 2^20-1..2^20+1", "query length ~70000", "banded run checked with query length >= 65535", ">= 65535 gap columns", "|optimum| >= 65536", "entry point Poa::from_string + Poa::custom"] }),
            Box::new(ExhSub { name: "C16/large-history", enumerate: large::history::enumerate, check: large::history::check, must_reach: &["largest edge weight in 255..257", "largest edge weight in 65535..65537", "edge weight > 257", "edge weight > 65537", "node count after an addition in 255..257", "node count after an addition in 511..513", "node count after an addition in 1023..1025", "node count after an addition in 4095..4097", "node count after an addition in 8191..8193", "node count after an addition in 16383..16385", "node count after an addition in 32767..32769", "node count after an addition in 65535..65537", "node count after an addition in 131071..131073", "node count crosses 256 within one addition", "node count crosses 65536 within one addition", "node count crosses 131072 within one addition", "number of additions in 255..257", "number of additions in 65535..65537", "reference added repeatedly (identity clause checked)", "reference length in 255..257", "reference length in 511..513", "reference length in 1023..1025", "edge between nodes >= 256 reinforced", "edge between nodes >= 65536 reinforced", "banded step", "score checked on a chain graph whose edge weights exceed 255", "node count grew by exactly the query length", "branching graph"] }),
            Box::new(PropSub { name: "C16/large-linear-random", quick: 96, thorough: 1600, shards_quick: 16, shards_thorough: 16, strat: large::linear::strat, check: large::linear::check, must_reach: &["banded run checked", "entry point Aligner::global", "entry point Poa::from_string + Poa::custom"], watch: true }),
            Box::new(PropSub { name: "C16/large-history-random", quick: 96, thorough: 1600, shards_quick: 16, shards_thorough: 16, strat: large::history::strat, check: large::history::check, must_reach: &["banded step", "branching graph", "score checked on a chain graph inside a history"], watch: true }),
        ],
    }
}
