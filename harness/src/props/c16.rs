//! C16 — partial-order alignment: exact on linear graphs, the graph stays a growing DAG,
//! consensus is a path of the graph.
//!
//! Operation semantics of `poa::AlignmentOperation` (read from poa.rs, `Traceback::alignment`
//! and `Poa::add_alignment`):
//!   Match(None)          consumes a graph node without predecessors (on a linear graph: node 0)
//!                        and one query symbol
//!   Match(Some((p, c)))  consumes graph node `c` (reached from predecessor `p`) and one query symbol
//!   Del(None|Some(..))   consumes one graph node, no query symbol (second tuple element of `Del`
//!                        is row index, not node index: not interpreted here)
//!   Ins(None|Some(..))   consumes one query symbol, no graph node
//!   Xclip / Yclip        skip graph nodes / query symbols: must not occur in a global alignment
//! The operation list is private; it is observed through the derived `Serialize` of
//! `poa::Alignment` and decoded with the derived `Deserialize` of the public operation enum.

use crate::engine::gen::{apply_edits, edit, seq, Edit};
use crate::engine::*;
use crate::{ensure, fail};
use bio::alignment::pairwise::{MatchFunc, Scoring};
use bio::alignment::poa::{Aligner, Alignment, AlignmentOperation, POAGraph};
use proptest::prelude::*;
use serde::{Deserialize, Serialize};
use std::collections::BTreeMap;

// ---------------------------------------------------------------------------
// scoring

#[derive(Serialize, Deserialize, Debug, Clone)]
pub enum Score {
    /// match / mismatch score
    Simple { m: i32, x: i32 },
    /// symmetric sigma x sigma table over the letters 'a'.. (row-major)
    Table { sigma: u8, t: Vec<i32> },
}

impl Score {
    fn s(&self, a: u8, b: u8) -> i32 {
        match self {
            Score::Simple { m, x } => {
                if a == b {
                    *m
                } else {
                    *x
                }
            }
            Score::Table { sigma, t } => {
                let (i, j) = ((a - b'a') as usize, (b - b'a') as usize);
                t[i * (*sigma as usize) + j]
            }
        }
    }
    /// every symbol of `s` is covered by the scoring
    fn covers(&self, s: &[u8]) -> bool {
        match self {
            Score::Simple { .. } => true,
            Score::Table { sigma, t } => {
                t.len() == (*sigma as usize).pow(2) && s.iter().all(|&c| c >= b'a' && c < b'a' + *sigma)
            }
        }
    }
    /// equal symbols score >= 1, different symbols <= 0: then, with a gap penalty <= 0, the
    /// gap-free alignment of a sequence with itself is the *unique* optimal alignment (any other
    /// alignment leaves a reference position unpaired and loses its positive contribution)
    fn identity_unique(&self) -> bool {
        match self {
            Score::Simple { m, x } => *m >= 1 && *x <= 0,
            Score::Table { sigma, t } => {
                let n = *sigma as usize;
                (0..n).all(|i| (0..n).all(|j| if i == j { t[i * n + j] >= 1 } else { t[i * n + j] <= 0 }))
            }
        }
    }
    fn is_table(&self) -> bool {
        matches!(self, Score::Table { .. })
    }
    fn is_symmetric(&self) -> bool {
        match self {
            Score::Simple { .. } => true,
            Score::Table { sigma, t } => {
                let n = *sigma as usize;
                (0..n).all(|i| (0..n).all(|j| t[i * n + j] == t[j * n + i]))
            }
        }
    }
    /// the same scoring with the two arguments exchanged
    fn transposed(&self) -> Score {
        match self {
            Score::Simple { .. } => self.clone(),
            Score::Table { sigma, t } => {
                let n = *sigma as usize;
                let mut u = t.clone();
                for i in 0..n {
                    for j in 0..n {
                        u[i * n + j] = t[j * n + i];
                    }
                }
                Score::Table { sigma: *sigma, t: u }
            }
        }
    }
}

#[derive(Clone, Debug)]
struct MF(Score);
impl MatchFunc for MF {
    fn score(&self, a: u8, b: u8) -> i32 {
        self.0.s(a, b)
    }
}

fn aligner(score: &Score, gap: i32, gap_extend: i32, reference: &[u8]) -> Aligner<MF> {
    Aligner::new(Scoring::new(gap, gap_extend, MF(score.clone())), reference)
}

/// textbook Needleman-Wunsch with a linear (per-base) gap penalty
fn nw(r: &[u8], q: &[u8], sc: &Score, gap: i32) -> i64 {
    let (m, n) = (r.len(), q.len());
    let g = gap as i64;
    let mut prev: Vec<i64> = (0..=n as i64).map(|j| j * g).collect();
    for i in 1..=m {
        let mut cur = vec![0i64; n + 1];
        cur[0] = i as i64 * g;
        for j in 1..=n {
            let d = prev[j - 1] + sc.s(r[i - 1], q[j - 1]) as i64;
            let u = prev[j] + g;
            let l = cur[j - 1] + g;
            cur[j] = d.max(u).max(l);
        }
        prev = cur;
    }
    prev[n]
}

/// read the private operation list through the derived Serialize impl
fn ops_of(a: &Alignment) -> Result<Vec<AlignmentOperation>, String> {
    let v = serde_json::to_value(a).map_err(|e| format!("observation lost: poa::Alignment does not serialise: {}", e))?;
    let score = v.get("score").and_then(|s| s.as_i64());
    if score != Some(a.score as i64) {
        return Err(format!("observation lost: serialised alignment has no matching `score` field: {}", v));
    }
    let ops = v.get("operations").ok_or_else(|| format!("observation lost: serialised alignment has no `operations` field: {}", v))?;
    serde_json::from_value::<Vec<AlignmentOperation>>(ops.clone())
        .map_err(|e| format!("observation lost: operation list {} does not decode: {}", ops, e))
}

struct Walk {
    score: i64,
    gaps: usize,
}

/// the operations must consume reference (a linear graph: node index = position) and query
/// exactly, left to right
fn validate_linear(ops: &[AlignmentOperation], r: &[u8], q: &[u8], sc: &Score, gap: i32) -> Result<Walk, String> {
    let (mut gi, mut qi) = (0usize, 0usize);
    let mut score = 0i64;
    let mut gaps = 0usize;
    for (k, op) in ops.iter().enumerate() {
        match *op {
            AlignmentOperation::Match(m) => {
                let node = match m {
                    None => 0,
                    Some((_, c)) => c,
                };
                if node != gi {
                    return Err(format!("op #{} {:?} refers to graph node {} but the next unconsumed reference position is {}", k, op, node, gi));
                }
                if gi >= r.len() || qi >= q.len() {
                    return Err(format!("op #{} {:?} runs past the end (reference pos {}, query pos {})", k, op, gi, qi));
                }
                score += sc.s(r[gi], q[qi]) as i64;
                gi += 1;
                qi += 1;
            }
            AlignmentOperation::Del(_) => {
                if gi >= r.len() {
                    return Err(format!("op #{} {:?} deletes past the end of the reference", k, op));
                }
                score += gap as i64;
                gaps += 1;
                gi += 1;
            }
            AlignmentOperation::Ins(_) => {
                if qi >= q.len() {
                    return Err(format!("op #{} {:?} inserts past the end of the query", k, op));
                }
                score += gap as i64;
                gaps += 1;
                qi += 1;
            }
            AlignmentOperation::Xclip(_) | AlignmentOperation::Yclip(_, _) => {
                return Err(format!("op #{} {:?}: clipping operation in a global alignment", k, op));
            }
        }
    }
    if gi != r.len() || qi != q.len() {
        return Err(format!("operations consume {} of {} reference and {} of {} query symbols", gi, r.len(), qi, q.len()));
    }
    Ok(Walk { score, gaps })
}

// ---------------------------------------------------------------------------
// sub-check 1: linear graph

pub mod linear {
    use super::*;

    #[derive(Serialize, Deserialize, Debug, Clone)]
    pub struct Case {
        pub reference: B,
        pub query: B,
        pub score: Score,
        /// per-base gap penalty (`gap_open` of the Scoring), <= 0
        pub gap: i32,
        /// documented as unused by poa; arbitrary <= 0
        pub gap_extend: i32,
        /// bandwidth of the banded run = max(|reference|, |query|) + band_extra
        pub band_extra: usize,
    }

    pub fn check(c: &Case) -> R {
        let (r, q): (&[u8], &[u8]) = (&c.reference, &c.query);
        ensure!(!r.is_empty() && !q.is_empty(), "harness: empty reference/query generated");
        ensure!(c.gap <= 0 && c.gap_extend <= 0, "harness: positive gap penalty generated");
        ensure!(c.score.covers(r) && c.score.covers(q), "harness: symbols outside the score table");
        ensure!(!r.contains(&b'X') && !q.contains(&b'X'), "harness: wildcard X generated");
        // The substitution function is called as f(reference symbol, query symbol) or the other way
        // round: the property does not fix the convention, but ONE convention must hold for the
        // whole computation. For asymmetric tables both optima are computed and the one the global
        // score matches is then demanded of the path and of the banded run.
        let expect_rq = nw(r, q, &c.score, c.gap);
        let transposed = c.score.transposed();
        let expect_qr = nw(r, q, &transposed, c.gap);

        let mut al = aligner(&c.score, c.gap, c.gap_extend, r);
        let a = al.global(q).alignment();
        ensure!(
            a.score as i64 == expect_rq || a.score as i64 == expect_qr,
            "global: reference {:?} query {:?} scoring {:?} gap {}: score {} but the Needleman-Wunsch optimum is {} (function applied as f(reference, query)) or {} (as f(query, reference))",
            lossy(r), lossy(q), c.score, c.gap, a.score, expect_rq, expect_qr
        );
        let (expect, conv_score) = if a.score as i64 == expect_rq { (expect_rq, c.score.clone()) } else { (expect_qr, transposed.clone()) };
        let c_score_for_path = conv_score;
        let ops = match ops_of(&a) {
            Ok(o) => o,
            Err(e) => fail!("{}", e),
        };
        let walk = match validate_linear(&ops, r, q, &c_score_for_path, c.gap) {
            Ok(w) => w,
            Err(e) => fail!("global: reference {:?} query {:?} scoring {:?} gap {}: operations {:?} are not an alignment of the query to the reference: {}", lossy(r), lossy(q), c.score, c.gap, ops, e),
        };
        ensure!(
            walk.score == a.score as i64,
            "global: reference {:?} query {:?} scoring {:?} gap {}: operations {:?} recompute to {} but the reported score is {}",
            lossy(r), lossy(q), c.score, c.gap, ops, walk.score, a.score
        );

        let bw = r.len().max(q.len()) + c.band_extra;
        let b = al.global_banded(q, bw).alignment();
        ensure!(
            b.score as i64 == expect,
            "global_banded(bandwidth {}): reference {:?} query {:?} scoring {:?} gap {}: score {} but Needleman-Wunsch optimum (and unbanded score) is {}",
            bw, lossy(r), lossy(q), c.score, c.gap, b.score, expect
        );
        // a fresh aligner (no previous traceback) must agree as well
        let mut al2 = aligner(&c.score, c.gap, c.gap_extend, r);
        let b2 = al2.global_banded(q, bw).alignment();
        ensure!(
            b2.score as i64 == expect,
            "global_banded(bandwidth {}) on a fresh aligner: reference {:?} query {:?} scoring {:?} gap {}: score {} but optimum is {}",
            bw, lossy(r), lossy(q), c.score, c.gap, b2.score, expect
        );

        let differs = r != q;
        let mut pass = Pass::new(differs && walk.gaps >= 1);
        pass.add_if(!differs, "query identical to reference");
        pass.add_if(differs && walk.gaps >= 1, "query != reference, gap in optimal alignment");
        pass.add_if(differs && walk.gaps == 0, "query != reference, substitutions only");
        pass.add_if(r.len() == 1, "reference length 1");
        pass.add_if(q.len() == 1, "query length 1");
        pass.add_if(r.len() != q.len(), "lengths differ");
        pass.add_if(c.gap == 0, "gap penalty 0");
        pass.add_if(c.score.is_table(), "table scoring");
        pass.add_if(!c.score.is_symmetric() && expect_rq != expect_qr, "asymmetric table: argument order matters");
        pass.add_if(c.band_extra == 0, "bandwidth = max(lengths)");
        pass.add_if(expect < 0, "negative optimum");
        pass.add_if(walk.gaps >= 3, ">=3 gap columns");
        Ok(pass)
    }

    pub fn strat(_t: Tier) -> BoxedStrategy<Case> {
        prop_oneof![1 => Just(1u8), 4 => Just(2u8), 3 => Just(3u8)]
            .prop_flat_map(|sigma| {
                let reference = prop_oneof![1 => seq(sigma, b'a', 1..=1), 8 => seq(sigma, b'a', 2..=14), 1 => seq(sigma, b'a', 15..=40)];
                (
                    reference,
                    query_spec(sigma),
                    score(sigma),
                    -3i32..=0,
                    -5i32..=0,
                    prop_oneof![3 => Just(0usize), 2 => 1usize..=4],
                )
            })
            .prop_map(|(r, qs, score, gap, gap_extend, band_extra)| {
                let q = realise(&r, &qs);
                Case { reference: B(r), query: B(q), score, gap, gap_extend, band_extra }
            })
            .boxed()
    }

    fn all_strings(max_len: usize) -> Vec<Vec<u8>> {
        let mut out = Vec::new();
        for l in 1..=max_len {
            for bits in 0..(1u32 << l) {
                out.push((0..l).map(|k| b'a' + ((bits >> k) & 1) as u8).collect());
            }
        }
        out
    }

    pub fn enumerate(t: Tier) -> Box<dyn Iterator<Item = Case>> {
        let max_len = match t {
            Tier::Quick => 4,
            Tier::Thorough => 6,
        };
        let strings = std::sync::Arc::new(all_strings(max_len));
        // (match, mismatch, gap)
        let scorings: Vec<(i32, i32, i32)> = vec![(1, -1, -1), (2, -1, -2), (1, 0, 0), (0, 0, -1), (3, -3, -1), (1, -3, 0), (0, -1, 0)];
        let n = strings.len();
        Box::new(scorings.into_iter().flat_map(move |(m, x, g)| {
            let strings = strings.clone();
            (0..n * n).map(move |k| Case {
                reference: B(strings[k / n].clone()),
                query: B(strings[k % n].clone()),
                score: Score::Simple { m, x },
                gap: g,
                gap_extend: -1,
                band_extra: 0,
            })
        }))
    }
}

// ---------------------------------------------------------------------------
// generators shared by both sub-checks

#[derive(Debug, Clone)]
enum QSpec {
    Same,
    Edits(Vec<Edit>),
    Rand(Vec<u8>),
}

fn query_spec(sigma: u8) -> BoxedStrategy<QSpec> {
    prop_oneof![
        2 => Just(QSpec::Same),
        5 => proptest::collection::vec(edit(sigma, b'a'), 1..=4).prop_map(QSpec::Edits),
        2 => seq(sigma, b'a', 1..=14).prop_map(QSpec::Rand),
        1 => seq(sigma, b'a', 1..=1).prop_map(QSpec::Rand),
    ]
    .boxed()
}

fn realise(reference: &[u8], qs: &QSpec) -> Vec<u8> {
    let mut q = match qs {
        QSpec::Same => reference.to_vec(),
        QSpec::Edits(e) => apply_edits(reference, e),
        QSpec::Rand(v) => v.clone(),
    };
    if q.is_empty() {
        q.push(b'a');
    }
    q
}

fn score(sigma: u8) -> BoxedStrategy<Score> {
    let n = sigma as usize;
    prop_oneof![
        3 => (0i32..=3, -3i32..=0).prop_map(|(m, x)| Score::Simple { m, x }),
        // symmetric table, arbitrary entries
        1 => proptest::collection::vec(-3i32..=3, n * n).prop_map(move |v| symmetric(sigma, v)),
        // asymmetric table, arbitrary entries
        1 => proptest::collection::vec(-3i32..=3, n * n).prop_map(move |v| Score::Table { sigma, t: v }),
        // symmetric table, positive diagonal, non-positive elsewhere
        1 => (proptest::collection::vec(1i32..=3, n), proptest::collection::vec(-3i32..=0, n * n)).prop_map(move |(d, mut v)| {
            for i in 0..n {
                v[i * n + i] = d[i];
            }
            symmetric(sigma, v)
        }),
    ]
    .boxed()
}

fn strict_score(sigma: u8) -> BoxedStrategy<Score> {
    let n = sigma as usize;
    prop_oneof![
        1 => (1i32..=3, -3i32..=0).prop_map(|(m, x)| Score::Simple { m, x }),
        1 => (proptest::collection::vec(1i32..=3, n), proptest::collection::vec(-3i32..=0, n * n)).prop_map(move |(d, mut v)| {
            for i in 0..n {
                v[i * n + i] = d[i];
            }
            symmetric(sigma, v)
        }),
    ]
    .boxed()
}

fn symmetric(sigma: u8, mut v: Vec<i32>) -> Score {
    let n = sigma as usize;
    for i in 0..n {
        for j in 0..i {
            v[i * n + j] = v[j * n + i];
        }
    }
    Score::Table { sigma, t: v }
}

// ---------------------------------------------------------------------------
// sub-check 2: histories of align-and-add operations

pub mod history {
    use super::*;

    #[derive(Serialize, Deserialize, Debug, Clone)]
    pub struct Step {
        pub query: B,
        /// None: `global`; Some(e): `global_banded` with bandwidth = node count + |query| + e
        pub banded: Option<usize>,
    }

    #[derive(Serialize, Deserialize, Debug, Clone)]
    pub struct Case {
        pub reference: B,
        pub score: Score,
        pub gap: i32,
        pub gap_extend: i32,
        pub steps: Vec<Step>,
    }

    struct Snap {
        labels: Vec<u8>,
        /// (source, target) -> summed weight
        edges: BTreeMap<(usize, usize), i64>,
    }

    fn snap(g: &POAGraph) -> Snap {
        let labels = g.raw_nodes().iter().map(|n| n.weight).collect();
        let mut edges = BTreeMap::new();
        for e in g.raw_edges() {
            *edges.entry((e.source().index(), e.target().index())).or_insert(0i64) += e.weight as i64;
        }
        Snap { labels, edges }
    }

    /// Kahn's algorithm on the raw edge list
    fn acyclic(s: &Snap) -> bool {
        let n = s.labels.len();
        let mut indeg = vec![0usize; n];
        let mut succ: Vec<Vec<usize>> = vec![Vec::new(); n];
        for &(a, b) in s.edges.keys() {
            if a >= n || b >= n {
                return false;
            }
            indeg[b] += 1;
            succ[a].push(b);
        }
        let mut stack: Vec<usize> = (0..n).filter(|&i| indeg[i] == 0).collect();
        let mut seen = 0;
        while let Some(v) = stack.pop() {
            seen += 1;
            for &w in &succ[v] {
                indeg[w] -= 1;
                if indeg[w] == 0 {
                    stack.push(w);
                }
            }
        }
        seen == n
    }

    /// is `word` spelled by some path of the graph (set-of-states walk)
    fn spelled_by_path(s: &Snap, word: &[u8]) -> bool {
        let n = s.labels.len();
        let mut cur: Vec<bool> = (0..n).map(|i| s.labels[i] == word[0]).collect();
        for &c in &word[1..] {
            let mut next = vec![false; n];
            for &(a, b) in s.edges.keys() {
                if cur[a] && s.labels[b] == c {
                    next[b] = true;
                }
            }
            cur = next;
        }
        cur.iter().any(|&x| x)
    }

    fn describe(c: &Case, upto: usize) -> String {
        let qs: Vec<String> = c.steps[..upto]
            .iter()
            .map(|s| match s.banded {
                None => format!("global({:?})", lossy(&s.query)),
                Some(e) => format!("global_banded({:?},+{})", lossy(&s.query), e),
            })
            .collect();
        format!("reference {:?} scoring {:?} gap {} after [{}]", lossy(&c.reference), c.score, c.gap, qs.join(", "))
    }

    fn check_consensus(c: &Case, upto: usize, al: &Aligner<MF>, s: &Snap) -> Result<Vec<u8>, Stop> {
        let cons = match catch(|| al.consensus()) {
            Ok(v) => v,
            Err(p) => fail!("{}: consensus() panicked: {} (graph: {} nodes, {} edges)", describe(c, upto), p, s.labels.len(), s.edges.len()),
        };
        ensure!(!cons.is_empty(), "{}: consensus is empty", describe(c, upto));
        ensure!(
            spelled_by_path(s, &cons),
            "{}: consensus {:?} is not spelled by any path of the graph (labels {:?}, edges {:?})",
            describe(c, upto), lossy(&cons), lossy(&s.labels), s.edges
        );
        Ok(cons)
    }

    pub fn check(c: &Case) -> R {
        let r: &[u8] = &c.reference;
        ensure!(!r.is_empty() && c.steps.iter().all(|s| !s.query.is_empty()), "harness: empty reference/query generated");
        ensure!(c.gap <= 0 && c.gap_extend <= 0, "harness: positive gap penalty generated");
        ensure!(c.score.covers(r) && c.steps.iter().all(|s| c.score.covers(&s.query)), "harness: symbols outside the score table");
        ensure!(!r.contains(&b'X') && c.steps.iter().all(|s| !s.query.contains(&b'X')), "harness: wildcard X generated");

        let mut al = aligner(&c.score, c.gap, c.gap_extend, r);
        let mut before = snap(al.graph());
        ensure!(before.labels == r, "{}: node labels {:?} of the initial graph differ from the reference", describe(c, 0), lossy(&before.labels));
        // the empty series: consensus of the reference-only graph
        let cons0 = check_consensus(c, 0, &al, &before)?;
        ensure!(cons0 == r, "{}: consensus {:?} of the reference-only graph differs from the reference", describe(c, 0), lossy(&cons0));

        let strict = c.score.identity_unique();
        let mut all_same = true;
        let mut pass = Pass::new(c.steps.len() >= 2);
        for (k, st) in c.steps.iter().enumerate() {
            let q: &[u8] = &st.query;
            let a = match st.banded {
                None => al.global(q).alignment(),
                Some(e) => al.global_banded(q, before.labels.len() + q.len() + e).alignment(),
            };
            // while the graph still is the plain chain of the reference (only copies of it were absorbed)
            // it is "a graph built from one sequence": the score must be the Needleman-Wunsch optimum,
            // whatever the aligner object did before
            let chain = before.labels == r && before.edges.len() + 1 == r.len() && (0..r.len().saturating_sub(1)).all(|i| before.edges.contains_key(&(i, i + 1)));
            if chain {
                let e1 = nw(r, q, &c.score, c.gap);
                let e2 = nw(r, q, &c.score.transposed(), c.gap);
                ensure!(
                    a.score as i64 == e1 || a.score as i64 == e2,
                    "{}: the graph is still the chain of the reference, but aligning query {:?} ({}) scores {} instead of the Needleman-Wunsch optimum {}",
                    describe(c, k), lossy(q), if st.banded.is_some() { "global_banded" } else { "global" }, a.score, e1
                );
                pass.add("score checked on a chain graph inside a history");
                pass.add_if(k > 0, "score checked on a chain graph after earlier additions");
            }
            al.add_to_graph();
            let after = snap(al.graph());
            let upto = k + 1;
            ensure!(acyclic(&after), "{}: the graph has a cycle (labels {:?}, edges {:?})", describe(c, upto), lossy(&after.labels), after.edges);
            ensure!(
                after.labels.len() >= before.labels.len() && after.labels[..before.labels.len()] == before.labels[..],
                "{}: node labels changed: before {:?}, after {:?}",
                describe(c, upto), lossy(&before.labels), lossy(&after.labels)
            );
            for (e, w) in &before.edges {
                let now = after.edges.get(e).copied();
                ensure!(
                    now.is_some_and(|n| n >= *w),
                    "{}: edge {:?} had weight {} before the addition and has {:?} after it",
                    describe(c, upto), e, w, now
                );
            }
            let grown = after.labels.len() - before.labels.len();
            ensure!(grown <= q.len(), "{}: node count grew by {} > query length {}", describe(c, upto), grown, q.len());
            let cons = check_consensus(c, upto, &al, &after)?;
            all_same &= q == r;
            if all_same && strict {
                ensure!(
                    after.labels == r,
                    "{}: only copies of the reference were added (identity is the unique optimal alignment) but the node labels are {:?}",
                    describe(c, upto), lossy(&after.labels)
                );
                ensure!(
                    cons == r,
                    "{}: only copies of the reference were added but the consensus is {:?}",
                    describe(c, upto), lossy(&cons)
                );
            }
            pass.add_if(grown > 0, "addition created nodes");
            pass.add_if(grown == 0 && q != r, "query != reference absorbed without new nodes");
            pass.add_if(after.edges.is_empty(), "graph without edges");
            pass.add_if(st.banded.is_some(), "banded step");
            pass.add_if(q == r, "step adds the reference itself");
            before = after;
        }
        let n = before.labels.len();
        let mut outdeg = vec![0usize; n];
        let mut indeg = vec![0usize; n];
        for &(a, b) in before.edges.keys() {
            outdeg[a] += 1;
            indeg[b] += 1;
        }
        pass.add_if(c.steps.len() >= 2, "history length >= 2");
        pass.add_if(c.steps.len() >= 4, "history length >= 4");
        pass.add_if(c.steps.is_empty(), "empty history");
        pass.add_if(r.len() == 1, "reference length 1");
        pass.add_if(all_same && strict && c.steps.len() >= 2, "reference added repeatedly (identity clause checked)");
        pass.add_if(all_same && !strict && !c.steps.is_empty(), "reference added, scoring admits other optimal alignments");
        pass.add_if(outdeg.iter().any(|&d| d >= 2), "branching graph");
        pass.add_if(indeg.iter().filter(|&&d| d == 0).count() >= 2, "several source nodes");
        pass.add_if(outdeg.iter().filter(|&&d| d == 0).count() >= 2, "several sink nodes");
        pass.add_if(before.edges.values().any(|&w| w >= 3), "edge weight >= 3");
        pass.add_if(c.score.is_table(), "table scoring");
        pass.add_if(c.gap == 0, "gap penalty 0");
        Ok(pass)
    }

    pub fn strat(_t: Tier) -> BoxedStrategy<Case> {
        (prop_oneof![1 => Just(1u8), 4 => Just(2u8), 3 => Just(3u8)], prop_oneof![6 => Just(false), 1 => Just(true)])
            .prop_flat_map(|(sigma, identity)| {
                let reference = prop_oneof![1 => seq(sigma, b'a', 1..=1), 1 => seq(sigma, b'a', 2..=3), 6 => seq(sigma, b'a', 4..=14)];
                // identity histories: only copies of the reference under a scoring with a unique optimum
                let qs = if identity { Just(QSpec::Same).boxed() } else { query_spec(sigma) };
                let sc = if identity { strict_score(sigma) } else { score(sigma) };
                let step = (qs, proptest::option::weighted(0.3, 0usize..=3));
                let steps = prop_oneof![1 => proptest::collection::vec(step.clone(), 0..=1), 6 => proptest::collection::vec(step, 2..=5)];
                (reference, steps, sc, -3i32..=0, -5i32..=0)
            })
            .prop_map(|(r, steps, score, gap, gap_extend)| {
                let steps = steps.into_iter().map(|(qs, banded)| Step { query: B(realise(&r, &qs)), banded }).collect();
                Case { reference: B(r), score, gap, gap_extend, steps }
            })
            .boxed()
    }
}

pub fn property() -> Property {
    Property {
        id: "C16",
        rule: "linear: reference (1..14, a tenth 15..40) and query (copy, 1-4 edits of the reference, or random, 1..14) over 1-3 letters (never X), match/mismatch scores or a symmetric score table, per-base gap penalty -3..0 (gap_extend arbitrary); global() score = textbook Needleman-Wunsch, the operation list (read through the derived Serialize of poa::Alignment) consumes reference and query exactly and recomputes to the reported score, global_banded with bandwidth >= max(lengths) gives the same score; exhaustive: all reference/query pairs over {a,b} up to length 4 (6 thorough) under 7 scorings. history: 0-5 global/global_banded(bandwidth >= nodes+|query|) + add_to_graph steps; after every step: acyclic, old node labels unchanged, every old (source,target) edge present with summed weight >= before, node growth <= |query|, consensus() non-empty and spelled by a path; while only copies of the reference were added under a scoring that makes the identity alignment the unique optimum: node labels and consensus equal the reference. Non-trivial = linear: query != reference with at least one gap column in the returned optimal alignment; history: at least 2 additions. Distinct = distinct serialised case.",
        assumptions: &[
            "sequences never contain the symbol X (add_alignment treats a query X as a wildcard that is absorbed by any node)",
            "the argument order of the match function is not part of the property: for asymmetric tables either f(reference, query) or f(query, reference) is accepted, but consistently for score, path and banded run",
            "the clause 'adding the reference leaves nodes and consensus equal to it' is asserted only when equal symbols score >= 1 and different symbols <= 0 (otherwise other alignments of a sequence with itself are equally optimal and may legitimately add nodes)",
            "the empty series of additions is a series: consensus of the reference-only graph must be the reference",
            "scoring uses Scoring::new (no clip penalties configured)",
        ],
        subs: vec![
            Box::new(PropSub {
                name: "C16/linear",
                quick: 480_000,
                thorough: 12_000_000,
                shards_quick: 8,
                shards_thorough: 16,
                strat: linear::strat,
                check: linear::check,
                must_reach: &["query != reference, gap in optimal alignment", "query identical to reference", "reference length 1", "bandwidth = max(lengths)", "table scoring", "asymmetric table: argument order matters"],
                watch: true,
            }),
            Box::new(ExhSub { name: "C16/linear-exhaustive", enumerate: linear::enumerate, check: linear::check, must_reach: &["reference length 1"] }),
            Box::new(PropSub {
                name: "C16/history",
                quick: 240_000,
                thorough: 6_000_000,
                shards_quick: 8,
                shards_thorough: 16,
                strat: history::strat,
                check: history::check,
                must_reach: &["history length >= 2", "reference length 1", "graph without edges", "reference added repeatedly (identity clause checked)", "branching graph", "banded step", "edge weight >= 3", "score checked on a chain graph after earlier additions"],
                watch: true,
            }),
        ],
    }
}
