//! C09 — approximate matchers (Myers simple/block, Ukkonen) and distance
//! functions equal the edit-distance definition.

use crate::engine::gen::{apply_edits, edit, seq};
use crate::engine::*;
use crate::{ensure, fail};
use bio::alignment::distance;
use bio::pattern_matching::myers::{long, BitVec, Myers, MyersBuilder};
use bio::pattern_matching::ukkonen::{unit_cost, Ukkonen};
use proptest::prelude::*;
use serde::{Deserialize, Serialize};

// ---------------------------------------------------------------------------
// shared Myers case (also used by C10)

#[derive(Serialize, Deserialize, Debug, Clone)]
pub struct MyersCase {
    pub pattern: B,
    pub text: B,
    /// maximum distance; the single-word version is only run for k <= 255
    pub k: u64,
    /// machine word width: 8, 16, 32 or 64
    pub width: u8,
    /// pattern symbol -> text symbols it additionally matches
    pub ambig: Vec<(u8, B)>,
    /// text symbols matching every pattern position
    pub wildcards: B,
    /// boundary condition: the threshold is replaced by the smallest distance any end position has
    /// (so the best hits sit exactly on the threshold); `k` is then ignored
    #[serde(default)]
    pub k_is_best: bool,
}

impl MyersCase {
    pub fn eq(&self, p: u8, t: u8) -> bool {
        p == t || self.wildcards.contains(&t) || self.ambig.iter().any(|(s, e)| *s == p && e.contains(&t))
    }
    pub fn builder(&self) -> MyersBuilder {
        let mut b = MyersBuilder::new();
        for (s, e) in &self.ambig {
            b.ambig(*s, e.iter());
        }
        for w in self.wildcards.iter() {
            b.text_wildcard(*w);
        }
        b
    }
    pub fn plain(&self) -> bool {
        self.ambig.is_empty() && self.wildcards.is_empty()
    }
    pub fn simple<T: BitVec>(&self) -> Myers<T> {
        if self.plain() {
            Myers::<T>::new(self.pattern.iter())
        } else {
            self.builder().build::<T, _, _>(self.pattern.iter())
        }
    }
    pub fn long<T: BitVec>(&self) -> long::Myers<T> {
        if self.plain() {
            long::Myers::<T>::new(self.pattern.iter())
        } else {
            self.builder().build_long::<T, _, _>(self.pattern.iter())
        }
    }
    pub fn uses_ambiguity(&self) -> bool {
        let p_amb = self.ambig.iter().any(|(s, _)| self.pattern.contains(s));
        let t_wild = self.wildcards.iter().any(|w| self.text.contains(w));
        p_amb || t_wild
    }
}

/// semi-global DP (free start in the text): D[i][j] = min edit distance between pattern[..i]
/// and any substring of text ending at j (exclusive). Column-major: d[j][i].
pub fn semi_dp(c: &MyersCase) -> Vec<Vec<u32>> {
    let (p, t) = (&c.pattern, &c.text);
    let m = p.len();
    let mut cols: Vec<Vec<u32>> = Vec::with_capacity(t.len() + 1);
    cols.push((0..=m as u32).collect());
    for j in 1..=t.len() {
        let prev = &cols[j - 1];
        let mut col = vec![0u32; m + 1];
        for i in 1..=m {
            let sub = prev[i - 1] + if c.eq(p[i - 1], t[j - 1]) { 0 } else { 1 };
            col[i] = sub.min(prev[i] + 1).min(col[i - 1] + 1);
        }
        cols.push(col);
    }
    cols
}

/// all (end, distance) with distance <= k, in text order
pub fn expected_hits(dp: &[Vec<u32>], m: usize, k: u64) -> Vec<(usize, u64)> {
    (1..dp.len()).filter(|&j| dp[j][m] as u64 <= k).map(|j| (j - 1, dp[j][m] as u64)).collect()
}

pub fn best_of(dp: &[Vec<u32>], m: usize) -> Option<(usize, u64)> {
    let mut best: Option<(usize, u64)> = None;
    for j in 1..dp.len() {
        let d = dp[j][m] as u64;
        if best.map_or(true, |(_, b)| d < b) {
            best = Some((j - 1, d));
        }
    }
    best
}

#[macro_export]
macro_rules! by_width {
    ($w:expr, $f:ident, $($arg:expr),*) => {
        match $w {
            8 => $f::<u8>($($arg),*),
            16 => $f::<u16>($($arg),*),
            32 => $f::<u32>($($arg),*),
            64 => $f::<u64>($($arg),*),
            other => Err($crate::engine::Stop::Fail(format!("harness: unsupported word width {}", other))),
        }
    };
}

fn check_simple<T: BitVec<DistType = u8>>(c: &MyersCase, dp: &[Vec<u32>]) -> Result<(), Stop> {
    let m = c.pattern.len();
    let k = c.k as u8;
    let my = c.simple::<T>();
    let exp = expected_hits(dp, m, c.k);
    let got: Vec<(usize, u64)> = my.find_all_end(c.text.iter(), k).take(c.text.len() + 1).map(|(e, d)| (e, d as u64)).collect();
    ensure!(got == exp, "Myers<u{}> find_all_end(k={}) pattern={:?} text={:?} ambig={:?} wildcards={:?}: got {:?}, expected {:?}", c.width, k, lossy(&c.pattern), lossy(&c.text), c.ambig, c.wildcards, got, exp);
    // the same object again (matcher reuse)
    let again: Vec<(usize, u64)> = my.find_all_end(c.text.iter(), k).take(c.text.len() + 1).map(|(e, d)| (e, d as u64)).collect();
    ensure!(again == exp, "Myers<u{}> second find_all_end on the same object differs: {:?} vs {:?}", c.width, again, exp);
    if let Some((be, bd)) = best_of(dp, m) {
        let d = my.distance(c.text.iter()) as u64;
        ensure!(d == bd, "Myers<u{}>::distance pattern={:?} text={:?}: got {}, expected {}", c.width, lossy(&c.pattern), lossy(&c.text), d, bd);
        let (e, d2) = my.find_best_end(c.text.iter());
        ensure!((e, d2 as u64) == (be, bd), "Myers<u{}>::find_best_end pattern={:?} text={:?}: got {:?}, expected {:?}", c.width, lossy(&c.pattern), lossy(&c.text), (e, d2), (be, bd));
    }
    Ok(())
}

fn check_long<T: BitVec>(c: &MyersCase, dp: &[Vec<u32>]) -> Result<(), Stop> {
    let m = c.pattern.len();
    let k = if c.k > usize::MAX as u64 { usize::MAX } else { c.k as usize };
    let my = c.long::<T>();
    let exp = expected_hits(dp, m, c.k);
    let got: Vec<(usize, u64)> = my.find_all_end(c.text.iter(), k).take(c.text.len() + 1).map(|(e, d)| (e, d as u64)).collect();
    ensure!(got == exp, "long::Myers<u{}> find_all_end(k={}) pattern={:?} (m={}) text={:?} ambig={:?} wildcards={:?}: got {:?}, expected {:?}", c.width, k, lossy(&c.pattern), m, lossy(&c.text), c.ambig, c.wildcards, got, exp);
    let again: Vec<(usize, u64)> = my.find_all_end(c.text.iter(), k).take(c.text.len() + 1).map(|(e, d)| (e, d as u64)).collect();
    ensure!(again == exp, "long::Myers<u{}> second find_all_end on the same object differs: {:?} vs {:?}", c.width, again, exp);
    if let Some((be, bd)) = best_of(dp, m) {
        let d = my.distance(c.text.iter()) as u64;
        ensure!(d == bd, "long::Myers<u{}>::distance pattern={:?} (m={}) text={:?}: got {}, expected {}", c.width, lossy(&c.pattern), m, lossy(&c.text), d, bd);
        let (e, d2) = my.find_best_end(c.text.iter());
        ensure!((e, d2 as u64) == (be, bd), "long::Myers<u{}>::find_best_end pattern={:?} text={:?}: got {:?}, expected {:?}", c.width, lossy(&c.pattern), lossy(&c.text), (e, d2), (be, bd));
    }
    Ok(())
}

pub fn myers_classes(c: &MyersCase, p: &mut Pass) {
    let m = c.pattern.len();
    let w = c.width as usize;
    p.add_if(m > w, "multi-block pattern");
    p.add_if(m == w, "|p| = word width");
    p.add_if(m > w && m % w == 0, "|p| multiple of the width");
    p.add_if(m > w && m % w == 1, "|p| = width*b+1");
    p.add_if(c.k >= m as u64, "k >= |p|");
    p.add_if(c.k > 255, "k > 255 (block version only)");
    p.add_if(c.k >= u64::MAX - 64, "k near usize::MAX");
    p.add_if(c.uses_ambiguity(), "ambiguity/wildcard used");
    p.add_if(c.text.is_empty(), "empty text");
    p.add_if(c.text.len() < m, "text shorter than pattern");
    match c.width {
        8 => p.add("u8"),
        16 => p.add("u16"),
        32 => p.add("u32"),
        _ => p.add("u64"),
    }
}

/// resolve `k_is_best` into a concrete threshold
pub fn effective(c: &MyersCase) -> MyersCase {
    let mut c2 = c.clone();
    if c.k_is_best {
        let dp = semi_dp(c);
        if let Some((_, d)) = best_of(&dp, c.pattern.len()) {
            c2.k = d.min(255);
        }
    }
    c2.k_is_best = false;
    c2
}

pub fn check_myers(c0: &MyersCase) -> R {
    let c = &effective(c0);
    ensure!(!c.pattern.is_empty(), "harness: empty pattern");
    let m = c.pattern.len();
    let dp = semi_dp(c);
    let simple_applicable = m <= c.width as usize && c.k <= 255;
    if simple_applicable {
        by_width!(c.width, check_simple, c, &dp)?;
    }
    by_width!(c.width, check_long, c, &dp)?;
    let exp = expected_hits(&dp, m, c.k);
    let inexact = exp.iter().any(|(_, d)| *d > 0);
    let mut p = Pass::new(inexact && m >= 2);
    p.add_if(simple_applicable, "single-word version run");
    p.add_if(inexact, "hit with 0<d<=k");
    p.add_if(exp.is_empty(), "no hit");
    p.add_if(exp.iter().any(|(_, d)| *d == 0), "exact hit");
    p.add_if(c0.k_is_best && c.k >= 1, "threshold equal to the best distance (>= 1)");
    myers_classes(c, &mut p);
    Ok(p)
}

// ---------------------------------------------------------------------------
// generators

pub fn pattern_len() -> BoxedStrategy<usize> {
    prop_oneof![
        3 => 1usize..=4,
        2 => 7usize..=9,
        2 => 15usize..=17,
        2 => 31usize..=33,
        2 => 63usize..=65,
        1 => prop_oneof![Just(24usize), Just(25), Just(48), Just(49), Just(96), Just(97), Just(128), Just(129)],
        2 => 1usize..=130,
    ]
    .boxed()
}

pub fn kdist(m: usize) -> BoxedStrategy<u64> {
    prop_oneof![
        2 => Just(0u64),
        4 => 0u64..=3,
        3 => 0u64..=(m as u64 + 2),
        1 => 0u64..=255,
    ]
    .boxed()
}

pub fn khuge() -> BoxedStrategy<u64> {
    prop_oneof![Just(1000u64), Just(256), Just(u64::MAX - 64), Just(u64::MAX - 7), Just(u64::MAX)].boxed()
}

#[derive(Debug, Clone)]
pub struct Shape {
    pub sigma: u8,
    pub ambiguity: bool,
    pub wildcard: bool,
}

pub fn shape() -> BoxedStrategy<Shape> {
    (1u8..=4, 0u8..6).prop_map(|(sigma, a)| Shape { sigma, ambiguity: a < 2, wildcard: a == 0 }).boxed()
}

/// (pattern, text, ambig, wildcards)
pub fn pattern_text(sh: Shape, m: usize, text_max: usize) -> BoxedStrategy<(Vec<u8>, Vec<u8>, Vec<(u8, B)>, B)> {
    let sigma = sh.sigma;
    let pat = if sh.ambiguity {
        // pattern may contain the ambiguity symbol 'n'
        proptest::collection::vec(prop_oneof![5 => (0..sigma).prop_map(|c| b'a' + c), 1 => Just(b'n')], m).boxed()
    } else {
        seq(sigma, b'a', m)
    };
    let wildcard = sh.wildcard;
    let ambiguity = sh.ambiguity;
    (
        pat,
        seq(sigma, b'a', 0..=text_max / 2),
        seq(sigma, b'a', 0..=text_max / 2),
        proptest::collection::vec(edit(sigma, b'a'), 0..=5),
        any::<bool>(),
        proptest::collection::vec((0..sigma).prop_map(|c| b'a' + c), 1..=2),
        proptest::collection::vec(any::<u16>(), 0..=2),
        0u8..24,
        (0u8..12, any::<u16>()),
    )
        .prop_map(move |(p, l, r, ed, plant, amb_eq, wild_pos, short, (tshape, tfrac))| {
            // text shapes beyond "flank + noisy copy + flank": flanks over a disjoint alphabet, a text
            // that is entirely foreign to the pattern, a pattern suffix at the very start of the text,
            // a pattern prefix at its very end
            let alien = |v: &[u8]| -> Vec<u8> { v.iter().map(|c| b'w' + (c - b'a') % 4).collect() };
            let concrete_p: Vec<u8> = p.iter().map(|&c| if c == b'n' { amb_eq[0] } else { c }).collect();
            let (l, r, plant) = match tshape {
                8 => (alien(&l), alien(&r), plant),
                9 => (alien(&l), alien(&r), false),
                10 => {
                    let j = crate::engine::gen::idx(tfrac, concrete_p.len() - 1);
                    (concrete_p[j..].to_vec(), r, false)
                }
                11 => {
                    let j = crate::engine::gen::idx(tfrac, concrete_p.len() - 1);
                    let mut rr = concrete_p[..=j].to_vec();
                    rr.truncate(text_max / 2);
                    (l, rr, false)
                }
                _ => (l, r, plant),
            };
            let mut t = l;
            if plant {
                // noisy copy of the pattern (ambiguity symbols replaced by one of their equivalents)
                let concrete: Vec<u8> = p.iter().map(|&c| if c == b'n' { amb_eq[0] } else { c }).collect();
                t.extend(apply_edits(&concrete, &ed));
            }
            t.extend(r);
            t.truncate(match short { 0 => 0, 1 => 1, 2 => 3, _ => text_max });
            let mut wildcards = Vec::new();
            if wildcard && !t.is_empty() {
                wildcards.push(b'*');
                for wp in &wild_pos {
                    let i = crate::engine::gen::idx(*wp, t.len() - 1);
                    t[i] = b'*';
                }
            }
            let ambig = if ambiguity { vec![(b'n', B(amb_eq))] } else { vec![] };
            (p, t, ambig, B(wildcards))
        })
        .boxed()
}

pub fn width() -> BoxedStrategy<u8> {
    prop_oneof![3 => Just(8u8), 2 => Just(16u8), 2 => Just(32u8), 3 => Just(64u8)].boxed()
}

pub fn myers_case(text_max: usize, huge_k: bool) -> BoxedStrategy<MyersCase> {
    (shape(), pattern_len(), width())
        .prop_flat_map(move |(sh, m, width)| {
            let k = if huge_k { prop_oneof![6 => kdist(m), 1 => khuge()].boxed() } else { kdist(m) };
            (pattern_text(sh, m, text_max), k, Just(width))
        })
        .prop_map(|((p, t, ambig, wildcards), k, width)| MyersCase { pattern: B(p), text: B(t), k, width, ambig, wildcards, k_is_best: false })
        .prop_flat_map(|c| (Just(c), 0u8..3))
        .prop_map(|(mut c, f)| {
            c.k_is_best = f == 0;
            c
        })
        .boxed()
}

fn strat_myers(t: Tier) -> BoxedStrategy<MyersCase> {
    match t {
        Tier::Quick => myers_case(120, true),
        Tier::Thorough => myers_case(200, true),
    }
}

// ---------------------------------------------------------------------------
// Ukkonen

#[derive(Serialize, Deserialize, Debug, Clone)]
pub struct UkkCase {
    pub pattern: B,
    /// the same Ukkonen object is used for all searches in order
    pub searches: Vec<(B, u64)>,
    pub sigma: u8,
    /// cost table sigma x sigma (pattern symbol row, text symbol column); None = unit_cost
    pub cost: Option<Vec<u32>>,
    pub capacity: usize,
}

fn ukk_dp(p: &[u8], t: &[u8], cost: &dyn Fn(u8, u8) -> u32) -> Vec<u64> {
    let m = p.len();
    let mut prev: Vec<u64> = (0..=m as u64).collect();
    let mut out = Vec::new();
    for &tc in t {
        let mut col = vec![0u64; m + 1];
        for i in 1..=m {
            col[i] = (prev[i - 1] + cost(p[i - 1], tc) as u64).min(prev[i] + 1).min(col[i - 1] + 1);
        }
        out.push(col[m]);
        prev = col;
    }
    out
}

pub fn check_ukkonen(c: &UkkCase) -> R {
    let p: &[u8] = &c.pattern;
    ensure!(!p.is_empty(), "harness: empty pattern");
    let sigma = c.sigma as usize;
    let table = c.cost.clone();
    let costf = move |a: u8, b: u8| -> u32 {
        match &table {
            None => (a != b) as u32,
            Some(t) => t[(a - b'a') as usize * sigma + (b - b'a') as usize],
        }
    };
    let mut any_inexact = false;
    let mut n_hits = 0;
    let mut run = |got: Vec<(usize, usize)>, text: &[u8], k: u64, what: &str| -> Result<(), Stop> {
        let dist = ukk_dp(p, text, &costf);
        let exp: Vec<(usize, usize)> = dist.iter().enumerate().filter(|(_, d)| **d <= k).map(|(j, d)| (j, *d as usize)).collect();
        ensure!(got == exp, "Ukkonen ({}) pattern={:?} text={:?} k={} cost={:?}: got {:?}, expected {:?}", what, lossy(p), lossy(text), k, c.cost, got, exp);
        any_inexact |= exp.iter().any(|(_, d)| *d > 0);
        n_hits += exp.len();
        Ok(())
    };
    if c.cost.is_none() {
        let mut u = Ukkonen::with_capacity(c.capacity, unit_cost);
        for (i, (text, k)) in c.searches.iter().enumerate() {
            let got: Vec<(usize, usize)> = u.find_all_end(p, text.iter(), *k as usize).take(text.len() + 1).collect();
            run(got, text, *k, if i == 0 { "unit_cost, first search" } else { "unit_cost, reused object" })?;
        }
    } else {
        let mut u = Ukkonen::with_capacity(c.capacity, &costf);
        for (i, (text, k)) in c.searches.iter().enumerate() {
            let got: Vec<(usize, usize)> = u.find_all_end(p, text.iter(), *k as usize).take(text.len() + 1).collect();
            run(got, text, *k, if i == 0 { "cost table, first search" } else { "cost table, reused object" })?;
        }
    }
    Ok(Pass::new(any_inexact && p.len() >= 2)
        .class_if(c.cost.is_some(), "cost table")
        .class_if(c.cost.is_none(), "unit cost")
        .class_if(c.searches.len() >= 2, "object reused")
        .class_if(n_hits == 0, "no hit")
        .class_if(any_inexact, "hit with d>0")
        .class_if(c.searches.iter().any(|(_, k)| *k as usize >= p.len()), "k >= |p|")
        .class_if(c.capacity < p.len(), "capacity smaller than pattern"))
}

fn strat_ukkonen(_t: Tier) -> BoxedStrategy<UkkCase> {
    (1u8..=4)
        .prop_flat_map(|sigma| {
            let s = sigma as usize;
            (
                Just(sigma),
                prop_oneof![3 => 1usize..=6, 2 => 7usize..=20, 1 => 21usize..=60],
                prop_oneof![
                    2 => Just(None),
                    // metric-like: 0 on the diagonal
                    1 => proptest::collection::vec(0u32..=3, s * s).prop_map(move |mut v| { for i in 0..s { v[i * s + i] = 0; } Some(v) }),
                    // arbitrary values in 0..=3
                    1 => proptest::collection::vec(0u32..=3, s * s).prop_map(Some),
                ],
                0usize..=12,
            )
        })
        .prop_flat_map(|(sigma, m, cost, capacity)| {
            let one = (crate::engine::gen::planted(sigma, b'a', m, m, 40, 4), 0u64..=(m as u64 + 2)).prop_map(|((p, t), k)| (p, t, k));
            (Just(sigma), Just(cost), Just(capacity), one, proptest::collection::vec((seq(sigma, b'a', 0..=60), 0u64..=(m as u64 + 2)), 0..=2))
        })
        .prop_map(|(sigma, cost, capacity, (p, t, k), more)| {
            let mut searches = vec![(B(t), k)];
            searches.extend(more.into_iter().map(|(t, k)| (B(t), k)));
            UkkCase { pattern: B(p), searches, sigma, cost, capacity }
        })
        .boxed()
}

// ---------------------------------------------------------------------------
// distance functions

#[derive(Serialize, Deserialize, Debug, Clone)]
pub struct DistCase {
    pub a: B,
    pub b: B,
    pub bound: u32,
}

fn lev(a: &[u8], b: &[u8]) -> u32 {
    let mut prev: Vec<u32> = (0..=b.len() as u32).collect();
    for i in 1..=a.len() {
        let mut cur = vec![i as u32; b.len() + 1];
        for j in 1..=b.len() {
            cur[j] = (prev[j - 1] + (a[i - 1] != b[j - 1]) as u32).min(prev[j] + 1).min(cur[j - 1] + 1);
        }
        prev = cur;
    }
    prev[b.len()]
}

/// the distance functions on two given slices (which may be views of one buffer); the expected values are
/// computed from owned copies
pub fn check_dist_views(a: &[u8], b: &[u8], bound: u32) -> Result<(), Stop> {
    let (ao, bo) = (a.to_vec(), b.to_vec());
    let d = lev(&ao, &bo);
    let g = distance::levenshtein(a, b);
    ensure!(g == d, "levenshtein({:?},{:?}) = {}, expected {}", lossy(a), lossy(b), g, d);
    let g = distance::simd::levenshtein(a, b);
    ensure!(g == d, "simd::levenshtein({:?},{:?}) = {}, expected {}", lossy(a), lossy(b), g, d);
    let g = distance::simd::bounded_levenshtein(a, b, bound);
    let exp = if d <= bound { Some(d) } else { None };
    ensure!(g == exp, "simd::bounded_levenshtein({:?},{:?},{}) = {:?}, expected {:?}", lossy(a), lossy(b), bound, g, exp);
    if a.len() == b.len() {
        let h = ao.iter().zip(bo.iter()).filter(|(x, y)| x != y).count() as u64;
        let g = distance::hamming(a, b);
        ensure!(g == h, "hamming({:?},{:?}) = {}, expected {}", lossy(a), lossy(b), g, h);
        let g = distance::simd::hamming(a, b);
        ensure!(g == h, "simd::hamming({:?},{:?}) = {}, expected {}", lossy(a), lossy(b), g, h);
    }
    Ok(())
}

pub fn check_dist(c: &DistCase) -> R {
    let (a, b): (&[u8], &[u8]) = (&c.a, &c.b);
    let d = lev(a, b);
    let g = distance::levenshtein(a, b);
    ensure!(g == d, "levenshtein({:?},{:?}) = {}, expected {}", lossy(a), lossy(b), g, d);
    let g = distance::simd::levenshtein(a, b);
    ensure!(g == d, "simd::levenshtein({:?},{:?}) = {}, expected {}", lossy(a), lossy(b), g, d);
    let g = distance::simd::bounded_levenshtein(a, b, c.bound);
    let exp = if d <= c.bound { Some(d) } else { None };
    ensure!(g == exp, "simd::bounded_levenshtein({:?},{:?},{}) = {:?}, expected {:?}", lossy(a), lossy(b), c.bound, g, exp);
    let mut p = Pass::new(d > 0 && a.len() >= 2 && b.len() >= 2);
    if a.len() == b.len() {
        let h = a.iter().zip(b.iter()).filter(|(x, y)| x != y).count() as u64;
        let g = distance::hamming(a, b);
        ensure!(g == h, "hamming({:?},{:?}) = {}, expected {}", lossy(a), lossy(b), g, h);
        let g = distance::simd::hamming(a, b);
        ensure!(g == h, "simd::hamming({:?},{:?}) = {}, expected {}", lossy(a), lossy(b), g, h);
        p.add("equal lengths (hamming checked)");
    }
    p.add_if(d > c.bound, "distance exceeds the bound");
    p.add_if(d == c.bound, "distance equals the bound");
    p.add_if(a.is_empty() || b.is_empty(), "empty operand");
    p.add_if(a.len().max(b.len()) >= 32, "length >= 32 (SIMD lanes)");
    p.add_if(a.len().max(b.len()) >= 256, "length >= 256");
    Ok(p)
}

fn strat_dist(_t: Tier) -> BoxedStrategy<DistCase> {
    let len = prop_oneof![3 => 0usize..=12, 2 => 13usize..=40, 2 => prop_oneof![Just(15usize), Just(16), Just(17), Just(31), Just(32), Just(33), Just(63), Just(64), Just(65)], 1 => 41usize..=300];
    (prop_oneof![Just(1u8), Just(2), Just(4), Just(26)], len)
        .prop_flat_map(|(sigma, n)| {
            prop_oneof![
                // equal lengths with substitutions only
                2 => (seq(sigma, b'a', n), proptest::collection::vec((any::<u16>(), 0..sigma), 0..=6)).prop_map(move |(a, subs)| {
                    let mut b = a.clone();
                    for (p, c) in subs { if !b.is_empty() { let i = crate::engine::gen::idx(p, b.len() - 1); b[i] = b'a' + c; } }
                    (a, b)
                }),
                // edited copy
                3 => (seq(sigma, b'a', n), proptest::collection::vec(edit(sigma, b'a'), 0..=8)).prop_map(|(a, ed)| { let b = apply_edits(&a, &ed); (a, b) }),
                // independent
                2 => (seq(sigma, b'a', n), seq(sigma, b'a', 0..=n + 3)),
            ]
        })
        .prop_flat_map(|(a, b)| {
            let mx = a.len().max(b.len()) as u32;
            (Just(a), Just(b), prop_oneof![3 => 0u32..=mx + 2, 1 => 0u32..=3, 1 => Just(u32::MAX)])
        })
        .prop_map(|(a, b, bound)| DistCase { a: B(a), b: B(b), bound })
        .boxed()
}


// ---------------------------------------------------------------------------
// large scale: distances on inputs across the size ladder (narrow lane counters, block limits) and
// block-based Myers with patterns of 255..8193 symbols (dozens to thousands of blocks)

pub mod large {
    use super::*;
    use crate::oracles::prng::{ladder_label, Sm, LADDER};

    #[derive(Serialize, Deserialize, Debug, Clone)]
    pub struct DistCase {
        pub n: usize,
        /// 0: b = a with a substitution at every `period`-th position; 1: disjoint alphabets (all positions differ);
        /// 2: identical; 3: independent random bytes; 4: b = a + a tail of `extra` symbols
        pub kind: u8,
        pub period: u32,
        pub extra: u32,
        pub seed: u64,
        /// bound for bounded_levenshtein relative to the true distance: d + delta - 2 (clamped at 0)
        pub delta: u8,
    }

    fn lev_two_rows(a: &[u8], b: &[u8]) -> u32 {
        let mut prev: Vec<u32> = (0..=b.len() as u32).collect();
        let mut cur = vec![0u32; b.len() + 1];
        for i in 1..=a.len() {
            cur[0] = i as u32;
            for j in 1..=b.len() {
                cur[j] = (prev[j - 1] + (a[i - 1] != b[j - 1]) as u32).min(prev[j] + 1).min(cur[j - 1] + 1);
            }
            std::mem::swap(&mut prev, &mut cur);
        }
        prev[b.len()]
    }

    pub fn check_dist(c: &DistCase) -> R {
        ensure!(c.n <= 140_000 && c.period >= 1 && c.extra <= 300, "harness: case outside the large-distance domain");
        let mut g = Sm::new(c.seed);
        let a: Vec<u8> = match c.kind {
            1 => (0..c.n).map(|_| b"AC"[g.below(2) as usize]).collect(),
            3 => g.bytes(c.n, 256, 0),
            _ => (0..c.n).map(|_| b"ACGT"[g.below(4) as usize]).collect(),
        };
        let b: Vec<u8> = match c.kind {
            0 => a.iter().enumerate().map(|(i, &x)| if i as u32 % c.period == c.period - 1 { match x { b'A' => b'C', b'C' => b'G', b'G' => b'T', _ => b'A' } } else { x }).collect(),
            1 => (0..c.n).map(|_| b"GT"[g.below(2) as usize]).collect(),
            2 => a.clone(),
            3 => g.bytes(c.n, 256, 0),
            _ => {
                let mut v = a.clone();
                v.extend((0..c.extra).map(|_| b"ACGT"[g.below(4) as usize]));
                v
            }
        };
        let desc = || format!("n={} kind={} period={} extra={} seed={}", c.n, c.kind, c.period, c.extra, c.seed);
        let mut pass = Pass::new(c.n >= 256);
        if a.len() == b.len() {
            let h = a.iter().zip(b.iter()).filter(|(x, y)| x != y).count() as u64;
            let got = distance::hamming(&a, &b);
            ensure!(got == h, "hamming ({}) = {}, the number of differing positions is {}", desc(), got, h);
            let got = distance::simd::hamming(&a, &b);
            ensure!(got == h, "simd::hamming ({}) = {}, the number of differing positions is {}", desc(), got, h);
            pass.add("hamming checked");
            pass.add_if(h >= 256, "256 or more mismatches");
            pass.add_if(h as usize == c.n && c.n >= 8192, "all positions differ, n >= 8192");
            pass.add_if(c.kind == 0 && c.period == 32 && c.n >= 8192, "every 32nd position differs, n >= 8192");
        }
        // Levenshtein: exact DP when affordable, analytic value for the structured kinds otherwise
        let lev: Option<u32> = if a.len() <= 2100 {
            Some(lev_two_rows(&a, &b))
        } else {
            match c.kind {
                2 => Some(0),
                4 => Some(c.extra),
                1 if c.n <= 4200 => Some(c.n as u32), // disjoint alphabets, equal lengths
                _ => None,
            }
        };
        if let Some(d) = lev {
            let got = distance::levenshtein(&a, &b);
            ensure!(got == d, "levenshtein ({}) = {}, expected {}", desc(), got, d);
            let got = distance::simd::levenshtein(&a, &b);
            ensure!(got == d, "simd::levenshtein ({}) = {}, expected {}", desc(), got, d);
            let k = (d + c.delta as u32).saturating_sub(2);
            let got = distance::simd::bounded_levenshtein(&a, &b, k);
            let exp = if d <= k { Some(d) } else { None };
            ensure!(got == exp, "simd::bounded_levenshtein ({}, bound {}) = {:?}, expected {:?}", desc(), k, got, exp);
            pass.add("levenshtein checked");
            pass.add_if(d >= 256, "levenshtein distance >= 256");
        }
        if let Some(l) = ladder_label(c.n) {
            pass.add(l);
        }
        Ok(pass)
    }

    pub fn strat_dist(_t: Tier) -> BoxedStrategy<DistCase> {
        let n = prop_oneof![6 => proptest::sample::select(LADDER.to_vec()), 2 => 258usize..=2100, 1 => 2100usize..=20_000];
        (n, 0u8..=4, prop_oneof![1 => Just(1u32), 1 => Just(2), 1 => Just(31), 5 => Just(32), 1 => Just(33), 1 => Just(64), 1 => Just(255), 1 => Just(256), 1 => Just(257), 2 => 3u32..=300], 0u32..=300, any::<u64>(), 0u8..=4)
            .prop_map(|(n, kind, period, extra, seed, delta)| DistCase { n, kind, period, extra, seed, delta })
            .boxed()
    }

    #[derive(Serialize, Deserialize, Debug, Clone)]
    pub struct MyersLarge {
        pub m: usize,
        pub width: u8,
        /// 0 random ACGT, 1 periodic (unit 1..5), 2 homopolymer with a distinct last symbol
        pub kind: u8,
        pub seed: u64,
        pub k: u32,
        /// number of planted copies and number of edits applied to each
        pub copies: u8,
        pub edits: u16,
        /// flank length in symbols
        pub flank: u16,
    }

    fn build(c: &MyersLarge) -> (Vec<u8>, Vec<u8>) {
        let mut g = Sm::new(c.seed);
        let p: Vec<u8> = match c.kind {
            0 => (0..c.m).map(|_| b"ACGT"[g.below(4) as usize]).collect(),
            1 => {
                let u = 1 + g.below(5) as usize;
                let unit: Vec<u8> = (0..u).map(|_| b"ACGT"[g.below(4) as usize]).collect();
                unit.iter().cycle().take(c.m).cloned().collect()
            }
            _ => {
                let mut v = vec![b'A'; c.m];
                v[c.m - 1] = b'C';
                v
            }
        };
        let mut t: Vec<u8> = (0..c.flank).map(|_| b"ACGT"[g.below(4) as usize]).collect();
        for _ in 0..c.copies {
            let mut copy = p.clone();
            for _ in 0..c.edits {
                if copy.is_empty() {
                    break;
                }
                let i = g.below(copy.len() as u64) as usize;
                match g.below(3) {
                    0 => copy[i] = b"ACGT"[g.below(4) as usize],
                    1 => copy.insert(i, b"ACGT"[g.below(4) as usize]),
                    _ => {
                        copy.remove(i);
                    }
                }
            }
            t.extend(copy);
            t.extend((0..c.flank).map(|_| b"ACGT"[g.below(4) as usize]));
        }
        (p, t)
    }

    /// last DP row of the semi-global alignment, streaming over the text (O(m) memory)
    fn last_row(p: &[u8], t: &[u8]) -> Vec<u32> {
        let m = p.len();
        let mut col: Vec<u32> = (0..=m as u32).collect();
        let mut out = Vec::with_capacity(t.len());
        for &tc in t {
            let mut diag = col[0];
            col[0] = 0;
            for i in 1..=m {
                let up_left = diag;
                diag = col[i];
                col[i] = (up_left + (p[i - 1] != tc) as u32).min(col[i] + 1).min(col[i - 1] + 1);
            }
            out.push(col[m]);
        }
        out
    }

    fn run_long<T: BitVec>(p: &[u8], t: &[u8], k: usize) -> (Vec<(usize, usize)>, usize, (usize, usize)) {
        let my = long::Myers::<T>::new(p.iter());
        let hits: Vec<(usize, usize)> = my.find_all_end(t.iter(), k).take(t.len() + 1).collect();
        let d = my.distance(t.iter());
        let b = my.find_best_end(t.iter());
        (hits, d, b)
    }

    pub fn check_myers_large(c: &MyersLarge) -> R {
        ensure!(c.m >= 1 && c.m <= 9000 && c.copies >= 1 && c.copies <= 3 && c.flank >= 1, "harness: case outside the large-Myers domain");
        let (p, t) = build(c);
        let row = last_row(&p, &t);
        let k = c.k as usize;
        let exp: Vec<(usize, usize)> = row.iter().enumerate().filter(|(_, d)| **d as usize <= k).map(|(j, d)| (j, *d as usize)).collect();
        let best = row.iter().enumerate().min_by_key(|(j, d)| (**d, *j)).map(|(j, d)| (j, *d as usize)).unwrap();
        let (hits, d, b) = match c.width {
            8 => run_long::<u8>(&p, &t, k),
            16 => run_long::<u16>(&p, &t, k),
            32 => run_long::<u32>(&p, &t, k),
            _ => run_long::<u64>(&p, &t, k),
        };
        let desc = || format!("long::Myers<u{}> pattern length {} (kind {}, seed {}), text length {}, k={}", c.width, c.m, c.kind, c.seed, t.len(), k);
        ensure!(hits == exp, "{}: find_all_end yields {} hits {:?}.., the DP has {} hits {:?}..", desc(), hits.len(), &hits[..hits.len().min(5)], exp.len(), &exp[..exp.len().min(5)]);
        ensure!(d == best.1, "{}: distance() = {}, expected {}", desc(), d, best.1);
        ensure!(b == best, "{}: find_best_end() = {:?}, expected {:?}", desc(), b, best);
        let mut pass = Pass::new(!exp.is_empty());
        if let Some(l) = ladder_label(c.m) {
            pass.add(l);
        }
        pass.add_if(c.m / (c.width as usize) >= 32, "32 or more blocks");
        pass.add_if(c.m / (c.width as usize) >= 256, "256 or more blocks");
        pass.add_if((255..=257).contains(&k), "k in 255..257");
        pass.add_if(exp.iter().any(|(_, d)| *d > 0), "inexact hit");
        pass.add_if(exp.is_empty(), "no hit");
        Ok(pass)
    }

    pub fn strat_myers(_t: Tier) -> BoxedStrategy<MyersLarge> {
        let m = prop_oneof![5 => proptest::sample::select(vec![255usize, 256, 257, 511, 512, 513, 1023, 1024, 1025, 2047, 2048, 2049, 4095, 4096, 4097]), 1 => proptest::sample::select(vec![8191usize, 8192, 8193]), 2 => 258usize..=1500];
        (m, super::width(), 0u8..=2, any::<u64>(), prop_oneof![3 => 0u32..=12, 2 => 12u32..=80, 1 => 255u32..=257], 1u8..=3, 0u16..=40, prop_oneof![Just(1u16), 1u16..=300])
            .prop_map(|(m, width, kind, seed, k, copies, edits, flank)| MyersLarge { m, width, kind, seed, k, copies, edits, flank })
            .boxed()
    }
}

pub fn property() -> Property {
    Property {
        id: "C09",
        rule: "Myers: pattern lengths forced to 1..4, 7..9, 15..17, 31..33, 63..65, multiples of the widths (+1) and 1..130, text 0..120 with a planted noisy copy in half the cases, 1-4 letters, optional pattern ambiguity symbol and text wildcard, k from {0, 0..3, 0..m+2, 0..255} plus {256, 1000, usize::MAX-64.., usize::MAX} for the block version, word type u8/u16/u32/u64; the single-word version is run whenever |p| <= width and k <= 255, the block version always; oracle = semi-global column DP under the configured equality; find_all_end (twice on one object), distance, find_best_end. Ukkonen: cost tables with values 0..=3 or unit_cost, one object reused for 1-3 searches. Distances: textbook DP / mismatch count. Non-trivial = a hit with 0 < d <= k and |p| >= 2 (distance functions: d > 0, both lengths >= 2); distinct = distinct serialised case.",
        assumptions: &["k <= 255 for the single-word version (u8 distance type)", "hamming only for equal lengths (documented assertion)", "distance()/find_best_end() are only asked for non-empty texts"],
        subs: vec![
            Box::new(PropSub { name: "C09/myers", quick: 320_000, thorough: 4_000_000, shards_quick: 16, shards_thorough: 16, strat: strat_myers, check: check_myers, must_reach: &["multi-block pattern", "|p| = word width", "|p| multiple of the width", "|p| = width*b+1", "k >= |p|", "ambiguity/wildcard used", "hit with 0<d<=k", "single-word version run", "k near usize::MAX", "u8", "u16", "u32", "u64"], watch: true }),
            Box::new(PropSub { name: "C09/large-distance", quick: 800, thorough: 40_000, shards_quick: 16, shards_thorough: 16, strat: large::strat_dist, check: large::check_dist, must_reach: &["size in 255..257", "size in 8191..8193", "size in 65535..65537", "size in 131071..131073", "all positions differ, n >= 8192", "every 32nd position differs, n >= 8192", "levenshtein distance >= 256", "hamming checked"], watch: true }),
            Box::new(PropSub { name: "C09/large-myers", quick: 320, thorough: 16_000, shards_quick: 16, shards_thorough: 16, strat: large::strat_myers, check: large::check_myers_large, must_reach: &["size in 255..257", "size in 511..513", "size in 1023..1025", "size in 4095..4097", "size in 8191..8193", "256 or more blocks", "k in 255..257", "inexact hit"], watch: true }),
            Box::new(PropSub { name: "C09/ukkonen", quick: 160_000, thorough: 2_000_000, shards_quick: 8, shards_thorough: 16, strat: strat_ukkonen, check: check_ukkonen, must_reach: &["cost table", "object reused", "hit with d>0", "k >= |p|"], watch: true }),
            Box::new(PropSub { name: "C09/distance", quick: 160_000, thorough: 2_000_000, shards_quick: 8, shards_thorough: 16, strat: strat_dist, check: check_dist, must_reach: &["equal lengths (hamming checked)", "distance exceeds the bound", "distance equals the bound", "length >= 32 (SIMD lanes)", "empty operand"], watch: true }),
        ],
    }
}
