//! C05 — FM-index backward search returns exactly the pattern's occurrences
//! (Complete / Partial(longest occurring suffix) / Absent), for every Occ rate,
//! for borrowed / owned / Arc components, through the raw and a sampled suffix array.

use crate::engine::gen::idx;
use crate::engine::*;
use crate::oracles::naive_find;
use crate::ensure;
use bio::alphabets::Alphabet;
use bio::data_structures::bwt::{bwt, less, Occ};
use bio::data_structures::fmindex::{BackwardSearchResult, FMIndex, FMIndexable, Interval};
use bio::data_structures::suffix_array::{suffix_array, RawSuffixArray, SuffixArray};
use proptest::prelude::*;
use serde::{Deserialize, Serialize};
use std::sync::Arc;

#[derive(Serialize, Deserialize, Debug, Clone, Copy, PartialEq, Eq)]
pub enum Own {
    Borrowed,
    Owned,
    Arc,
}

#[derive(Serialize, Deserialize, Debug, Clone)]
pub struct Case {
    /// indexed text: last byte is the sentinel (smallest symbol), which may also occur inside
    pub text: B,
    /// symbols handed to `less` / `Occ::new` (superset of the non-sentinel text symbols)
    pub alphabet: B,
    /// Occ sampling rate
    pub k: u32,
    /// suffix array sampling rate
    pub sa_rate: usize,
    pub own: Own,
    /// non-empty, sentinel-free, over `alphabet`
    pub patterns: Vec<B>,
    /// the sampled suffix array is sampled again (SuffixArray::sample on the sampled array) at each of these
    /// rates in turn; positions are resolved through the last one
    #[serde(default)]
    pub resample: Vec<usize>,
}

#[derive(Default)]
struct Seen {
    complete: bool,
    partial1: bool,
    partial2: bool,
    absent: bool,
    multi_occ: bool,
    longer: bool,
    absent_symbol: bool,
    boundary: bool,
}

fn sorted(mut v: Vec<usize>) -> Vec<usize> {
    v.sort_unstable();
    v
}

fn run<F: FMIndexable, S: SuffixArray>(fm: &F, sa: &RawSuffixArray, ssa: &S, c: &Case, seen: &mut Seen) -> Result<(), Stop> {
    let text: &[u8] = &c.text;
    let n = text.len();
    let sentinel = text[n - 1];
    for p in &c.patterns {
        let p: &[u8] = p;
        let m = p.len();
        // oracle: longest suffix of p that occurs in the text (occurrence is monotone in the suffix length)
        let mut best = 0usize;
        let mut best_occ: Vec<usize> = Vec::new();
        for j in 1..=m {
            let o = naive_find(&p[m - j..], text);
            if o.is_empty() {
                break;
            }
            best = j;
            best_occ = o;
        }
        let got = fm.backward_search(p.iter());
        let ctx = || format!("text {:?} alphabet {:?} k={} sa_rate={} {:?} pattern {:?}", c.text, c.alphabet, c.k, c.sa_rate, c.own, lossy(p));
        let expect_desc = if best == m {
            format!("Complete with occurrences {:?}", best_occ)
        } else if best == 0 {
            "Absent".to_string()
        } else {
            format!("Partial(l={}) with occurrences {:?} of suffix {:?}", best, best_occ, lossy(&p[m - best..]))
        };
        let check_iv = |iv: &Interval, what: &str| -> Result<(), Stop> {
            ensure!(iv.lower <= iv.upper && iv.upper <= n, "{}: {} interval {:?} not inside 0..{}; expected {}", ctx(), what, iv, n, expect_desc);
            let raw = sorted(iv.occ(sa));
            ensure!(raw == best_occ, "{}: {} interval {:?} maps through the suffix array to {:?}; expected {}", ctx(), what, iv, raw, expect_desc);
            // resolving one row through the sampled array costs up to sa_rate LF steps of up to k byte
            // counts each: for big intervals with sparse sampling only a spread of rows is resolved
            let rows = iv.upper - iv.lower;
            let per_row = (c.resample.last().copied().unwrap_or(c.sa_rate).min(n) as u64) * ((c.k as usize).min(n) as u64);
            if rows as u64 * per_row <= 40_000_000 {
                let smp = sorted(iv.occ(ssa));
                ensure!(smp == best_occ, "{}: {} interval {:?} maps through the SAMPLED suffix array (rate {}) to {:?}; expected {}", ctx(), what, iv, c.sa_rate, smp, expect_desc);
            } else {
                let allowed = ((40_000_000 / per_row.max(1)) as usize).max(3);
                let step = (rows / allowed).max(1);
                for r in (iv.lower..iv.upper).step_by(step).chain(std::iter::once(iv.upper - 1)) {
                    let (a, b) = (ssa.get(r), sa.get(r));
                    ensure!(a == b, "{}: {} interval {:?}: row {} resolves to {:?} through the SAMPLED suffix array (rate {}), {:?} through the full one", ctx(), what, iv, r, a, c.sa_rate, b);
                }
            }
            Ok(())
        };
        match got {
            BackwardSearchResult::Complete(iv) => {
                ensure!(best == m, "{}: got Complete({:?}); expected {}", ctx(), iv, expect_desc);
                check_iv(&iv, "Complete")?;
            }
            BackwardSearchResult::Partial(iv, l) => {
                ensure!(best > 0 && best < m && l == best, "{}: got Partial({:?}, l={}); expected {}", ctx(), iv, l, expect_desc);
                check_iv(&iv, "Partial")?;
            }
            BackwardSearchResult::Absent => {
                ensure!(best == 0, "{}: got Absent; expected {}", ctx(), expect_desc);
            }
        }
        seen.complete |= best == m;
        seen.partial1 |= best == 1 && m > 1;
        seen.partial2 |= best >= 2 && best < m;
        seen.absent |= best == 0;
        seen.multi_occ |= best == m && best_occ.len() >= 2;
        seen.longer |= m > n;
        seen.absent_symbol |= p.iter().any(|a| !text.contains(a));
        // the longest occurring suffix cannot grow because every occurrence is preceded by a sentinel / the text start
        seen.boundary |= best > 0 && best < m && best_occ.iter().all(|&o| o == 0 || text[o - 1] == sentinel);
    }
    Ok(())
}

/// backward_search is a provided method of the `FMIndexable` trait: the same comparison for any implementor
/// (the FMD index is one) over the same components
pub fn check_implementor<F: FMIndexable>(fm: &F, text: &[u8], alphabet: &[u8], k: u32, patterns: &[Vec<u8>]) -> Result<(), Stop> {
    let c = Case { text: B(text.to_vec()), alphabet: B(alphabet.to_vec()), k, sa_rate: 1, own: Own::Borrowed, patterns: patterns.iter().map(|p| B(p.clone())).collect(), resample: Vec::new() };
    let sa = suffix_array(text);
    let mut seen = Seen::default();
    run(fm, &sa, &sa, &c, &mut seen)
}

pub fn check(c: &Case) -> R {
    let text: &[u8] = &c.text;
    let n = text.len();
    // ---- domain (harness self-check: these never fire on generated cases)
    ensure!(n >= 1, "harness: empty text");
    let sentinel = text[n - 1];
    ensure!(text.iter().all(|&a| a >= sentinel), "harness: sentinel {:?} is not the smallest symbol of {:?}", sentinel, c.text);
    ensure!(!c.alphabet.is_empty() && c.alphabet.iter().all(|&a| a >= sentinel), "harness: alphabet {:?} has a symbol below the sentinel", c.alphabet);
    ensure!(text.iter().all(|&a| a == sentinel || c.alphabet.contains(&a)), "harness: alphabet {:?} does not cover text {:?}", c.alphabet, c.text);
    ensure!(sentinel == b'$' || c.alphabet.contains(&sentinel), "harness: non-$ sentinel missing from alphabet");
    ensure!(c.k >= 1 && c.sa_rate >= 1 && !c.patterns.is_empty() && c.resample.iter().all(|&r| r >= 1), "harness: rates/patterns");
    for p in &c.patterns {
        ensure!(!p.is_empty() && p.iter().all(|&a| a != sentinel && c.alphabet.contains(&a)), "harness: pattern {:?} outside the domain", p);
    }

    let alphabet = Alphabet::new(c.alphabet.iter());
    let sa = suffix_array(text);
    let bw = bwt(text, &sa);
    let le = less(&bw, &alphabet);
    let oc = Occ::new(&bw, c.k, &alphabet);
    let mut seen = Seen::default();
    match c.own {
        Own::Borrowed => {
            let fm = FMIndex::new(&bw, &le, &oc);
            let mut ssa = sa.sample(text, &bw, &le, &oc, c.sa_rate);
            for &r in &c.resample {
                ssa = ssa.sample(text, &bw, &le, &oc, r);
            }
            run(&fm, &sa, &ssa, c, &mut seen)?;
        }
        Own::Owned => {
            let fm = FMIndex::new(bw.clone(), le.clone(), oc.clone());
            let mut ssa = sa.sample(text, bw.clone(), le.clone(), oc.clone(), c.sa_rate);
            for &r in &c.resample {
                ssa = ssa.sample(text, bw.clone(), le.clone(), oc.clone(), r);
            }
            run(&fm, &sa, &ssa, c, &mut seen)?;
        }
        Own::Arc => {
            let (b, l, o) = (Arc::new(bw), Arc::new(le), Arc::new(oc));
            let fm = FMIndex::new(b.clone(), l.clone(), o.clone());
            let mut ssa = sa.sample(text, b.clone(), l.clone(), o.clone(), c.sa_rate);
            for &r in &c.resample {
                ssa = ssa.sample(text, b.clone(), l.clone(), o.clone(), r);
            }
            run(&fm, &sa, &ssa, c, &mut seen)?;
        }
    }

    let nsent = text.iter().filter(|&&a| a == sentinel).count();
    let mut pass = Pass::new(seen.multi_occ || seen.partial2);
    pass.add_if(nsent >= 2, "multi-sentinel text");
    pass.add_if(text.windows(2).any(|w| w[0] == sentinel && w[1] == sentinel), "adjacent sentinels");
    pass.add_if(sentinel != b'$', "sentinel other than $");
    pass.add_if(sentinel == b'$' && !c.alphabet.contains(&b'$'), "$ sentinel not in the alphabet");
    pass.add_if(n == 1, "text is the sentinel alone");
    pass.add_if(seen.complete, "Complete");
    pass.add_if(seen.multi_occ, ">=2 occurrences");
    pass.add_if(seen.partial2, "Partial with l>=2");
    pass.add_if(seen.partial1, "Partial with l=1");
    pass.add_if(seen.absent, "Absent");
    pass.add_if(seen.longer, "pattern longer than text");
    pass.add_if(seen.absent_symbol, "pattern has a symbol absent from the text");
    pass.add_if(seen.boundary, "Partial stops at a sequence start");
    pass.add_if(c.own == Own::Borrowed, "borrowed");
    pass.add_if(c.own == Own::Owned, "owned");
    pass.add_if(c.own == Own::Arc, "Arc");
    pass.add_if(c.sa_rate > 1, "sampled SA rate>1");
    pass.add_if(!c.resample.is_empty(), "sampled SA sampled again");
    pass.add_if(c.resample.first().map_or(false, |&r| r > c.sa_rate && r % c.sa_rate == 0), "re-sampled at a multiple of the first rate");
    pass.add_if(c.sa_rate > n, "sampled SA rate>n");
    pass.add_if(c.k == 1, "k=1");
    pass.add_if(c.k > 64 && (c.k as usize) < n, "64<k<n");
    pass.add_if(c.k as usize >= n, "k>=n");
    pass.add_if(n > 300, "n>300");
    Ok(pass)
}

// ---------------------------------------------------------------------------
// generator

#[derive(Debug, Clone)]
enum Syms {
    Dna,
    Lower,
    /// the four bytes right above the sentinel (for `#` this makes `$` a body symbol)
    Near,
    High,
}

fn sym_table(s: &Syms, sentinel: u8) -> [u8; 4] {
    match s {
        Syms::Dna => *b"ACGT",
        Syms::Lower => *b"abcd",
        Syms::Near => [sentinel + 1, sentinel + 2, sentinel + 3, sentinel + 4],
        Syms::High => [252, 253, 254, 255],
    }
}

#[derive(Debug, Clone)]
enum Body {
    /// ranks 0..4 into the symbol table
    Ranks(Vec<u8>),
    /// any byte above the sentinel
    Bytes(Vec<u16>),
}

fn fib_word(len: usize) -> Vec<u8> {
    let (mut a, mut b) = (vec![0u8], vec![0u8, 1]);
    while b.len() < len {
        let mut c = b.clone();
        c.extend_from_slice(&a);
        a = b;
        b = c;
    }
    b.truncate(len);
    b
}

fn thue_morse(len: usize) -> Vec<u8> {
    (0..len).map(|i| (i.count_ones() % 2) as u8).collect()
}

fn body(hi: usize) -> BoxedStrategy<Body> {
    prop_oneof![
        // uniform over 1..=4 letters (small alphabets are repetitive: many occurrences)
        5 => (1u8..=4).prop_flat_map(move |s| proptest::collection::vec(0..s, 0..=hi)).prop_map(Body::Ranks),
        // runs
        1 => proptest::collection::vec((0u8..4, 1usize..=30), 0..=(hi / 12 + 1)).prop_map(|rs| {
            let mut v = Vec::new();
            for (c, l) in rs { v.extend(std::iter::repeat(c).take(l)); }
            Body::Ranks(v)
        }),
        1 => (0..=hi, any::<bool>()).prop_map(|(l, flip)| Body::Ranks(fib_word(l).into_iter().map(|c| if flip { 1 - c } else { c }).collect())),
        1 => (0..=hi).prop_map(|l| Body::Ranks(thue_morse(l))),
        // periodic
        1 => (proptest::collection::vec(0u8..4, 1..=5), 0..=hi).prop_map(|(u, l)| Body::Ranks(u.iter().cycle().take(l).cloned().collect())),
        // full byte alphabet
        1 => proptest::collection::vec(any::<u16>(), 0..=hi.min(120)).prop_map(Body::Bytes),
    ]
    .boxed()
}

#[derive(Debug, Clone)]
struct TextSpec {
    sentinel: u8,
    syms: Syms,
    body: Body,
    /// interior sentinels are inserted at these (fractional) positions
    interior: Vec<u16>,
}

fn build_text(s: &TextSpec) -> Vec<u8> {
    let tab = sym_table(&s.syms, s.sentinel);
    let mut t: Vec<u8> = match &s.body {
        Body::Ranks(r) => r.iter().map(|&c| tab[c as usize]).collect(),
        Body::Bytes(f) => f.iter().map(|&x| s.sentinel + 1 + idx(x, 254 - s.sentinel as usize) as u8).collect(),
    };
    for &f in &s.interior {
        let at = idx(f, t.len());
        t.insert(at, s.sentinel);
    }
    t.push(s.sentinel);
    t
}

fn text_spec(t: Tier) -> BoxedStrategy<TextSpec> {
    let (mid, big) = match t {
        Tier::Quick => (150usize, 500usize),
        Tier::Thorough => (300, 3000),
    };
    let len_class = prop_oneof![6 => Just(20usize), 3 => Just(mid), 1 => Just(big)];
    let interior = prop_oneof![
        4 => Just(Vec::new()).boxed(),
        3 => proptest::collection::vec(any::<u16>(), 1..=2).boxed(),
        2 => proptest::collection::vec(any::<u16>(), 1..=8).boxed(),
        1 => proptest::collection::vec(any::<u16>(), 1..=40).boxed(),
    ];
    (
        prop_oneof![5 => Just(b'$'), 1 => Just(b'!'), 1 => Just(b'#'), 1 => Just(0u8)],
        prop_oneof![4 => Just(Syms::Dna), 2 => Just(Syms::Lower), 1 => Just(Syms::Near), 1 => Just(Syms::High)],
        len_class.prop_flat_map(body),
        interior,
    )
        .prop_map(|(sentinel, syms, body, interior)| TextSpec { sentinel, syms, body, interior })
        .boxed()
}

#[derive(Debug, Clone)]
enum KSpec {
    Abs(u32),
    /// n+1 ..= 2n
    AboveN(u16),
}

#[derive(Debug, Clone)]
enum SaSpec {
    Abs(usize),
    /// 1 ..= n+2
    Frac(u16),
}

#[derive(Debug, Clone)]
enum PSpec {
    /// substring of the text (sentinels dropped), optionally one substitution, optionally random symbols in front
    Sub { start: u16, len: usize, subst: Option<(u16, u16)>, prefix: Vec<u16> },
    Rand(Vec<u16>),
}

fn pspec() -> BoxedStrategy<PSpec> {
    prop_oneof![
        5 => (any::<u16>(), 1usize..=12, proptest::option::weighted(0.4, (any::<u16>(), any::<u16>())), prop_oneof![3 => Just(Vec::new()).boxed(), 1 => proptest::collection::vec(any::<u16>(), 1..=3).boxed()])
            .prop_map(|(start, len, subst, prefix)| PSpec::Sub { start, len, subst, prefix }),
        4 => proptest::collection::vec(any::<u16>(), 1..=12).prop_map(PSpec::Rand),
        1 => proptest::collection::vec(any::<u16>(), 13..=30).prop_map(PSpec::Rand),
    ]
    .boxed()
}

fn build_pattern(ps: &PSpec, text: &[u8], syms: &[u8]) -> Vec<u8> {
    let sentinel = text[text.len() - 1];
    let pick = |f: u16| syms[idx(f, syms.len() - 1)];
    let mut p: Vec<u8> = match ps {
        PSpec::Rand(v) => v.iter().map(|&f| pick(f)).collect(),
        PSpec::Sub { start, len, subst, prefix } => {
            let s = idx(*start, text.len() - 1);
            let e = (s + len).min(text.len());
            let mut p: Vec<u8> = text[s..e].iter().cloned().filter(|&a| a != sentinel).collect();
            if let Some((at, sym)) = subst {
                if !p.is_empty() {
                    let i = idx(*at, p.len() - 1);
                    p[i] = pick(*sym);
                }
            }
            let mut q: Vec<u8> = prefix.iter().map(|&f| pick(f)).collect();
            q.extend_from_slice(&p);
            q
        }
    };
    if p.is_empty() {
        p.push(syms[0]);
    }
    p
}

fn own() -> BoxedStrategy<Own> {
    prop_oneof![Just(Own::Borrowed), Just(Own::Owned), Just(Own::Arc)].boxed()
}

pub fn strat(t: Tier) -> BoxedStrategy<Case> {
    let kspec = prop_oneof![
        4 => (1u32..=8).prop_map(KSpec::Abs),
        2 => (9u32..=64).prop_map(KSpec::Abs),
        2 => (65u32..=130).prop_map(KSpec::Abs),
        1 => any::<u16>().prop_map(KSpec::AboveN),
    ];
    let saspec = prop_oneof![
        1 => Just(SaSpec::Abs(1)),
        3 => (2usize..=8).prop_map(SaSpec::Abs),
        2 => any::<u16>().prop_map(SaSpec::Frac),
    ];
    (
        text_spec(t),
        proptest::collection::vec(any::<u16>(), 0..=3),
        any::<bool>(),
        kspec,
        saspec,
        own(),
        proptest::collection::vec(pspec(), 1..=6),
        prop_oneof![3 => Just(Vec::new()), 1 => proptest::collection::vec((any::<bool>(), 0u8..=7), 1..=2)],
    )
        .prop_map(|(ts, extras, with_dollar, ks, ss, own, pss, rs)| {
            let text = build_text(&ts);
            let n = text.len();
            let sentinel = ts.sentinel;
            // non-sentinel symbols of the index alphabet: text symbols + extras above the sentinel
            let mut syms: Vec<u8> = text.iter().cloned().filter(|&a| a != sentinel).collect();
            let tab = sym_table(&ts.syms, sentinel);
            for (j, &x) in extras.iter().enumerate() {
                // first extra: a letter of the same family (likely to make near-miss patterns), others: any byte above the sentinel
                if j == 0 {
                    syms.push(tab[idx(x, 3)]);
                } else {
                    syms.push(sentinel + 1 + idx(x, 254 - sentinel as usize) as u8);
                }
            }
            if syms.is_empty() {
                syms.push(tab[0]);
            }
            syms.sort_unstable();
            syms.dedup();
            let mut alphabet = syms.clone();
            if sentinel != b'$' || with_dollar {
                alphabet.insert(0, sentinel);
            }
            let k = match ks {
                KSpec::Abs(k) => k,
                KSpec::AboveN(f) => (n + 1 + idx(f, n - 1)) as u32,
            };
            let sa_rate = match ss {
                SaSpec::Abs(s) => s,
                SaSpec::Frac(f) => 1 + idx(f, n + 1),
            };
            let patterns = pss.iter().map(|ps| B(build_pattern(ps, &text, &syms))).collect();
            // further rates: a small multiple of the rate before, or any small rate
            let mut prev = sa_rate;
            let resample: Vec<usize> = rs
                .iter()
                .map(|&(multiple, v)| {
                    prev = if multiple { prev.saturating_mul(2 + v as usize % 3).min(4 * n + 8) } else { 1 + v as usize };
                    prev
                })
                .collect();
            Case { text: B(text), alphabet: B(alphabet), k, sa_rate, own, patterns, resample }
        })
        .boxed()
}

// ---------------------------------------------------------------------------
// bounded exhaustive: every text over {$,a,b} of length <= L ending in $, every pattern over {a,b,c}
// (c is in the alphabet but never in the text) of length <= 4

fn enumerate(t: Tier) -> Box<dyn Iterator<Item = Case>> {
    let max_body = match t {
        Tier::Quick => 5usize,
        Tier::Thorough => 7,
    };
    let mut bodies: Vec<Vec<u8>> = vec![vec![]];
    let mut layer: Vec<Vec<u8>> = vec![vec![]];
    for _ in 0..max_body {
        let mut next = Vec::new();
        for s in &layer {
            for c in [b'$', b'a', b'b'] {
                let mut x = s.clone();
                x.push(c);
                next.push(x);
            }
        }
        bodies.extend(next.iter().cloned());
        layer = next;
    }
    let mut pats: Vec<B> = Vec::new();
    let mut layer: Vec<Vec<u8>> = vec![vec![]];
    for _ in 0..4 {
        let mut next = Vec::new();
        for s in &layer {
            for c in [b'a', b'b', b'c'] {
                let mut x = s.clone();
                x.push(c);
                next.push(x);
            }
        }
        pats.extend(next.iter().cloned().map(B));
        layer = next;
    }
    let pats = Arc::new(pats);
    Box::new(bodies.into_iter().enumerate().flat_map(move |(j, body)| {
        let pats = pats.clone();
        let mut text = body;
        text.push(b'$');
        let n = text.len();
        (0..pats.len()).map(move |pi| {
            let r = (j + pi) % 3;
            let own = [Own::Borrowed, Own::Owned, Own::Arc][(j / 3 + pi) % 3];
            Case {
                text: B(text.clone()),
                alphabet: B(if r == 1 { b"$abc".to_vec() } else { b"abc".to_vec() }),
                k: [1u32, 2, (n + 1) as u32][r],
                sa_rate: [1usize, 2, 3][r],
                own,
                patterns: vec![pats[pi].clone()],
                // every fourth case resolves positions through a re-sampled array (rate doubled, or back to 1)
                resample: match (j + pi) % 8 { 3 => vec![2 * [1usize, 2, 3][r]], 7 => vec![1], _ => Vec::new() },
            }
        })
    }))
}

// ---------------------------------------------------------------------------
// LARGE-SCALE sub-check: text length, pattern length, matched length of a Partial result, interval
// size (number of rows with the same preceding symbol), number of sequences, Occ rate and suffix array
// sampling rate across the ladder 255 .. 2^20 (see oracles/scale.rs). Cases are generator parameters.
// Oracle: Z-function over reverse(pattern) # reverse(text): longest occurring pattern suffix and all its
// occurrences in O(n + m); cross-checked against the naive scan on a truncated copy inside every case.

pub mod large {
    use super::*;
    use crate::c0306_ladder_labels;
    use crate::fail;
    use crate::oracles::sa as sao;
    use crate::oracles::scale::c0306::{add_group, ladder, longest_suffix_occurrences, mix, Kind, LadderSub, Sent, Sm64, TextSpec};

    pub const N_LABELS: [&str; 12] = c0306_ladder_labels!("n");
    pub const M_LABELS: [&str; 12] = c0306_ladder_labels!("pattern length");
    pub const L_LABELS: [&str; 12] = c0306_ladder_labels!("Partial length l");
    pub const IV_LABELS: [&str; 12] = c0306_ladder_labels!("interval size");
    pub const SEQ_LABELS: [&str; 12] = c0306_ladder_labels!("sentinel occurrences");
    pub const K_LABELS: [&str; 12] = c0306_ladder_labels!("Occ rate k");
    pub const S_LABELS: [&str; 12] = c0306_ladder_labels!("SA sampling rate");

    #[derive(Serialize, Deserialize, Debug, Clone)]
    pub enum Pat {
        /// the text symbols from `start` (a fraction of the text) on, sentinels dropped, `len` of them;
        /// with `subst = Some(d)` the symbol d places before the last one is replaced by another alphabet symbol
        /// (so a suffix of length >= d still occurs)
        Sub { start: u16, len: usize, subst: Option<usize> },
        /// uniform over the non-sentinel alphabet
        Rand { len: usize, seed: u64 },
        /// `len` copies of the rank-th alphabet symbol
        Homo { rank: u8, len: usize },
    }

    #[derive(Serialize, Deserialize, Debug, Clone)]
    pub struct Case {
        pub text: TextSpec,
        /// add one symbol that does not occur in the text to the index alphabet
        pub extra_sym: bool,
        /// put a `$` sentinel into the alphabet (other sentinels always are)
        pub with_dollar: bool,
        pub k: u32,
        pub sa_rate: usize,
        pub own: Own,
        pub patterns: Vec<Pat>,
        /// at most this many rows of one interval are resolved through the sampled suffix array
        pub budget: usize,
    }

    fn pat_len(p: &Pat) -> usize {
        match p {
            Pat::Sub { len, .. } | Pat::Rand { len, .. } | Pat::Homo { len, .. } => *len,
        }
    }

    fn build_pat(p: &Pat, text: &[u8], syms: &[u8]) -> Vec<u8> {
        let n = text.len();
        let sentinel = text[n - 1];
        let mut v: Vec<u8> = match p {
            Pat::Rand { len, seed } => {
                let mut rng = Sm64::new(*seed);
                (0..*len).map(|_| syms[rng.below(syms.len())]).collect()
            }
            Pat::Homo { rank, len } => vec![syms[(*rank as usize).min(syms.len() - 1)]; *len],
            Pat::Sub { start, len, subst } => {
                let s = idx(*start, n - 1);
                let mut v: Vec<u8> = text[s..].iter().cloned().filter(|&a| a != sentinel).take(*len).collect();
                if let Some(d) = subst {
                    if v.len() > *d {
                        let at = v.len() - 1 - *d;
                        let cur = syms.iter().position(|&a| a == v[at]).unwrap_or(0);
                        // the last alphabet symbol is the absent one when the case has one
                        v[at] = if syms.len() > 1 { syms[(cur + syms.len() - 1) % syms.len()] } else { v[at] };
                    }
                }
                v
            }
        };
        if v.is_empty() {
            v.push(syms[0]);
        }
        v
    }

    struct Stats {
        max_m: usize,
        max_partial: usize,
        max_iv: usize,
        complete: bool,
        partial: bool,
        absent: bool,
        longer: bool,
        sampled_full: bool,
        sampled_part: bool,
    }

    fn run<F: FMIndexable, S: SuffixArray>(fm: &F, sa: &RawSuffixArray, ssa: &S, c: &Case, text: &[u8], pats: &[Vec<u8>], walk_cost: usize, st: &mut Stats) -> Result<(), Stop> {
        let n = text.len();
        for (pi, p) in pats.iter().enumerate() {
            let m = p.len();
            let (best, best_occ) = longest_suffix_occurrences(p, text);
            let got = fm.backward_search(p.iter());
            let ctx = || format!("text {:?} k={} sa_rate={} {:?} pattern #{} {:?} = {} (length {})", c.text, c.k, c.sa_rate, c.own, pi, c.patterns[pi], sao::show(p), m);
            let expect_desc = if best == m {
                format!("Complete with {} occurrences {}", best_occ.len(), sao::show_vec(&best_occ))
            } else if best == 0 {
                "Absent".to_string()
            } else {
                format!("Partial(l={}) with {} occurrences {}", best, best_occ.len(), sao::show_vec(&best_occ))
            };
            let mut check_iv = |iv: &Interval, what: &str| -> Result<(), Stop> {
                ensure!(iv.lower <= iv.upper && iv.upper <= n, "{}: {} interval {:?} not inside 0..{}; expected {}", ctx(), what, iv, n, expect_desc);
                let raw = sorted(iv.occ(sa));
                ensure!(raw == best_occ, "{}: {} interval {:?} maps through the suffix array to {} positions {}; expected {}", ctx(), what, iv, raw.len(), sao::show_vec(&raw), expect_desc);
                let size = iv.upper - iv.lower;
                let units = c.budget as u64 * 400;
                if (size as u64) * (walk_cost as u64).max(1) <= units {
                    let smp = sorted(iv.occ(ssa));
                    ensure!(smp == best_occ, "{}: {} interval {:?} maps through the SAMPLED suffix array (rate {}) to {}; expected {}", ctx(), what, iv, c.sa_rate, sao::show_vec(&smp), expect_desc);
                    st.sampled_full = true;
                } else {
                    // sub-intervals: both ends and around every ladder offset
                    let w = ((units / 10 / (walk_cost as u64).max(1)) as usize).clamp(2, 64).min(size);
                    let mut starts: Vec<usize> = vec![iv.lower, iv.upper - w];
                    for v in ladder(size) {
                        starts.push((iv.lower + v).saturating_sub(w / 2).min(iv.upper - w));
                    }
                    starts.dedup();
                    starts.truncate(10);
                    for a in starts {
                        let part = Interval { lower: a, upper: a + w };
                        let smp = part.occ(ssa);
                        ensure!(smp[..] == sa[a..a + w], "{}: rows {}..{} of the {} interval {:?} map through the SAMPLED suffix array (rate {}) to {} but the suffix array has {}", ctx(), a, a + w, what, iv, c.sa_rate, sao::show_vec(&smp), sao::show_vec(&sa[a..a + w]));
                    }
                    st.sampled_part = true;
                }
                st.max_iv = st.max_iv.max(size);
                Ok(())
            };
            match got {
                BackwardSearchResult::Complete(iv) => {
                    ensure!(best == m, "{}: got Complete({:?}); expected {}", ctx(), iv, expect_desc);
                    check_iv(&iv, "Complete")?;
                }
                BackwardSearchResult::Partial(iv, l) => {
                    ensure!(best > 0 && best < m && l == best, "{}: got Partial({:?}, l={}); expected {}", ctx(), iv, l, expect_desc);
                    check_iv(&iv, "Partial")?;
                }
                BackwardSearchResult::Absent => {
                    ensure!(best == 0, "{}: got Absent; expected {}", ctx(), expect_desc);
                }
            }
            st.max_m = st.max_m.max(m);
            if best > 0 && best < m {
                st.max_partial = st.max_partial.max(best);
                st.partial = true;
            }
            st.complete |= best == m;
            st.absent |= best == 0;
            st.longer |= m > n;
        }
        // the trait's accessors
        ensure!(fm.bwt().len() == n, "FMIndexable::bwt(): {:?}: length {} expected {}", c.text, fm.bwt().len(), n);
        let b = fm.bwt().clone();
        let mut rng = Sm64::new(mix(c.text.seed, 0xacce55));
        for j in 0..6 {
            let r = if j == 0 { n - 1 } else { rng.below(n) };
            let a = text[rng.below(n)];
            let want = b[..=r].iter().filter(|&&x| x == a).count();
            let got = fm.occ(r, a);
            ensure!(got == want, "FMIndexable::occ: {:?} k={}: occ({}, {:#04x})={} but bwt[0..={}] contains it {} times", c.text, c.k, r, a, got, r, want);
            let smaller = text.iter().filter(|&&x| x < a).count();
            ensure!(fm.less(a) == smaller, "FMIndexable::less: {:?}: less({:#04x})={} but {} text symbols are smaller", c.text, a, fm.less(a), smaller);
        }
        Ok(())
    }

    /// the fast oracle against the naive scan on a truncated copy of the case
    fn selfcheck(text: &[u8], pats: &[Vec<u8>]) -> Result<(), Stop> {
        let n = text.len();
        let sentinel = text[n - 1];
        let mut small: Vec<u8> = text[..(n - 1).min(160)].to_vec();
        small.push(sentinel);
        for p in pats {
            let q = &p[p.len() - p.len().min(9)..];
            let m = q.len();
            let mut best = 0usize;
            let mut occ: Vec<usize> = Vec::new();
            for j in 1..=m {
                let o = naive_find(&q[m - j..], &small);
                if o.is_empty() {
                    break;
                }
                best = j;
                occ = o;
            }
            let fast = longest_suffix_occurrences(q, &small);
            ensure!(fast == (best, occ.clone()), "harness: oracle self-check: Z-function oracle says {:?}, naive scan says {:?} for pattern {:?} in text {:?}", fast, (best, occ), lossy(q), lossy(&small));
        }
        Ok(())
    }

    pub fn check(c: &Case) -> R {
        let Some(text) = c.text.build() else { fail!("harness: {:?} does not describe a text", c.text) };
        let n = text.len();
        let sentinel = text[n - 1];
        ensure!(text.iter().all(|&a| a >= sentinel), "harness: sentinel is not the smallest symbol of {:?}", c.text);
        ensure!(c.k >= 1 && c.sa_rate >= 1 && !c.patterns.is_empty() && c.budget >= 16, "harness: rates/patterns/budget of {:?}", c);
        // index alphabet: non-sentinel text symbols (+ one absent symbol); sentinel unless it is an omitted `$`
        let mut present = [false; 256];
        for &a in &text {
            present[a as usize] = true;
        }
        let mut syms: Vec<u8> = (0..256usize).filter(|&a| present[a] && a as u8 != sentinel).map(|a| a as u8).collect();
        if c.extra_sym || syms.is_empty() {
            // the largest byte above the sentinel that is not in the text
            match (sentinel as usize + 1..256).rev().find(|&a| !present[a]) {
                Some(a) => syms.push(a as u8),
                None => ensure!(!syms.is_empty(), "harness: no symbol left for {:?}", c.text),
            }
        }
        let mut alpha = syms.clone();
        if sentinel != b'$' || c.with_dollar {
            alpha.push(sentinel);
        }
        let pats: Vec<Vec<u8>> = c.patterns.iter().map(|p| build_pat(p, &text, &syms)).collect();
        for p in &pats {
            ensure!(!p.is_empty() && p.iter().all(|&a| a != sentinel && syms.contains(&a)), "harness: pattern outside the domain in {:?}", c);
        }
        selfcheck(&text, &pats)?;

        let alphabet = Alphabet::new(alpha.iter());
        let sa = suffix_array(&text);
        ensure!(sa.len() == n && sa.iter().all(|&p| p < n), "suffix_array: {:?}: not an array of {} text positions", c.text, n);
        let bw = bwt(&text, &sa);
        let le = less(&bw, &alphabet);
        let oc = Occ::new(&bw, c.k, &alphabet);
        let multi = text.iter().filter(|&&a| a == sentinel).count();
        // expected LF-walk length of one row through the sampled array times the cost of one Occ::get
        let walk_cost = c.sa_rate.min(n) * (c.k as usize / 48 + 15) / 15;
        let mut st = Stats { max_m: 0, max_partial: 0, max_iv: 0, complete: false, partial: false, absent: false, longer: false, sampled_full: false, sampled_part: false };
        match c.own {
            Own::Borrowed => {
                let fm = FMIndex::new(&bw, &le, &oc);
                let ssa = sa.sample(&text, &bw, &le, &oc, c.sa_rate);
                run(&fm, &sa, &ssa, c, &text, &pats, walk_cost, &mut st)?;
            }
            Own::Owned => {
                let fm = FMIndex::new(bw.clone(), le.clone(), oc.clone());
                let ssa = sa.sample(&text, bw.clone(), le.clone(), oc.clone(), c.sa_rate);
                run(&fm, &sa, &ssa, c, &text, &pats, walk_cost, &mut st)?;
            }
            Own::Arc => {
                let (b, l, o) = (Arc::new(bw), Arc::new(le), Arc::new(oc));
                let fm = FMIndex::new(b.clone(), l.clone(), o.clone());
                let ssa = sa.sample(&text, b.clone(), l.clone(), o.clone(), c.sa_rate);
                run(&fm, &sa, &ssa, c, &text, &pats, walk_cost, &mut st)?;
            }
        }

        let mut pass = Pass::new(st.max_iv >= 2 || st.max_partial >= 2);
        add_group(&mut pass, &N_LABELS, n);
        add_group(&mut pass, &M_LABELS, st.max_m);
        for p in &pats {
            add_group(&mut pass, &M_LABELS, p.len());
        }
        add_group(&mut pass, &L_LABELS, st.max_partial);
        add_group(&mut pass, &IV_LABELS, st.max_iv);
        add_group(&mut pass, &SEQ_LABELS, multi);
        add_group(&mut pass, &K_LABELS, c.k as usize);
        add_group(&mut pass, &S_LABELS, c.sa_rate);
        pass.add_if(st.max_iv > 255, "interval of >255 rows");
        pass.add_if(st.max_iv > 65_535, "interval of >65535 rows");
        pass.add_if(st.max_partial > 255, "Partial with l>255");
        pass.add_if(st.max_partial > 65_535, "Partial with l>65535");
        pass.add_if(st.complete, "Complete");
        pass.add_if(st.partial, "Partial");
        pass.add_if(st.absent, "Absent");
        pass.add_if(st.longer, "pattern longer than text");
        pass.add_if(st.sampled_full, "whole interval through the sampled SA");
        pass.add_if(st.sampled_part, "sub-intervals through the sampled SA");
        pass.add_if(multi >= 2, "multi-sentinel text");
        pass.add_if(sentinel == b'$' && !alpha.contains(&b'$'), "$ sentinel not in the alphabet");
        pass.add_if(c.own == Own::Borrowed, "borrowed");
        pass.add_if(c.own == Own::Owned, "owned");
        pass.add_if(c.own == Own::Arc, "Arc");
        Ok(pass)
    }

    pub fn weight(c: &Case) -> u64 {
        let n = c.text.n as u64;
        let pl: u64 = c.patterns.iter().map(|p| pat_len(p) as u64).sum();
        n * 2 + c.patterns.len() as u64 * n * 2 + pl * (c.k as u64 / 48 + 15) / 8 + 2000
    }

    fn mk(text: TextSpec, i: usize, k: u32, sa_rate: usize, patterns: Vec<Pat>) -> Case {
        // both rates huge: every resolved row would cost ~0.1 s
        let sa_rate = if k > 4096 && sa_rate > 4096 { 32 } else { sa_rate };
        Case { text, extra_sym: i % 3 != 0, with_dollar: i % 2 == 0, k, sa_rate, own: [Own::Borrowed, Own::Owned, Own::Arc][i % 3], patterns, budget: 600 }
    }

    pub fn cases(t: Tier, seed: u64) -> Vec<Case> {
        let mut v = Vec::new();
        let reps = if t == Tier::Quick { 1 } else { 6 };
        let dna = |kind: Kind, n: usize, sigma: u16, sent: Sent, s: u64| TextSpec { kind, n, sigma, sent, sentinel: b'$', dna: true, seed: s };
        let ks: [u32; 8] = [1, 3, 64, 65, 128, 257, 4097, 65_537];
        let ss: [usize; 6] = [1, 2, 32, 257, 4097, 65_537];
        for rep in 0..reps {
            let sd = |x: u64| mix(seed, 0xc05_0 + x * 1000 + rep as u64);
            let mut i = 0usize;
            // (1) text length ladder; also the whole text body as one pattern (m = n-1)
            for (vi, &n) in ladder(1 << 21).iter().enumerate() {
                let s = sd(vi as u64);
                let huge = n > 131_073;
                let mut texts = vec![dna(Kind::Random, n, 4, Sent::Single, s), dna(Kind::Homo, n, 1, Sent::Single, s)];
                if !huge || t == Tier::Thorough {
                    texts.push(dna(Kind::Period(2), n, 4, Sent::Single, s));
                    texts.push(dna(Kind::Random, n, 4, Sent::Random(n / 150 + 1), s));
                    texts.push(dna(Kind::Period(7), n, 4, Sent::Every(8), s));
                    texts.push(TextSpec { kind: Kind::Random, n, sigma: 200, sent: Sent::Even(3), sentinel: 0, dna: false, seed: s });
                }
                for text in texts {
                    i += 1;
                    let k = if huge { 64 } else { ks[i % 8] };
                    let sr = if huge { 32 } else { ss[i % 6] };
                    let pats = vec![
                        Pat::Sub { start: 9000, len: 20, subst: None },
                        Pat::Sub { start: 0, len: n, subst: None },
                        Pat::Sub { start: 100, len: 300, subst: Some(257.min(n / 2)) },
                        Pat::Sub { start: 30000, len: 7, subst: None },
                        Pat::Homo { rank: 0, len: 1 },
                        Pat::Homo { rank: 0, len: 2 },
                        Pat::Homo { rank: 1, len: 300 },
                        Pat::Rand { len: 12, seed: s },
                        Pat::Homo { rank: 0, len: n + 5 },
                    ];
                    v.push(mk(text, i, k, sr, pats));
                }
            }
            // (2) pattern length ladder: complete match, first symbol wrong (Partial l = m-1), mismatch in the middle
            for (vi, &m) in ladder(1 << 19).iter().enumerate() {
                let s = sd(200 + vi as u64);
                let huge = m > 131_073;
                let mut texts = vec![dna(Kind::Random, m + 1000, 4, Sent::Single, s), dna(Kind::Homo, m + 300, 1, Sent::Single, s)];
                if !huge || t == Tier::Thorough {
                    texts.push(dna(Kind::Period(2), m + 300, 4, Sent::Single, s));
                    texts.push(dna(Kind::Fib, m + 300, 2, Sent::Single, s));
                }
                for text in texts {
                    i += 1;
                    let k = if m > 20_000 { [16u32, 64, 128][i % 3] } else { ks[i % 8] };
                    let pats = vec![
                        Pat::Sub { start: 300, len: m, subst: None },
                        Pat::Sub { start: 300, len: m, subst: Some(m - 1) },
                        Pat::Sub { start: 0, len: m, subst: Some(m / 2) },
                        Pat::Homo { rank: 0, len: m },
                    ];
                    v.push(mk(text, i, k, ss[i % 5], pats));
                }
            }
            // (3) matched length of a Partial result on the ladder
            for (vi, &d) in ladder(131_073).iter().enumerate() {
                let s = sd(400 + vi as u64);
                for text in [dna(Kind::Random, d + 2000, 4, Sent::Single, s), dna(Kind::Period(3), d + 2000, 3, Sent::Single, s)] {
                    i += 1;
                    let pats = vec![Pat::Sub { start: 100, len: d + 50, subst: Some(d) }, Pat::Sub { start: 700, len: d + 1, subst: Some(d) }];
                    v.push(mk(text, i, [8u32, 64, 100][i % 3], ss[i % 4], pats));
                }
            }
            // (4) interval size ladder: homopolymer (rows with the same preceding symbol), dinucleotide repeat, identical reads
            for (vi, &sz) in ladder(131_073).iter().enumerate() {
                let s = sd(600 + vi as u64);
                let pats = vec![Pat::Homo { rank: 0, len: 1 }, Pat::Homo { rank: 0, len: 2 }, Pat::Sub { start: 0, len: 7, subst: None }, Pat::Sub { start: 0, len: 9, subst: Some(7) }];
                for text in [dna(Kind::Homo, sz + 1, 1, Sent::Single, s), dna(Kind::Period(2), 2 * sz + 1, 4, Sent::Single, s), dna(Kind::Period(7), 8 * sz, 4, Sent::Every(8), s)] {
                    i += 1;
                    v.push(mk(text, i, ks[i % 8], ss[i % 6], pats.clone()));
                }
            }
        }
        v
    }

    pub fn sub() -> LadderSub<Case> {
        LadderSub {
            name: "C05/large",
            cases,
            weight,
            check,
            shards_quick: 16,
            shards_thorough: 16,
            must_reach: &[
                N_LABELS[0], N_LABELS[1], N_LABELS[2], N_LABELS[3], N_LABELS[4], N_LABELS[5], N_LABELS[6], N_LABELS[7], N_LABELS[8], N_LABELS[9], N_LABELS[10], N_LABELS[11],
                M_LABELS[0], M_LABELS[1], M_LABELS[2], M_LABELS[3], M_LABELS[4], M_LABELS[5], M_LABELS[6], M_LABELS[7], M_LABELS[8], M_LABELS[9], M_LABELS[10],
                L_LABELS[0], L_LABELS[1], L_LABELS[2], L_LABELS[3], L_LABELS[4], L_LABELS[5], L_LABELS[6], L_LABELS[7], L_LABELS[8], L_LABELS[9],
                IV_LABELS[0], IV_LABELS[1], IV_LABELS[2], IV_LABELS[3], IV_LABELS[4], IV_LABELS[5], IV_LABELS[6], IV_LABELS[7], IV_LABELS[8], IV_LABELS[9],
                SEQ_LABELS[0], SEQ_LABELS[1], SEQ_LABELS[2], SEQ_LABELS[3], SEQ_LABELS[4], SEQ_LABELS[5], SEQ_LABELS[6], SEQ_LABELS[7], SEQ_LABELS[8], SEQ_LABELS[9],
                K_LABELS[0], K_LABELS[3], K_LABELS[7], S_LABELS[0], S_LABELS[3], S_LABELS[7],
                "interval of >255 rows", "interval of >65535 rows", "Partial with l>255", "Partial with l>65535",
                "Complete", "Partial", "Absent", "pattern longer than text",
                "whole interval through the sampled SA", "sub-intervals through the sampled SA",
                "multi-sentinel text", "$ sentinel not in the alphabet", "borrowed", "owned", "Arc",
            ],
        }
    }
}

pub fn property() -> Property {
    Property {
        id: "C05",
        rule: "random: text = body + sentinel with sentinel in {$,!,#,0x00}; bodies over 1-4 letters (DNA, lowercase, the bytes right above the sentinel, 252..255), runs, Fibonacci/Thue-Morse words, periodic words or the full byte range, 0-40 interior sentinels; index alphabet = text symbols + up to 3 absent symbols (the $ sentinel included or not); Occ rate 1..=130 or above n; SA sampling rate 1..=n+2; components borrowed/owned/Arc; 1-6 patterns per index: substrings of the text (sentinels dropped) with an optional substitution and optional random symbols in front, or random over the alphabet, length 1..=30. exhaustive: every text over {$,a,b} up to the stated length, every pattern over {a,b,c} of length <= 4. Oracle: naive scan for the longest occurring pattern suffix and its occurrence list; the result variant, the partial length and the sorted positions obtained through the raw and through the sampled suffix array must agree with it. Non-trivial = some pattern with >= 2 occurrences or a Partial result with l >= 2; distinct = distinct serialised case. LARGE-SCALE (C05/large; enumerated parameter cases): text length, pattern length (up to 2^19, longer than the text), matched length of Partial results, interval size (homopolymer, dinucleotide repeat, identical reads), number of sequences, Occ rate and SA sampling rate on the ladder 255..2^20+1; oracle = Z-function over reverse(pattern)#reverse(text) (longest occurring suffix and all its occurrences in O(n+m)), cross-checked against the naive scan on a truncated copy inside every case; intervals resolved through the raw array completely and through the sampled array completely or on sub-intervals (both ends, around ladder offsets); FMIndexable::{occ,less,bwt} called directly.",
        assumptions: &[
            "sentinel = last byte of the text and strictly smaller than every other text symbol; interior sentinels allowed",
            "the alphabet handed to less/Occ covers all non-sentinel text symbols and has no symbol below the sentinel; a sentinel other than $ is part of it",
            "patterns are non-empty, sentinel-free and over that alphabet",
        ],
        subs: vec![
            Box::new(PropSub {
                name: "C05/random",
                quick: 800_000,
                thorough: 5_000_000,
                shards_quick: 16,
                shards_thorough: 16,
                strat,
                check,
                must_reach: &[
                    "multi-sentinel text",
                    "Partial with l>=2",
                    "Absent",
                    "pattern longer than text",
                    ">=2 occurrences",
                    "owned",
                    "borrowed",
                    "Arc",
                    "sampled SA rate>1",
                    "64<k<n",
                    "Partial stops at a sequence start",
                ],
                // a wrong LF step can make SampledSuffixArray::get walk forever: publish cases to the watchdog
                watch: true,
            }),
            Box::new(ExhSub { name: "C05/exhaustive", enumerate, check, must_reach: &["Partial with l>=2", "Absent", "multi-sentinel text"] }),
            Box::new(large::sub()),
        ],
    }
}

