//! C05 — FM-index backward search returns exactly the pattern's occurrences
//! (Complete / Partial(longest occurring suffix) / Absent), for every Occ rate,
//! for borrowed / owned / Arc components, through the raw and a sampled suffix array.

use crate::engine::gen::idx;
use crate::engine::*;
use crate::oracles::naive_find;
use crate::ensure;
use bio::alphabets::Alphabet;
use bio::data_structures::bwt::{bwt, less, Occ};
use bio::data_structures::fmindex::{BackwardSearchResult, FMIndex, FMIndexable, Interval};
use bio::data_structures::suffix_array::{suffix_array, RawSuffixArray, SuffixArray};
use proptest::prelude::*;
use serde::{Deserialize, Serialize};
use std::sync::Arc;

#[derive(Serialize, Deserialize, Debug, Clone, Copy, PartialEq, Eq)]
pub enum Own {
    Borrowed,
    Owned,
    Arc,
}

#[derive(Serialize, Deserialize, Debug, Clone)]
pub struct Case {
    /// indexed text: last byte is the sentinel (smallest symbol), which may also occur inside
    pub text: B,
    /// symbols handed to `less` / `Occ::new` (superset of the non-sentinel text symbols)
    pub alphabet: B,
    /// Occ sampling rate
    pub k: u32,
    /// suffix array sampling rate
    pub sa_rate: usize,
    pub own: Own,
    /// non-empty, sentinel-free, over `alphabet`
    pub patterns: Vec<B>,
}

#[derive(Default)]
struct Seen {
    complete: bool,
    partial1: bool,
    partial2: bool,
    absent: bool,
    multi_occ: bool,
    longer: bool,
    absent_symbol: bool,
    boundary: bool,
}

fn sorted(mut v: Vec<usize>) -> Vec<usize> {
    v.sort_unstable();
    v
}

fn run<F: FMIndexable, S: SuffixArray>(fm: &F, sa: &RawSuffixArray, ssa: &S, c: &Case, seen: &mut Seen) -> Result<(), Stop> {
    let text: &[u8] = &c.text;
    let n = text.len();
    let sentinel = text[n - 1];
    for p in &c.patterns {
        let p: &[u8] = p;
        let m = p.len();
        // oracle: longest suffix of p that occurs in the text (occurrence is monotone in the suffix length)
        let mut best = 0usize;
        let mut best_occ: Vec<usize> = Vec::new();
        for j in 1..=m {
            let o = naive_find(&p[m - j..], text);
            if o.is_empty() {
                break;
            }
            best = j;
            best_occ = o;
        }
        let got = fm.backward_search(p.iter());
        let ctx = || format!("text {:?} alphabet {:?} k={} sa_rate={} {:?} pattern {:?}", c.text, c.alphabet, c.k, c.sa_rate, c.own, lossy(p));
        let expect_desc = if best == m {
            format!("Complete with occurrences {:?}", best_occ)
        } else if best == 0 {
            "Absent".to_string()
        } else {
            format!("Partial(l={}) with occurrences {:?} of suffix {:?}", best, best_occ, lossy(&p[m - best..]))
        };
        let check_iv = |iv: &Interval, what: &str| -> Result<(), Stop> {
            ensure!(iv.lower <= iv.upper && iv.upper <= n, "{}: {} interval {:?} not inside 0..{}; expected {}", ctx(), what, iv, n, expect_desc);
            let raw = sorted(iv.occ(sa));
            ensure!(raw == best_occ, "{}: {} interval {:?} maps through the suffix array to {:?}; expected {}", ctx(), what, iv, raw, expect_desc);
            let smp = sorted(iv.occ(ssa));
            ensure!(smp == best_occ, "{}: {} interval {:?} maps through the SAMPLED suffix array (rate {}) to {:?}; expected {}", ctx(), what, iv, c.sa_rate, smp, expect_desc);
            Ok(())
        };
        match got {
            BackwardSearchResult::Complete(iv) => {
                ensure!(best == m, "{}: got Complete({:?}); expected {}", ctx(), iv, expect_desc);
                check_iv(&iv, "Complete")?;
            }
            BackwardSearchResult::Partial(iv, l) => {
                ensure!(best > 0 && best < m && l == best, "{}: got Partial({:?}, l={}); expected {}", ctx(), iv, l, expect_desc);
                check_iv(&iv, "Partial")?;
            }
            BackwardSearchResult::Absent => {
                ensure!(best == 0, "{}: got Absent; expected {}", ctx(), expect_desc);
            }
        }
        seen.complete |= best == m;
        seen.partial1 |= best == 1 && m > 1;
        seen.partial2 |= best >= 2 && best < m;
        seen.absent |= best == 0;
        seen.multi_occ |= best == m && best_occ.len() >= 2;
        seen.longer |= m > n;
        seen.absent_symbol |= p.iter().any(|a| !text.contains(a));
        // the longest occurring suffix cannot grow because every occurrence is preceded by a sentinel / the text start
        seen.boundary |= best > 0 && best < m && best_occ.iter().all(|&o| o == 0 || text[o - 1] == sentinel);
    }
    Ok(())
}

pub fn check(c: &Case) -> R {
    let text: &[u8] = &c.text;
    let n = text.len();
    // ---- domain (harness self-check: these never fire on generated cases)
    ensure!(n >= 1, "harness: empty text");
    let sentinel = text[n - 1];
    ensure!(text.iter().all(|&a| a >= sentinel), "harness: sentinel {:?} is not the smallest symbol of {:?}", sentinel, c.text);
    ensure!(!c.alphabet.is_empty() && c.alphabet.iter().all(|&a| a >= sentinel), "harness: alphabet {:?} has a symbol below the sentinel", c.alphabet);
    ensure!(text.iter().all(|&a| a == sentinel || c.alphabet.contains(&a)), "harness: alphabet {:?} does not cover text {:?}", c.alphabet, c.text);
    ensure!(sentinel == b'$' || c.alphabet.contains(&sentinel), "harness: non-$ sentinel missing from alphabet");
    ensure!(c.k >= 1 && c.sa_rate >= 1 && !c.patterns.is_empty(), "harness: rates/patterns");
    for p in &c.patterns {
        ensure!(!p.is_empty() && p.iter().all(|&a| a != sentinel && c.alphabet.contains(&a)), "harness: pattern {:?} outside the domain", p);
    }

    let alphabet = Alphabet::new(c.alphabet.iter());
    let sa = suffix_array(text);
    let bw = bwt(text, &sa);
    let le = less(&bw, &alphabet);
    let oc = Occ::new(&bw, c.k, &alphabet);
    let mut seen = Seen::default();
    match c.own {
        Own::Borrowed => {
            let fm = FMIndex::new(&bw, &le, &oc);
            let ssa = sa.sample(text, &bw, &le, &oc, c.sa_rate);
            run(&fm, &sa, &ssa, c, &mut seen)?;
        }
        Own::Owned => {
            let fm = FMIndex::new(bw.clone(), le.clone(), oc.clone());
            let ssa = sa.sample(text, bw.clone(), le.clone(), oc.clone(), c.sa_rate);
            run(&fm, &sa, &ssa, c, &mut seen)?;
        }
        Own::Arc => {
            let (b, l, o) = (Arc::new(bw), Arc::new(le), Arc::new(oc));
            let fm = FMIndex::new(b.clone(), l.clone(), o.clone());
            let ssa = sa.sample(text, b.clone(), l.clone(), o.clone(), c.sa_rate);
            run(&fm, &sa, &ssa, c, &mut seen)?;
        }
    }

    let nsent = text.iter().filter(|&&a| a == sentinel).count();
    let mut pass = Pass::new(seen.multi_occ || seen.partial2);
    pass.add_if(nsent >= 2, "multi-sentinel text");
    pass.add_if(text.windows(2).any(|w| w[0] == sentinel && w[1] == sentinel), "adjacent sentinels");
    pass.add_if(sentinel != b'$', "sentinel other than $");
    pass.add_if(sentinel == b'$' && !c.alphabet.contains(&b'$'), "$ sentinel not in the alphabet");
    pass.add_if(n == 1, "text is the sentinel alone");
    pass.add_if(seen.complete, "Complete");
    pass.add_if(seen.multi_occ, ">=2 occurrences");
    pass.add_if(seen.partial2, "Partial with l>=2");
    pass.add_if(seen.partial1, "Partial with l=1");
    pass.add_if(seen.absent, "Absent");
    pass.add_if(seen.longer, "pattern longer than text");
    pass.add_if(seen.absent_symbol, "pattern has a symbol absent from the text");
    pass.add_if(seen.boundary, "Partial stops at a sequence start");
    pass.add_if(c.own == Own::Borrowed, "borrowed");
    pass.add_if(c.own == Own::Owned, "owned");
    pass.add_if(c.own == Own::Arc, "Arc");
    pass.add_if(c.sa_rate > 1, "sampled SA rate>1");
    pass.add_if(c.sa_rate > n, "sampled SA rate>n");
    pass.add_if(c.k == 1, "k=1");
    pass.add_if(c.k > 64 && (c.k as usize) < n, "64<k<n");
    pass.add_if(c.k as usize >= n, "k>=n");
    pass.add_if(n > 300, "n>300");
    Ok(pass)
}

// ---------------------------------------------------------------------------
// generator

#[derive(Debug, Clone)]
enum Syms {
    Dna,
    Lower,
    /// the four bytes right above the sentinel (for `#` this makes `$` a body symbol)
    Near,
    High,
}

fn sym_table(s: &Syms, sentinel: u8) -> [u8; 4] {
    match s {
        Syms::Dna => *b"ACGT",
        Syms::Lower => *b"abcd",
        Syms::Near => [sentinel + 1, sentinel + 2, sentinel + 3, sentinel + 4],
        Syms::High => [252, 253, 254, 255],
    }
}

#[derive(Debug, Clone)]
enum Body {
    /// ranks 0..4 into the symbol table
    Ranks(Vec<u8>),
    /// any byte above the sentinel
    Bytes(Vec<u16>),
}

fn fib_word(len: usize) -> Vec<u8> {
    let (mut a, mut b) = (vec![0u8], vec![0u8, 1]);
    while b.len() < len {
        let mut c = b.clone();
        c.extend_from_slice(&a);
        a = b;
        b = c;
    }
    b.truncate(len);
    b
}

fn thue_morse(len: usize) -> Vec<u8> {
    (0..len).map(|i| (i.count_ones() % 2) as u8).collect()
}

fn body(hi: usize) -> BoxedStrategy<Body> {
    prop_oneof![
        // uniform over 1..=4 letters (small alphabets are repetitive: many occurrences)
        5 => (1u8..=4).prop_flat_map(move |s| proptest::collection::vec(0..s, 0..=hi)).prop_map(Body::Ranks),
        // runs
        1 => proptest::collection::vec((0u8..4, 1usize..=30), 0..=(hi / 12 + 1)).prop_map(|rs| {
            let mut v = Vec::new();
            for (c, l) in rs { v.extend(std::iter::repeat(c).take(l)); }
            Body::Ranks(v)
        }),
        1 => (0..=hi, any::<bool>()).prop_map(|(l, flip)| Body::Ranks(fib_word(l).into_iter().map(|c| if flip { 1 - c } else { c }).collect())),
        1 => (0..=hi).prop_map(|l| Body::Ranks(thue_morse(l))),
        // periodic
        1 => (proptest::collection::vec(0u8..4, 1..=5), 0..=hi).prop_map(|(u, l)| Body::Ranks(u.iter().cycle().take(l).cloned().collect())),
        // full byte alphabet
        1 => proptest::collection::vec(any::<u16>(), 0..=hi.min(120)).prop_map(Body::Bytes),
    ]
    .boxed()
}

#[derive(Debug, Clone)]
struct TextSpec {
    sentinel: u8,
    syms: Syms,
    body: Body,
    /// interior sentinels are inserted at these (fractional) positions
    interior: Vec<u16>,
}

fn build_text(s: &TextSpec) -> Vec<u8> {
    let tab = sym_table(&s.syms, s.sentinel);
    let mut t: Vec<u8> = match &s.body {
        Body::Ranks(r) => r.iter().map(|&c| tab[c as usize]).collect(),
        Body::Bytes(f) => f.iter().map(|&x| s.sentinel + 1 + idx(x, 254 - s.sentinel as usize) as u8).collect(),
    };
    for &f in &s.interior {
        let at = idx(f, t.len());
        t.insert(at, s.sentinel);
    }
    t.push(s.sentinel);
    t
}

fn text_spec(t: Tier) -> BoxedStrategy<TextSpec> {
    let (mid, big) = match t {
        Tier::Quick => (150usize, 500usize),
        Tier::Thorough => (300, 3000),
    };
    let len_class = prop_oneof![6 => Just(20usize), 3 => Just(mid), 1 => Just(big)];
    let interior = prop_oneof![
        4 => Just(Vec::new()).boxed(),
        3 => proptest::collection::vec(any::<u16>(), 1..=2).boxed(),
        2 => proptest::collection::vec(any::<u16>(), 1..=8).boxed(),
        1 => proptest::collection::vec(any::<u16>(), 1..=40).boxed(),
    ];
    (
        prop_oneof![5 => Just(b'$'), 1 => Just(b'!'), 1 => Just(b'#'), 1 => Just(0u8)],
        prop_oneof![4 => Just(Syms::Dna), 2 => Just(Syms::Lower), 1 => Just(Syms::Near), 1 => Just(Syms::High)],
        len_class.prop_flat_map(body),
        interior,
    )
        .prop_map(|(sentinel, syms, body, interior)| TextSpec { sentinel, syms, body, interior })
        .boxed()
}

#[derive(Debug, Clone)]
enum KSpec {
    Abs(u32),
    /// n+1 ..= 2n
    AboveN(u16),
}

#[derive(Debug, Clone)]
enum SaSpec {
    Abs(usize),
    /// 1 ..= n+2
    Frac(u16),
}

#[derive(Debug, Clone)]
enum PSpec {
    /// substring of the text (sentinels dropped), optionally one substitution, optionally random symbols in front
    Sub { start: u16, len: usize, subst: Option<(u16, u16)>, prefix: Vec<u16> },
    Rand(Vec<u16>),
}

fn pspec() -> BoxedStrategy<PSpec> {
    prop_oneof![
        5 => (any::<u16>(), 1usize..=12, proptest::option::weighted(0.4, (any::<u16>(), any::<u16>())), prop_oneof![3 => Just(Vec::new()).boxed(), 1 => proptest::collection::vec(any::<u16>(), 1..=3).boxed()])
            .prop_map(|(start, len, subst, prefix)| PSpec::Sub { start, len, subst, prefix }),
        4 => proptest::collection::vec(any::<u16>(), 1..=12).prop_map(PSpec::Rand),
        1 => proptest::collection::vec(any::<u16>(), 13..=30).prop_map(PSpec::Rand),
    ]
    .boxed()
}

fn build_pattern(ps: &PSpec, text: &[u8], syms: &[u8]) -> Vec<u8> {
    let sentinel = text[text.len() - 1];
    let pick = |f: u16| syms[idx(f, syms.len() - 1)];
    let mut p: Vec<u8> = match ps {
        PSpec::Rand(v) => v.iter().map(|&f| pick(f)).collect(),
        PSpec::Sub { start, len, subst, prefix } => {
            let s = idx(*start, text.len() - 1);
            let e = (s + len).min(text.len());
            let mut p: Vec<u8> = text[s..e].iter().cloned().filter(|&a| a != sentinel).collect();
            if let Some((at, sym)) = subst {
                if !p.is_empty() {
                    let i = idx(*at, p.len() - 1);
                    p[i] = pick(*sym);
                }
            }
            let mut q: Vec<u8> = prefix.iter().map(|&f| pick(f)).collect();
            q.extend_from_slice(&p);
            q
        }
    };
    if p.is_empty() {
        p.push(syms[0]);
    }
    p
}

fn own() -> BoxedStrategy<Own> {
    prop_oneof![Just(Own::Borrowed), Just(Own::Owned), Just(Own::Arc)].boxed()
}

pub fn strat(t: Tier) -> BoxedStrategy<Case> {
    let kspec = prop_oneof![
        4 => (1u32..=8).prop_map(KSpec::Abs),
        2 => (9u32..=64).prop_map(KSpec::Abs),
        2 => (65u32..=130).prop_map(KSpec::Abs),
        1 => any::<u16>().prop_map(KSpec::AboveN),
    ];
    let saspec = prop_oneof![
        1 => Just(SaSpec::Abs(1)),
        3 => (2usize..=8).prop_map(SaSpec::Abs),
        2 => any::<u16>().prop_map(SaSpec::Frac),
    ];
    (
        text_spec(t),
        proptest::collection::vec(any::<u16>(), 0..=3),
        any::<bool>(),
        kspec,
        saspec,
        own(),
        proptest::collection::vec(pspec(), 1..=6),
    )
        .prop_map(|(ts, extras, with_dollar, ks, ss, own, pss)| {
            let text = build_text(&ts);
            let n = text.len();
            let sentinel = ts.sentinel;
            // non-sentinel symbols of the index alphabet: text symbols + extras above the sentinel
            let mut syms: Vec<u8> = text.iter().cloned().filter(|&a| a != sentinel).collect();
            let tab = sym_table(&ts.syms, sentinel);
            for (j, &x) in extras.iter().enumerate() {
                // first extra: a letter of the same family (likely to make near-miss patterns), others: any byte above the sentinel
                if j == 0 {
                    syms.push(tab[idx(x, 3)]);
                } else {
                    syms.push(sentinel + 1 + idx(x, 254 - sentinel as usize) as u8);
                }
            }
            if syms.is_empty() {
                syms.push(tab[0]);
            }
            syms.sort_unstable();
            syms.dedup();
            let mut alphabet = syms.clone();
            if sentinel != b'$' || with_dollar {
                alphabet.insert(0, sentinel);
            }
            let k = match ks {
                KSpec::Abs(k) => k,
                KSpec::AboveN(f) => (n + 1 + idx(f, n - 1)) as u32,
            };
            let sa_rate = match ss {
                SaSpec::Abs(s) => s,
                SaSpec::Frac(f) => 1 + idx(f, n + 1),
            };
            let patterns = pss.iter().map(|ps| B(build_pattern(ps, &text, &syms))).collect();
            Case { text: B(text), alphabet: B(alphabet), k, sa_rate, own, patterns }
        })
        .boxed()
}

// ---------------------------------------------------------------------------
// bounded exhaustive: every text over {$,a,b} of length <= L ending in $, every pattern over {a,b,c}
// (c is in the alphabet but never in the text) of length <= 4

fn enumerate(t: Tier) -> Box<dyn Iterator<Item = Case>> {
    let max_body = match t {
        Tier::Quick => 5usize,
        Tier::Thorough => 7,
    };
    let mut bodies: Vec<Vec<u8>> = vec![vec![]];
    let mut layer: Vec<Vec<u8>> = vec![vec![]];
    for _ in 0..max_body {
        let mut next = Vec::new();
        for s in &layer {
            for c in [b'$', b'a', b'b'] {
                let mut x = s.clone();
                x.push(c);
                next.push(x);
            }
        }
        bodies.extend(next.iter().cloned());
        layer = next;
    }
    let mut pats: Vec<B> = Vec::new();
    let mut layer: Vec<Vec<u8>> = vec![vec![]];
    for _ in 0..4 {
        let mut next = Vec::new();
        for s in &layer {
            for c in [b'a', b'b', b'c'] {
                let mut x = s.clone();
                x.push(c);
                next.push(x);
            }
        }
        pats.extend(next.iter().cloned().map(B));
        layer = next;
    }
    let pats = Arc::new(pats);
    Box::new(bodies.into_iter().enumerate().flat_map(move |(j, body)| {
        let pats = pats.clone();
        let mut text = body;
        text.push(b'$');
        let n = text.len();
        (0..pats.len()).map(move |pi| {
            let r = (j + pi) % 3;
            let own = [Own::Borrowed, Own::Owned, Own::Arc][(j / 3 + pi) % 3];
            Case {
                text: B(text.clone()),
                alphabet: B(if r == 1 { b"$abc".to_vec() } else { b"abc".to_vec() }),
                k: [1u32, 2, (n + 1) as u32][r],
                sa_rate: [1usize, 2, 3][r],
                own,
                patterns: vec![pats[pi].clone()],
            }
        })
    }))
}

pub fn property() -> Property {
    Property {
        id: "C05",
        rule: "random: text = body + sentinel with sentinel in {$,!,#,0x00}; bodies over 1-4 letters (DNA, lowercase, the bytes right above the sentinel, 252..255), runs, Fibonacci/Thue-Morse words, periodic words or the full byte range, 0-40 interior sentinels; index alphabet = text symbols + up to 3 absent symbols (the $ sentinel included or not); Occ rate 1..=130 or above n; SA sampling rate 1..=n+2; components borrowed/owned/Arc; 1-6 patterns per index: substrings of the text (sentinels dropped) with an optional substitution and optional random symbols in front, or random over the alphabet, length 1..=30. exhaustive: every text over {$,a,b} up to the stated length, every pattern over {a,b,c} of length <= 4. Oracle: naive scan for the longest occurring pattern suffix and its occurrence list; the result variant, the partial length and the sorted positions obtained through the raw and through the sampled suffix array must agree with it. Non-trivial = some pattern with >= 2 occurrences or a Partial result with l >= 2; distinct = distinct serialised case.",
        assumptions: &[
            "sentinel = last byte of the text and strictly smaller than every other text symbol; interior sentinels allowed",
            "the alphabet handed to less/Occ covers all non-sentinel text symbols and has no symbol below the sentinel; a sentinel other than $ is part of it",
            "patterns are non-empty, sentinel-free and over that alphabet",
        ],
        subs: vec![
            Box::new(PropSub {
                name: "C05/random",
                quick: 800_000,
                thorough: 5_000_000,
                shards_quick: 16,
                shards_thorough: 16,
                strat,
                check,
                must_reach: &[
                    "multi-sentinel text",
                    "Partial with l>=2",
                    "Absent",
                    "pattern longer than text",
                    ">=2 occurrences",
                    "owned",
                    "borrowed",
                    "Arc",
                    "sampled SA rate>1",
                    "64<k<n",
                    "Partial stops at a sequence start",
                ],
                // a wrong LF step can make SampledSuffixArray::get walk forever: publish cases to the watchdog
                watch: true,
            }),
            Box::new(ExhSub { name: "C05/exhaustive", enumerate, check, must_reach: &["Partial with l>=2", "Absent", "multi-sentinel text"] }),
        ],
    }
}

