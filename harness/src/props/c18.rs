//! C18 — bit-packed containers behave exactly like plain vectors:
//! BitEnc (widths 1..=8), SmallInts<S,B>, Fenwick trees (prefix sum / prefix max).
//!
//! Every sub-check interprets a history of operations against the real container and
//! a `Vec` model in lock-step and compares *everything observable* after every step.

use crate::engine::*;
use crate::ensure;
use proptest::prelude::*;
use serde::{Deserialize, Serialize};

// ===========================================================================
// BitEnc

pub mod bitenc {
    use super::*;
    use crate::engine::gen::idx;
    use bio::data_structures::bitenc::BitEnc;

    #[derive(Serialize, Deserialize, Debug, Clone, PartialEq)]
    pub enum Op {
        /// push(v)
        Push(u8),
        /// push_values(n, v)
        PushValues(u8, u8),
        /// set(i, v) with i = idx(frac, len-1); no-op on an empty container (a Vec would refuse)
        Set(u16, u8),
        /// get(i) with an arbitrary index (in range or not, including huge ones)
        Get(u64),
        /// iter().collect()
        Iter,
        /// clear()
        Clear,
    }

    #[derive(Serialize, Deserialize, Debug, Clone)]
    pub struct Case {
        pub width: u8,
        pub ops: Vec<Op>,
    }

    /// everything the property calls observable, compared against the model
    #[allow(deprecated)]
    fn compare(be: &BitEnc, model: &[u8], w: usize, step: usize, op: &Op) -> Result<(), Stop> {
        let per_block = 32 / w;
        ensure!(
            be.nr_symbols() == model.len() && be.len() == model.len(),
            "width {} after op #{} {:?}: nr_symbols()={} len()={}, model length {}",
            w, step, op, be.nr_symbols(), be.len(), model.len()
        );
        ensure!(
            be.is_empty() == model.is_empty(),
            "width {} after op #{} {:?}: is_empty()={} but model length {}",
            w, step, op, be.is_empty(), model.len()
        );
        let blocks = (model.len() + per_block - 1) / per_block;
        ensure!(
            be.nr_blocks() == blocks,
            "width {} after op #{} {:?}: nr_blocks()={} but {} symbols at {} per block need {}",
            w, step, op, be.nr_blocks(), model.len(), per_block, blocks
        );
        for (i, &m) in model.iter().enumerate() {
            let g = be.get(i);
            ensure!(
                g == Some(m),
                "width {} after op #{} {:?}: get({}) = {:?}, model has {} (model = {:?})",
                w, step, op, i, g, m, model
            );
        }
        for beyond in [model.len(), model.len() + 1, model.len() + per_block, usize::MAX / 16] {
            let g = be.get(beyond);
            ensure!(
                g.is_none(),
                "width {} after op #{} {:?}: get({}) = {:?} although the length is {}",
                w, step, op, beyond, g, model.len()
            );
        }
        let it: Vec<u8> = be.iter().take(model.len() + 2).collect();
        ensure!(
            it == model,
            "width {} after op #{} {:?}: iter() = {:?}, model = {:?}",
            w, step, op, it, model
        );
        Ok(())
    }

    pub fn check(c: &Case) -> R {
        let w = c.width as usize;
        ensure!((1..=8).contains(&w), "harness: width {} outside 1..=8", w);
        let mask: u8 = ((1u16 << w) - 1) as u8;
        let per_block = 32 / w;
        let mut be = BitEnc::new(w);
        let mut model: Vec<u8> = Vec::new();
        let mut pass = Pass::new(false);
        let mut cleared = false;
        let mut crossing = false;
        compare(&be, &model, w, 0, &Op::Iter)?;
        for (k, op) in c.ops.iter().enumerate() {
            let step = k + 1;
            match *op {
                Op::Push(v) => {
                    be.push(v);
                    model.push(v & mask);
                    pass.add_if(v & !mask != 0, "value wider than the field");
                }
                Op::PushValues(n, v) => {
                    let n = n as usize;
                    let fill = model.len() % per_block;
                    let free = if fill == 0 { 0 } else { per_block - fill };
                    be.push_values(n, v);
                    model.extend(std::iter::repeat(v & mask).take(n));
                    pass.add_if(v & !mask != 0, "value wider than the field");
                    pass.add_if(v & !mask != 0 && n > free, "push_values: wide value into fresh blocks");
                    pass.add_if(n == 0, "push_values: n=0");
                    pass.add_if(fill > 0 && n > 0 && n < free, "push_values: stays inside the open block");
                    pass.add_if(fill > 0 && n == free, "push_values: fills the open block exactly");
                    pass.add_if(fill > 0 && n > free, "push_values: crosses a block boundary");
                    pass.add_if(fill > 0 && n >= free && 32 % w != 0, "push_values: reaches the end of an open block with unused bits");
                    pass.add_if(fill == 0 && n > per_block, "push_values: aligned, several blocks");
                    pass.add_if(n > free && (n - free) % per_block != 0, "push_values: leaves a partial block");
                    pass.add_if(n > free + per_block, "push_values: appends a whole block");
                    if fill > 0 && n > free {
                        crossing = true;
                    }
                }
                Op::Set(f, v) => {
                    if !model.is_empty() {
                        let i = idx(f, model.len() - 1);
                        be.set(i, v);
                        model[i] = v & mask;
                        pass.add_if(v & !mask != 0, "value wider than the field");
                        pass.add_if(cleared, "set after clear");
                        pass.add_if(i % per_block == per_block - 1, "set: last slot of a block");
                        pass.add_if(i >= per_block, "set: beyond the first block");
                    }
                }
                Op::Get(i) => {
                    let i = i as usize;
                    let g = be.get(i);
                    let m = model.get(i).copied();
                    ensure!(
                        g == m,
                        "width {} op #{} get({}) = {:?}, model says {:?} (length {})",
                        w, step, i, g, m, model.len()
                    );
                    pass.add_if(i >= model.len(), "get out of range");
                }
                Op::Iter => {
                    pass.add_if(!model.is_empty(), "iter over a non-empty container");
                }
                Op::Clear => {
                    be.clear();
                    pass.add_if(!model.is_empty(), "clear of a non-empty container");
                    model.clear();
                    cleared = true;
                }
            }
            compare(&be, &model, w, step, op)?;
        }
        pass.nontrivial = crossing && matches!(w, 3 | 5 | 6 | 7);
        pass.add(match w {
            1 => "width 1",
            2 => "width 2",
            3 => "width 3",
            4 => "width 4",
            5 => "width 5",
            6 => "width 6",
            7 => "width 7",
            _ => "width 8",
        });
        pass.add_if(model.len() > 2 * per_block, "final length > 2 blocks");
        Ok(pass)
    }

    fn op(w: u8) -> BoxedStrategy<Op> {
        let per_block = 32 / w as u32;
        let val = prop_oneof![
            3 => any::<u8>(),
            2 => (0u16..(1u16 << w)).prop_map(|v| v as u8),
            1 => Just(0xffu8),
        ];
        // push_values counts: small, around the block capacity, and up to 70
        let count = prop_oneof![
            4 => 0u8..=9,
            3 => (0u32..=3, 0u32..=2).prop_map(move |(blocks, d)| (blocks * per_block + d).min(70) as u8),
            2 => 0u8..=70,
        ];
        prop_oneof![
            5 => val.clone().prop_map(Op::Push),
            5 => (count, val.clone()).prop_map(|(n, v)| Op::PushValues(n, v)),
            3 => (any::<u16>(), val).prop_map(|(f, v)| Op::Set(f, v)),
            2 => prop_oneof![4 => 0u64..200, 1 => any::<u64>()].prop_map(Op::Get),
            1 => Just(Op::Iter),
            1 => Just(Op::Clear),
        ]
        .boxed()
    }

    pub fn strat(_t: Tier) -> BoxedStrategy<Case> {
        (1u8..=8)
            .prop_flat_map(|w| (Just(w), proptest::collection::vec(op(w), 0..40)))
            .prop_map(|(width, ops)| Case { width, ops })
            .boxed()
    }

    /// every width, every fill state of the open block, every count around the block
    /// capacities, an in-field and an over-wide value: fill pushes, one push_values, one push, one set.
    pub fn enumerate(_t: Tier) -> Box<dyn Iterator<Item = Case>> {
        let mut v = Vec::new();
        for w in 1u8..=8 {
            let per_block = 32 / w as usize;
            for fill in 0..=(per_block + 1) {
                for n in 0..=(2 * per_block + 2).min(70) {
                    for val in [0xa5u8 & (((1u16 << w) - 1) as u8) | 1, 0xe4u8, 0xffu8] {
                        let mut ops: Vec<Op> = (0..fill).map(|i| Op::Push((i as u8).wrapping_mul(37).wrapping_add(1))).collect();
                        ops.push(Op::PushValues(n as u8, val));
                        ops.push(Op::Push(0x55));
                        ops.push(Op::Set(0xffff, 0));
                        v.push(Case { width: w, ops });
                    }
                }
            }
        }
        Box::new(v.into_iter())
    }
}

// ===========================================================================
// SmallInts

pub mod smallints {
    use super::*;
    use crate::engine::gen::idx;
    use bio::data_structures::smallints::SmallInts;

    /// values are carried as i128 in memory but serialised as decimal strings (JSON numbers stop at 64 bits)
    #[derive(Debug, Clone, Copy, PartialEq, Eq)]
    pub struct V(pub i128);
    impl Serialize for V {
        fn serialize<S: serde::Serializer>(&self, s: S) -> Result<S::Ok, S::Error> {
            s.serialize_str(&self.0.to_string())
        }
    }
    impl<'de> Deserialize<'de> for V {
        fn deserialize<D: serde::Deserializer<'de>>(d: D) -> Result<V, D::Error> {
            let s = String::deserialize(d)?;
            s.parse::<i128>().map(V).map_err(serde::de::Error::custom)
        }
    }

    #[derive(Serialize, Deserialize, Debug, Clone, Copy, PartialEq, Eq)]
    pub enum Pair {
        I8Isize,
        U8Usize,
        I8I64,
        U16U64,
    }

    #[derive(Serialize, Deserialize, Debug, Clone, PartialEq)]
    pub enum Op {
        /// replace the container by SmallInts::new()
        New,
        /// replace the container by SmallInts::with_capacity(n)
        WithCapacity(u8),
        /// replace the container by SmallInts::from_elem(v, n); v is a small value (below the small type's maximum)
        FromElem(V, u8),
        Push(V),
        /// set(i, v), i = idx(frac, len-1); skipped on an empty container
        Set(u16, V),
        /// get(i) for an arbitrary index
        Get(u64),
        Iter,
        Decompress,
    }

    #[derive(Serialize, Deserialize, Debug, Clone)]
    pub struct Case {
        pub pair: Pair,
        pub ops: Vec<Op>,
    }

    /// (S::MIN, S::MAX, B::MIN, B::MAX)
    pub fn limits(p: Pair) -> (i128, i128, i128, i128) {
        match p {
            Pair::I8Isize => (i8::MIN as i128, i8::MAX as i128, isize::MIN as i128, isize::MAX as i128),
            Pair::U8Usize => (0, u8::MAX as i128, 0, usize::MAX as i128),
            Pair::I8I64 => (i8::MIN as i128, i8::MAX as i128, i64::MIN as i128, i64::MAX as i128),
            Pair::U16U64 => (0, u16::MAX as i128, 0, u64::MAX as i128),
        }
    }

    macro_rules! run_pair {
        ($S:ty, $B:ty, $case:expr) => {{
            let c: &Case = $case;
            let (smin, smax, bmin, bmax) = limits(c.pair);
            let mut si: SmallInts<$S, $B> = SmallInts::new();
            let mut model: Vec<$B> = Vec::new();
            let mut pass = Pass::new(false);
            let (mut any_big, mut any_small, mut any_set) = (false, false, false);
            for (k, op) in c.ops.iter().enumerate() {
                let step = k + 1;
                let conv = |v: V| -> Result<$B, Stop> {
                    if v.0 < bmin || v.0 > bmax {
                        return Err(Stop::Fail(format!("harness: value {} outside the big type of {:?}", v.0, c.pair)));
                    }
                    Ok(v.0 as $B)
                };
                let mut classify = |v: i128, pass: &mut Pass| {
                    pass.add_if(v == smax - 1, "value = small max - 1");
                    pass.add_if(v == smax, "value = small max");
                    pass.add_if(v == smax + 1, "value = small max + 1");
                    pass.add_if(v < 0, "negative value");
                    pass.add_if(v < smin, "value below the small minimum");
                    pass.add_if(v == smin, "value = small min");
                    pass.add_if(v == bmax || (bmin < 0 && v == bmin), "huge value (big type limit)");
                    pass.add_if(v > smax + 1, "value above small max + 1");
                    if v >= smax || v < smin {
                        any_big = true;
                    } else {
                        any_small = true;
                    }
                };
                match *op {
                    Op::New => {
                        si = SmallInts::new();
                        model.clear();
                    }
                    Op::WithCapacity(n) => {
                        si = SmallInts::with_capacity(n as usize);
                        model.clear();
                    }
                    Op::FromElem(v, n) => {
                        ensure!(v.0 >= smin && v.0 < smax, "harness: from_elem value {} is not a small value of {:?}", v.0, c.pair);
                        si = SmallInts::from_elem(v.0 as $S, n as usize);
                        model = vec![v.0 as $B; n as usize];
                        pass.add("from_elem");
                        pass.add_if(v.0 < 0, "from_elem negative");
                        pass.add_if(v.0 == smax - 1, "from_elem small max - 1");
                        if n > 0 {
                            any_small = true;
                        }
                    }
                    Op::Push(v) => {
                        let b = conv(v)?;
                        si.push(b);
                        model.push(b);
                        classify(v.0, &mut pass);
                    }
                    Op::Set(f, v) => {
                        if !model.is_empty() {
                            let b = conv(v)?;
                            let i = idx(f, model.len() - 1);
                            let old = model[i] as i128;
                            let old_big = old >= smax || old < smin;
                            let new_big = v.0 >= smax || v.0 < smin;
                            si.set(i, b);
                            model[i] = b;
                            classify(v.0, &mut pass);
                            any_set = true;
                            pass.add_if(old_big && !new_big, "set big -> small");
                            pass.add_if(!old_big && new_big, "set small -> big");
                            pass.add_if(old_big && new_big && old != v.0, "set big -> other big");
                        }
                    }
                    Op::Get(i) => {
                        let i = i as usize;
                        let g = si.get(i);
                        let m = model.get(i).copied();
                        ensure!(g == m, "{:?} op #{} get({}) = {:?}, model says {:?} (length {})", c.pair, step, i, g, m, model.len());
                        pass.add_if(i >= model.len(), "get out of range");
                    }
                    Op::Iter | Op::Decompress => {}
                }
                // full comparison after every operation
                ensure!(
                    si.len() == model.len() && si.is_empty() == model.is_empty(),
                    "{:?} after op #{} {:?}: len()={} is_empty()={}, model length {}",
                    c.pair, step, op, si.len(), si.is_empty(), model.len()
                );
                for (i, &m) in model.iter().enumerate() {
                    let g = si.get(i);
                    ensure!(g == Some(m), "{:?} after op #{} {:?}: get({}) = {:?}, model has {} (model = {:?})", c.pair, step, op, i, g, m, model);
                }
                for beyond in [model.len(), model.len() + 1, usize::MAX] {
                    let g = si.get(beyond);
                    ensure!(g.is_none(), "{:?} after op #{} {:?}: get({}) = {:?} although the length is {}", c.pair, step, op, beyond, g, model.len());
                }
                let it: Vec<$B> = si.iter().take(model.len() + 2).collect();
                ensure!(it == model, "{:?} after op #{} {:?}: iter() = {:?}, model = {:?}", c.pair, step, op, it, model);
                let de: Vec<$B> = si.decompress();
                ensure!(de == model, "{:?} after op #{} {:?}: decompress() = {:?}, model = {:?}", c.pair, step, op, de, model);
            }
            pass.nontrivial = any_big && any_small && any_set;
            pass.add_if(model.len() >= 10, "final length >= 10");
            Ok(pass)
        }};
    }

    pub fn check(c: &Case) -> R {
        let mut r: R = match c.pair {
            Pair::I8Isize => run_pair!(i8, isize, c),
            Pair::U8Usize => run_pair!(u8, usize, c),
            Pair::I8I64 => run_pair!(i8, i64, c),
            Pair::U16U64 => run_pair!(u16, u64, c),
        };
        if let Ok(p) = &mut r {
            p.add(match c.pair {
                Pair::I8Isize => "SmallInts<i8,isize>",
                Pair::U8Usize => "SmallInts<u8,usize>",
                Pair::I8I64 => "SmallInts<i8,i64>",
                Pair::U16U64 => "SmallInts<u16,u64>",
            });
        }
        r
    }

    fn value(p: Pair) -> BoxedStrategy<V> {
        let (smin, smax, bmin, bmax) = limits(p);
        let signed = bmin < 0;
        let clamp = move |v: i128| V(v.clamp(bmin, bmax));
        let small = (0u16..=u16::MAX).prop_map(move |f| {
            // uniformly over the small range [smin, smax-1]
            let span = (smax - smin) as u64; // number of small values
            V(smin + ((f as u64 * span) >> 16) as i128)
        });
        let edge = prop_oneof![
            Just(V(smax - 2)),
            Just(V(smax - 1)),
            Just(V(smax)),
            Just(V(smax)),
            Just(V(smax + 1)),
            Just(V(smax + 2)),
            Just(V(0)),
            Just(V(1)),
        ];
        let neg = if signed {
            prop_oneof![Just(V(-1)), Just(V(-2)), Just(V(smin)), Just(V(smin + 1)), Just(V(smin - 1)), Just(V(smin - 2)), Just(V(-1000))].boxed()
        } else {
            prop_oneof![Just(V(0)), Just(V(1)), Just(V(2))].boxed()
        };
        let huge = if signed {
            prop_oneof![Just(V(bmax)), Just(V(bmin)), Just(V(bmax - 1)), Just(V(bmin + 1)), Just(V(1 << 40)), Just(V(-(1 << 40)))].boxed()
        } else {
            prop_oneof![Just(V(bmax)), Just(V(bmax - 1)), Just(V(1 << 40)), Just(V(1 << 63))].boxed()
        };
        let anyv = any::<i64>().prop_map(move |x| clamp(x as i128));
        prop_oneof![4 => small, 4 => edge, 2 => neg, 2 => huge, 1 => anyv].boxed()
    }

    fn small_value(p: Pair) -> BoxedStrategy<V> {
        let (smin, smax, _, _) = limits(p);
        prop_oneof![
            3 => (0u16..=u16::MAX).prop_map(move |f| V(smin + ((f as u64 * (smax - smin) as u64) >> 16) as i128)),
            1 => Just(V(smax - 1)),
            1 => Just(V(smin)),
            1 => Just(V(0)),
        ]
        .boxed()
    }

    fn op(p: Pair) -> BoxedStrategy<Op> {
        prop_oneof![
            8 => value(p).prop_map(Op::Push),
            8 => (any::<u16>(), value(p)).prop_map(|(f, v)| Op::Set(f, v)),
            2 => prop_oneof![4 => 0u64..60, 1 => any::<u64>()].prop_map(Op::Get),
            1 => Just(Op::Iter),
            1 => Just(Op::Decompress),
            1 => (small_value(p), 0u8..=12).prop_map(|(v, n)| Op::FromElem(v, n)),
            1 => prop_oneof![Just(Op::New), (0u8..=40).prop_map(Op::WithCapacity)],
        ]
        .boxed()
    }

    pub fn strat(_t: Tier) -> BoxedStrategy<Case> {
        prop_oneof![Just(Pair::I8Isize), Just(Pair::U8Usize), Just(Pair::I8I64), Just(Pair::U16U64)]
            .prop_flat_map(|p| {
                let first = prop_oneof![
                    2 => Just(Op::New),
                    2 => (small_value(p), 0u8..=12).prop_map(|(v, n)| Op::FromElem(v, n)),
                    1 => (0u8..=40).prop_map(Op::WithCapacity),
                ];
                (Just(p), first, proptest::collection::vec(op(p), 0..40))
            })
            .prop_map(|(pair, first, mut ops)| {
                ops.insert(0, first);
                Case { pair, ops }
            })
            .boxed()
    }
}

// ===========================================================================
// Fenwick trees

pub mod fenwick {
    use super::*;
    use crate::engine::gen::idx;
    use bio::data_structures::bit_tree::{MaxBitTree, SumBitTree};

    #[derive(Serialize, Deserialize, Debug, Clone, Copy, PartialEq, Eq)]
    pub enum Kind {
        /// SumBitTree<i64>
        Sum,
        /// MaxBitTree<(u32,u32)>
        Max,
    }

    #[derive(Serialize, Deserialize, Debug, Clone, PartialEq)]
    pub enum Op {
        /// set(idx(frac, len-1), value): sum tree adds `a`; max tree offers (a as u32, b)
        Set(u16, i32, u32),
        /// get(idx(frac, len-1)) (every index is compared after every op anyway)
        Get(u16),
    }

    #[derive(Serialize, Deserialize, Debug, Clone)]
    pub struct Case {
        pub kind: Kind,
        pub len: u8,
        pub ops: Vec<Op>,
    }

    pub fn check(c: &Case) -> R {
        let n = c.len as usize;
        ensure!(n <= 64, "harness: length {} > 64", n);
        let mut pass = Pass::new(false);
        pass.add_if(n == 0, "length 0 (construction only)");
        pass.add_if(n == 1, "length 1");
        pass.add_if(n == 64, "length 64");
        pass.add_if(n.is_power_of_two(), "length a power of two");
        pass.add_if(n > 1 && (n + 1).is_power_of_two(), "length 2^j - 1");
        pass.add(match c.kind {
            Kind::Sum => "sum tree",
            Kind::Max => "max tree",
        });
        let mut updates = 0usize;
        let mut last_idx_updated = false;
        match c.kind {
            Kind::Sum => {
                let mut t: SumBitTree<i64> = SumBitTree::new(n);
                let mut model = vec![0i64; n];
                for (k, op) in c.ops.iter().enumerate() {
                    if n == 0 {
                        break;
                    }
                    match *op {
                        Op::Set(f, a, _) => {
                            let i = idx(f, n - 1);
                            t.set(i, a as i64);
                            model[i] += a as i64;
                            updates += 1;
                            last_idx_updated |= i == n - 1;
                            pass.add_if(a < 0, "negative update");
                        }
                        Op::Get(f) => {
                            let i = idx(f, n - 1);
                            let want: i64 = model[..=i].iter().sum();
                            let got = t.get(i);
                            ensure!(got == want, "sum tree of length {} op #{} get({}) = {}, prefix sum of the updates = {} (point totals {:?})", n, k + 1, i, got, want, model);
                        }
                    }
                    let mut acc = 0i64;
                    for i in 0..n {
                        acc += model[i];
                        let got = t.get(i);
                        ensure!(got == acc, "sum tree of length {} after op #{} {:?}: get({}) = {}, prefix sum of the updates = {} (point totals {:?})", n, k + 1, op, i, got, acc, model);
                    }
                }
            }
            Kind::Max => {
                let mut t: MaxBitTree<(u32, u32)> = MaxBitTree::new(n);
                let mut model = vec![(0u32, 0u32); n];
                for (k, op) in c.ops.iter().enumerate() {
                    if n == 0 {
                        break;
                    }
                    match *op {
                        Op::Set(f, a, b) => {
                            let i = idx(f, n - 1);
                            let v = (a.unsigned_abs(), b);
                            t.set(i, v);
                            pass.add_if(v < model[i], "max tree: smaller value offered at an index");
                            pass.add_if(v.0 == model[i].0 && v.1 != model[i].1 && updates > 0, "max tree: tie on the first component");
                            model[i] = model[i].max(v);
                            updates += 1;
                            last_idx_updated |= i == n - 1;
                        }
                        Op::Get(f) => {
                            let i = idx(f, n - 1);
                            let want = model[..=i].iter().copied().max().unwrap();
                            let got = t.get(i);
                            ensure!(got == want, "max tree of length {} op #{} get({}) = {:?}, prefix maximum of the updates = {:?} (point maxima {:?})", n, k + 1, i, got, want, model);
                        }
                    }
                    let mut acc = (0u32, 0u32);
                    for i in 0..n {
                        acc = acc.max(model[i]);
                        let got = t.get(i);
                        ensure!(got == acc, "max tree of length {} after op #{} {:?}: get({}) = {:?}, prefix maximum of the updates = {:?} (point maxima {:?})", n, k + 1, op, i, got, acc, model);
                    }
                }
            }
        }
        pass.add_if(last_idx_updated, "update at the last index");
        pass.add_if(updates >= 10, ">= 10 updates");
        pass.nontrivial = n >= 3 && updates >= 3;
        Ok(pass)
    }

    pub fn strat(_t: Tier) -> BoxedStrategy<Case> {
        let len = prop_oneof![
            6 => 1u8..=64,
            1 => Just(1u8),
            1 => Just(2u8),
            1 => Just(64u8),
            1 => prop_oneof![Just(3u8), Just(4), Just(7), Just(8), Just(15), Just(16), Just(31), Just(32), Just(33), Just(63)],
            1 => Just(0u8),
        ];
        let frac = prop_oneof![6 => any::<u16>(), 1 => Just(0u16), 1 => Just(u16::MAX)];
        let op = prop_oneof![
            3 => (frac.clone(), prop_oneof![4 => -9i32..=9, 1 => -1000i32..=1000], prop_oneof![4 => 0u32..=5, 1 => any::<u32>()]).prop_map(|(f, a, b)| Op::Set(f, a, b)),
            1 => frac.prop_map(Op::Get),
        ];
        (prop_oneof![Just(Kind::Sum), Just(Kind::Max)], len, proptest::collection::vec(op, 0..40))
            .prop_map(|(kind, len, ops)| Case { kind, len, ops })
            .boxed()
    }
}

pub fn property() -> Property {
    Property {
        id: "C18",
        rule: "histories vec(op, 0..40) interpreted against the real container and a Vec model in lock-step, with a full comparison of everything observable after every operation. BitEnc: width 1..=8, ops push / push_values(n<=70) / set(in range) / get(any index) / iter / clear, values over the full u8 range, compared width-masked; observed nr_symbols, len, is_empty, nr_blocks = ceil(len / (32 div width)), every get, four out-of-range gets, iter. Plus an exhaustive sweep width x fill state x push_values count x value. SmallInts<i8,isize>, <u8,usize>, <i8,i64>, <u16,u64>: new / with_capacity / from_elem / push / set / get / iter / decompress with values drawn around the small maximum, negatives, below the small minimum and the big type's limits. Fenwick: length 0..=64, sum tree over i64 and max tree over (u32,u32), every index compared with the model prefix after every update. Non-trivial = BitEnc: width in {3,5,6,7} and a push_values that crosses a block boundary from a partially filled block; SmallInts: history with a big value, a small value and a set; Fenwick: length >= 3 and >= 3 updates. Distinct = distinct serialised histories.",
        assumptions: &[
            "BitEnc::set and SmallInts::set are only called with an index below the current length (a vector refuses others); Fenwick get/set only with an index below the tree length",
            "SmallInts::from_elem is only given a value below the small type's maximum (documented: 'v is expected to be small')",
            "BitEnc width 0 is not a width (the property quantifies over 1..=8)",
        ],
        subs: vec![
            Box::new(PropSub {
                name: "C18/bitenc",
                quick: 480_000,
                thorough: 4_000_000,
                shards_quick: 16,
                shards_thorough: 16,
                strat: bitenc::strat,
                check: bitenc::check,
                must_reach: &[
                    "width 1", "width 2", "width 3", "width 4", "width 5", "width 6", "width 7", "width 8",
                    "push_values: crosses a block boundary",
                    "push_values: reaches the end of an open block with unused bits",
                    "push_values: wide value into fresh blocks",
                    "value wider than the field",
                    "set after clear",
                    "get out of range",
                ],
                watch: false,
            }),
            Box::new(ExhSub { name: "C18/bitenc-fill-sweep", enumerate: bitenc::enumerate, check: bitenc::check, must_reach: &["push_values: crosses a block boundary"] }),
            Box::new(PropSub {
                name: "C18/smallints",
                quick: 360_000,
                thorough: 3_000_000,
                shards_quick: 16,
                shards_thorough: 16,
                strat: smallints::strat,
                check: smallints::check,
                must_reach: &[
                    "SmallInts<i8,isize>", "SmallInts<u8,usize>", "SmallInts<i8,i64>", "SmallInts<u16,u64>",
                    "value = small max - 1", "value = small max", "value = small max + 1", "negative value", "huge value (big type limit)",
                    "set big -> small", "set small -> big", "from_elem", "get out of range",
                ],
                watch: false,
            }),
            Box::new(PropSub {
                name: "C18/fenwick",
                quick: 360_000,
                thorough: 3_000_000,
                shards_quick: 16,
                shards_thorough: 16,
                strat: fenwick::strat,
                check: fenwick::check,
                must_reach: &["length 1", "length 64", "sum tree", "max tree", "update at the last index"],
                watch: false,
            }),
        ],
    }
}

