//! C18 — bit-packed containers behave exactly like plain vectors:
//! BitEnc (widths 1..=8), SmallInts<S,B>, Fenwick trees (prefix sum / prefix max).
//!
//! Every sub-check interprets a history of operations against the real container and
//! a `Vec` model in lock-step and compares *everything observable* after every step.

use crate::engine::*;
use crate::ensure;
use proptest::prelude::*;
use serde::{Deserialize, Serialize};

// ===========================================================================
// BitEnc

pub mod bitenc {
    use super::*;
    use crate::engine::gen::idx;
    use bio::data_structures::bitenc::BitEnc;

    #[derive(Serialize, Deserialize, Debug, Clone, PartialEq)]
    pub enum Op {
        /// push(v)
        Push(u8),
        /// push_values(n, v)
        PushValues(u8, u8),
        /// set(i, v) with i = idx(frac, len-1); no-op on an empty container (a Vec would refuse)
        Set(u16, u8),
        /// get(i) with an arbitrary index (in range or not, including huge ones)
        Get(u64),
        /// iter().collect()
        Iter,
        /// clear()
        Clear,
    }

    #[derive(Serialize, Deserialize, Debug, Clone)]
    pub struct Case {
        pub width: u8,
        pub ops: Vec<Op>,
    }

    /// everything the property calls observable, compared against the model
    #[allow(deprecated)]
    fn compare(be: &BitEnc, model: &[u8], w: usize, step: usize, op: &Op) -> Result<(), Stop> {
        let per_block = 32 / w;
        ensure!(
            be.nr_symbols() == model.len() && be.len() == model.len(),
            "width {} after op #{} {:?}: nr_symbols()={} len()={}, model length {}",
            w, step, op, be.nr_symbols(), be.len(), model.len()
        );
        ensure!(
            be.is_empty() == model.is_empty(),
            "width {} after op #{} {:?}: is_empty()={} but model length {}",
            w, step, op, be.is_empty(), model.len()
        );
        let blocks = (model.len() + per_block - 1) / per_block;
        ensure!(
            be.nr_blocks() == blocks,
            "width {} after op #{} {:?}: nr_blocks()={} but {} symbols at {} per block need {}",
            w, step, op, be.nr_blocks(), model.len(), per_block, blocks
        );
        for (i, &m) in model.iter().enumerate() {
            let g = be.get(i);
            ensure!(
                g == Some(m),
                "width {} after op #{} {:?}: get({}) = {:?}, model has {} (model = {:?})",
                w, step, op, i, g, m, model
            );
        }
        for beyond in [model.len(), model.len() + 1, model.len() + per_block, usize::MAX / 16] {
            let g = be.get(beyond);
            ensure!(
                g.is_none(),
                "width {} after op #{} {:?}: get({}) = {:?} although the length is {}",
                w, step, op, beyond, g, model.len()
            );
        }
        let it: Vec<u8> = be.iter().take(model.len() + 2).collect();
        ensure!(
            it == model,
            "width {} after op #{} {:?}: iter() = {:?}, model = {:?}",
            w, step, op, it, model
        );
        Ok(())
    }

    pub fn check(c: &Case) -> R {
        let w = c.width as usize;
        ensure!((1..=8).contains(&w), "harness: width {} outside 1..=8", w);
        let mask: u8 = ((1u16 << w) - 1) as u8;
        let per_block = 32 / w;
        let mut be = BitEnc::new(w);
        let mut model: Vec<u8> = Vec::new();
        let mut pass = Pass::new(false);
        let mut cleared = false;
        let mut crossing = false;
        compare(&be, &model, w, 0, &Op::Iter)?;
        for (k, op) in c.ops.iter().enumerate() {
            let step = k + 1;
            match *op {
                Op::Push(v) => {
                    be.push(v);
                    model.push(v & mask);
                    pass.add_if(v & !mask != 0, "value wider than the field");
                }
                Op::PushValues(n, v) => {
                    let n = n as usize;
                    let fill = model.len() % per_block;
                    let free = if fill == 0 { 0 } else { per_block - fill };
                    be.push_values(n, v);
                    model.extend(std::iter::repeat(v & mask).take(n));
                    pass.add_if(v & !mask != 0, "value wider than the field");
                    pass.add_if(v & !mask != 0 && n > free, "push_values: wide value into fresh blocks");
                    pass.add_if(n == 0, "push_values: n=0");
                    pass.add_if(fill > 0 && n > 0 && n < free, "push_values: stays inside the open block");
                    pass.add_if(fill > 0 && n == free, "push_values: fills the open block exactly");
                    pass.add_if(fill > 0 && n > free, "push_values: crosses a block boundary");
                    pass.add_if(fill > 0 && n >= free && 32 % w != 0, "push_values: reaches the end of an open block with unused bits");
                    pass.add_if(fill == 0 && n > per_block, "push_values: aligned, several blocks");
                    pass.add_if(n > free && (n - free) % per_block != 0, "push_values: leaves a partial block");
                    pass.add_if(n > free + per_block, "push_values: appends a whole block");
                    if fill > 0 && n > free {
                        crossing = true;
                    }
                }
                Op::Set(f, v) => {
                    if !model.is_empty() {
                        let i = idx(f, model.len() - 1);
                        be.set(i, v);
                        model[i] = v & mask;
                        pass.add_if(v & !mask != 0, "value wider than the field");
                        pass.add_if(cleared, "set after clear");
                        pass.add_if(i % per_block == per_block - 1, "set: last slot of a block");
                        pass.add_if(i >= per_block, "set: beyond the first block");
                    }
                }
                Op::Get(i) => {
                    let i = i as usize;
                    let g = be.get(i);
                    let m = model.get(i).copied();
                    ensure!(
                        g == m,
                        "width {} op #{} get({}) = {:?}, model says {:?} (length {})",
                        w, step, i, g, m, model.len()
                    );
                    pass.add_if(i >= model.len(), "get out of range");
                }
                Op::Iter => {
                    pass.add_if(!model.is_empty(), "iter over a non-empty container");
                }
                Op::Clear => {
                    be.clear();
                    pass.add_if(!model.is_empty(), "clear of a non-empty container");
                    model.clear();
                    cleared = true;
                }
            }
            compare(&be, &model, w, step, op)?;
        }
        pass.nontrivial = crossing && matches!(w, 3 | 5 | 6 | 7);
        pass.add(match w {
            1 => "width 1",
            2 => "width 2",
            3 => "width 3",
            4 => "width 4",
            5 => "width 5",
            6 => "width 6",
            7 => "width 7",
            _ => "width 8",
        });
        pass.add_if(model.len() > 2 * per_block, "final length > 2 blocks");
        Ok(pass)
    }

    fn op(w: u8) -> BoxedStrategy<Op> {
        let per_block = 32 / w as u32;
        let val = prop_oneof![
            3 => any::<u8>(),
            2 => (0u16..(1u16 << w)).prop_map(|v| v as u8),
            1 => Just(0xffu8),
        ];
        // push_values counts: small, around the block capacity, and up to 70
        let count = prop_oneof![
            4 => 0u8..=9,
            3 => (0u32..=3, 0u32..=2).prop_map(move |(blocks, d)| (blocks * per_block + d).min(70) as u8),
            2 => 0u8..=70,
        ];
        prop_oneof![
            5 => val.clone().prop_map(Op::Push),
            5 => (count, val.clone()).prop_map(|(n, v)| Op::PushValues(n, v)),
            3 => (any::<u16>(), val).prop_map(|(f, v)| Op::Set(f, v)),
            2 => prop_oneof![4 => 0u64..200, 1 => any::<u64>()].prop_map(Op::Get),
            1 => Just(Op::Iter),
            1 => Just(Op::Clear),
        ]
        .boxed()
    }

    pub fn strat(_t: Tier) -> BoxedStrategy<Case> {
        (1u8..=8)
            .prop_flat_map(|w| (Just(w), proptest::collection::vec(op(w), 0..40)))
            .prop_map(|(width, ops)| Case { width, ops })
            .boxed()
    }

    /// every width, every fill state of the open block, every count around the block
    /// capacities, an in-field and an over-wide value: fill pushes, one push_values, one push, one set.
    pub fn enumerate(_t: Tier) -> Box<dyn Iterator<Item = Case>> {
        let mut v = Vec::new();
        for w in 1u8..=8 {
            let per_block = 32 / w as usize;
            for fill in 0..=(per_block + 1) {
                for n in 0..=(2 * per_block + 2).min(70) {
                    for val in [0xa5u8 & (((1u16 << w) - 1) as u8) | 1, 0xe4u8, 0xffu8] {
                        let mut ops: Vec<Op> = (0..fill).map(|i| Op::Push((i as u8).wrapping_mul(37).wrapping_add(1))).collect();
                        ops.push(Op::PushValues(n as u8, val));
                        ops.push(Op::Push(0x55));
                        ops.push(Op::Set(0xffff, 0));
                        v.push(Case { width: w, ops });
                    }
                }
            }
        }
        Box::new(v.into_iter())
    }
}

// ===========================================================================
// SmallInts

pub mod smallints {
    use super::*;
    use crate::engine::gen::idx;
    use bio::data_structures::smallints::SmallInts;

    /// values are carried as i128 in memory but serialised as decimal strings (JSON numbers stop at 64 bits)
    #[derive(Debug, Clone, Copy, PartialEq, Eq)]
    pub struct V(pub i128);
    impl Serialize for V {
        fn serialize<S: serde::Serializer>(&self, s: S) -> Result<S::Ok, S::Error> {
            s.serialize_str(&self.0.to_string())
        }
    }
    impl<'de> Deserialize<'de> for V {
        fn deserialize<D: serde::Deserializer<'de>>(d: D) -> Result<V, D::Error> {
            let s = String::deserialize(d)?;
            s.parse::<i128>().map(V).map_err(serde::de::Error::custom)
        }
    }

    #[derive(Serialize, Deserialize, Debug, Clone, Copy, PartialEq, Eq)]
    pub enum Pair {
        I8Isize,
        U8Usize,
        I8I64,
        U16U64,
    }

    #[derive(Serialize, Deserialize, Debug, Clone, PartialEq)]
    pub enum Op {
        /// replace the container by SmallInts::new()
        New,
        /// replace the container by SmallInts::with_capacity(n)
        WithCapacity(u8),
        /// replace the container by SmallInts::from_elem(v, n); v is a small value (below the small type's maximum)
        FromElem(V, u8),
        Push(V),
        /// set(i, v), i = idx(frac, len-1); skipped on an empty container
        Set(u16, V),
        /// get(i) for an arbitrary index
        Get(u64),
        Iter,
        Decompress,
    }

    #[derive(Serialize, Deserialize, Debug, Clone)]
    pub struct Case {
        pub pair: Pair,
        pub ops: Vec<Op>,
    }

    /// (S::MIN, S::MAX, B::MIN, B::MAX)
    pub fn limits(p: Pair) -> (i128, i128, i128, i128) {
        match p {
            Pair::I8Isize => (i8::MIN as i128, i8::MAX as i128, isize::MIN as i128, isize::MAX as i128),
            Pair::U8Usize => (0, u8::MAX as i128, 0, usize::MAX as i128),
            Pair::I8I64 => (i8::MIN as i128, i8::MAX as i128, i64::MIN as i128, i64::MAX as i128),
            Pair::U16U64 => (0, u16::MAX as i128, 0, u64::MAX as i128),
        }
    }

    macro_rules! run_pair {
        ($S:ty, $B:ty, $case:expr) => {{
            let c: &Case = $case;
            let (smin, smax, bmin, bmax) = limits(c.pair);
            let mut si: SmallInts<$S, $B> = SmallInts::new();
            let mut model: Vec<$B> = Vec::new();
            let mut pass = Pass::new(false);
            let (mut any_big, mut any_small, mut any_set) = (false, false, false);
            for (k, op) in c.ops.iter().enumerate() {
                let step = k + 1;
                let conv = |v: V| -> Result<$B, Stop> {
                    if v.0 < bmin || v.0 > bmax {
                        return Err(Stop::Fail(format!("harness: value {} outside the big type of {:?}", v.0, c.pair)));
                    }
                    Ok(v.0 as $B)
                };
                let mut classify = |v: i128, pass: &mut Pass| {
                    pass.add_if(v == smax - 1, "value = small max - 1");
                    pass.add_if(v == smax, "value = small max");
                    pass.add_if(v == smax + 1, "value = small max + 1");
                    pass.add_if(v < 0, "negative value");
                    pass.add_if(v < smin, "value below the small minimum");
                    pass.add_if(v == smin, "value = small min");
                    pass.add_if(v == bmax || (bmin < 0 && v == bmin), "huge value (big type limit)");
                    pass.add_if(v > smax + 1, "value above small max + 1");
                    if v >= smax || v < smin {
                        any_big = true;
                    } else {
                        any_small = true;
                    }
                };
                match *op {
                    Op::New => {
                        si = SmallInts::new();
                        model.clear();
                    }
                    Op::WithCapacity(n) => {
                        si = SmallInts::with_capacity(n as usize);
                        model.clear();
                    }
                    Op::FromElem(v, n) => {
                        ensure!(v.0 >= smin && v.0 < smax, "harness: from_elem value {} is not a small value of {:?}", v.0, c.pair);
                        si = SmallInts::from_elem(v.0 as $S, n as usize);
                        model = vec![v.0 as $B; n as usize];
                        pass.add("from_elem");
                        pass.add_if(v.0 < 0, "from_elem negative");
                        pass.add_if(v.0 == smax - 1, "from_elem small max - 1");
                        if n > 0 {
                            any_small = true;
                        }
                    }
                    Op::Push(v) => {
                        let b = conv(v)?;
                        si.push(b);
                        model.push(b);
                        classify(v.0, &mut pass);
                    }
                    Op::Set(f, v) => {
                        if !model.is_empty() {
                            let b = conv(v)?;
                            let i = idx(f, model.len() - 1);
                            let old = model[i] as i128;
                            let old_big = old >= smax || old < smin;
                            let new_big = v.0 >= smax || v.0 < smin;
                            si.set(i, b);
                            model[i] = b;
                            classify(v.0, &mut pass);
                            any_set = true;
                            pass.add_if(old_big && !new_big, "set big -> small");
                            pass.add_if(!old_big && new_big, "set small -> big");
                            pass.add_if(old_big && new_big && old != v.0, "set big -> other big");
                        }
                    }
                    Op::Get(i) => {
                        let i = i as usize;
                        let g = si.get(i);
                        let m = model.get(i).copied();
                        ensure!(g == m, "{:?} op #{} get({}) = {:?}, model says {:?} (length {})", c.pair, step, i, g, m, model.len());
                        pass.add_if(i >= model.len(), "get out of range");
                    }
                    Op::Iter | Op::Decompress => {}
                }
                // full comparison after every operation
                ensure!(
                    si.len() == model.len() && si.is_empty() == model.is_empty(),
                    "{:?} after op #{} {:?}: len()={} is_empty()={}, model length {}",
                    c.pair, step, op, si.len(), si.is_empty(), model.len()
                );
                for (i, &m) in model.iter().enumerate() {
                    let g = si.get(i);
                    ensure!(g == Some(m), "{:?} after op #{} {:?}: get({}) = {:?}, model has {} (model = {:?})", c.pair, step, op, i, g, m, model);
                }
                for beyond in [model.len(), model.len() + 1, usize::MAX] {
                    let g = si.get(beyond);
                    ensure!(g.is_none(), "{:?} after op #{} {:?}: get({}) = {:?} although the length is {}", c.pair, step, op, beyond, g, model.len());
                }
                let it: Vec<$B> = si.iter().take(model.len() + 2).collect();
                ensure!(it == model, "{:?} after op #{} {:?}: iter() = {:?}, model = {:?}", c.pair, step, op, it, model);
                let de: Vec<$B> = si.decompress();
                ensure!(de == model, "{:?} after op #{} {:?}: decompress() = {:?}, model = {:?}", c.pair, step, op, de, model);
            }
            pass.nontrivial = any_big && any_small && any_set;
            pass.add_if(model.len() >= 10, "final length >= 10");
            Ok(pass)
        }};
    }

    pub fn check(c: &Case) -> R {
        let mut r: R = match c.pair {
            Pair::I8Isize => run_pair!(i8, isize, c),
            Pair::U8Usize => run_pair!(u8, usize, c),
            Pair::I8I64 => run_pair!(i8, i64, c),
            Pair::U16U64 => run_pair!(u16, u64, c),
        };
        if let Ok(p) = &mut r {
            p.add(match c.pair {
                Pair::I8Isize => "SmallInts<i8,isize>",
                Pair::U8Usize => "SmallInts<u8,usize>",
                Pair::I8I64 => "SmallInts<i8,i64>",
                Pair::U16U64 => "SmallInts<u16,u64>",
            });
        }
        r
    }

    fn value(p: Pair) -> BoxedStrategy<V> {
        let (smin, smax, bmin, bmax) = limits(p);
        let signed = bmin < 0;
        let clamp = move |v: i128| V(v.clamp(bmin, bmax));
        let small = (0u16..=u16::MAX).prop_map(move |f| {
            // uniformly over the small range [smin, smax-1]
            let span = (smax - smin) as u64; // number of small values
            V(smin + ((f as u64 * span) >> 16) as i128)
        });
        let edge = prop_oneof![
            Just(V(smax - 2)),
            Just(V(smax - 1)),
            Just(V(smax)),
            Just(V(smax)),
            Just(V(smax + 1)),
            Just(V(smax + 2)),
            Just(V(0)),
            Just(V(1)),
        ];
        let neg = if signed {
            prop_oneof![Just(V(-1)), Just(V(-2)), Just(V(smin)), Just(V(smin + 1)), Just(V(smin - 1)), Just(V(smin - 2)), Just(V(-1000))].boxed()
        } else {
            prop_oneof![Just(V(0)), Just(V(1)), Just(V(2))].boxed()
        };
        let huge = if signed {
            prop_oneof![Just(V(bmax)), Just(V(bmin)), Just(V(bmax - 1)), Just(V(bmin + 1)), Just(V(1 << 40)), Just(V(-(1 << 40)))].boxed()
        } else {
            prop_oneof![Just(V(bmax)), Just(V(bmax - 1)), Just(V(1 << 40)), Just(V(1 << 63))].boxed()
        };
        let anyv = any::<i64>().prop_map(move |x| clamp(x as i128));
        prop_oneof![4 => small, 4 => edge, 2 => neg, 2 => huge, 1 => anyv].boxed()
    }

    fn small_value(p: Pair) -> BoxedStrategy<V> {
        let (smin, smax, _, _) = limits(p);
        prop_oneof![
            3 => (0u16..=u16::MAX).prop_map(move |f| V(smin + ((f as u64 * (smax - smin) as u64) >> 16) as i128)),
            1 => Just(V(smax - 1)),
            1 => Just(V(smin)),
            1 => Just(V(0)),
        ]
        .boxed()
    }

    fn op(p: Pair) -> BoxedStrategy<Op> {
        prop_oneof![
            8 => value(p).prop_map(Op::Push),
            8 => (any::<u16>(), value(p)).prop_map(|(f, v)| Op::Set(f, v)),
            2 => prop_oneof![4 => 0u64..60, 1 => any::<u64>()].prop_map(Op::Get),
            1 => Just(Op::Iter),
            1 => Just(Op::Decompress),
            1 => (small_value(p), 0u8..=12).prop_map(|(v, n)| Op::FromElem(v, n)),
            1 => prop_oneof![Just(Op::New), (0u8..=40).prop_map(Op::WithCapacity)],
        ]
        .boxed()
    }

    pub fn strat(_t: Tier) -> BoxedStrategy<Case> {
        prop_oneof![Just(Pair::I8Isize), Just(Pair::U8Usize), Just(Pair::I8I64), Just(Pair::U16U64)]
            .prop_flat_map(|p| {
                let first = prop_oneof![
                    2 => Just(Op::New),
                    2 => (small_value(p), 0u8..=12).prop_map(|(v, n)| Op::FromElem(v, n)),
                    1 => (0u8..=40).prop_map(Op::WithCapacity),
                ];
                (Just(p), first, proptest::collection::vec(op(p), 0..40))
            })
            .prop_map(|(pair, first, mut ops)| {
                ops.insert(0, first);
                Case { pair, ops }
            })
            .boxed()
    }
}

// ===========================================================================
// Fenwick trees

pub mod fenwick {
    use super::*;
    use crate::engine::gen::idx;
    use bio::data_structures::bit_tree::{MaxBitTree, SumBitTree};

    #[derive(Serialize, Deserialize, Debug, Clone, Copy, PartialEq, Eq)]
    pub enum Kind {
        /// SumBitTree<i64>
        Sum,
        /// MaxBitTree<(u32,u32)>
        Max,
    }

    #[derive(Serialize, Deserialize, Debug, Clone, PartialEq)]
    pub enum Op {
        /// set(idx(frac, len-1), value): sum tree adds `a`; max tree offers (a as u32, b)
        Set(u16, i32, u32),
        /// get(idx(frac, len-1)) (every index is compared after every op anyway)
        Get(u16),
    }

    #[derive(Serialize, Deserialize, Debug, Clone)]
    pub struct Case {
        pub kind: Kind,
        pub len: u8,
        pub ops: Vec<Op>,
    }

    pub fn check(c: &Case) -> R {
        let n = c.len as usize;
        ensure!(n <= 64, "harness: length {} > 64", n);
        let mut pass = Pass::new(false);
        pass.add_if(n == 0, "length 0 (construction only)");
        pass.add_if(n == 1, "length 1");
        pass.add_if(n == 64, "length 64");
        pass.add_if(n.is_power_of_two(), "length a power of two");
        pass.add_if(n > 1 && (n + 1).is_power_of_two(), "length 2^j - 1");
        pass.add(match c.kind {
            Kind::Sum => "sum tree",
            Kind::Max => "max tree",
        });
        let mut updates = 0usize;
        let mut last_idx_updated = false;
        match c.kind {
            Kind::Sum => {
                let mut t: SumBitTree<i64> = SumBitTree::new(n);
                let mut model = vec![0i64; n];
                for (k, op) in c.ops.iter().enumerate() {
                    if n == 0 {
                        break;
                    }
                    match *op {
                        Op::Set(f, a, _) => {
                            let i = idx(f, n - 1);
                            t.set(i, a as i64);
                            model[i] += a as i64;
                            updates += 1;
                            last_idx_updated |= i == n - 1;
                            pass.add_if(a < 0, "negative update");
                        }
                        Op::Get(f) => {
                            let i = idx(f, n - 1);
                            let want: i64 = model[..=i].iter().sum();
                            let got = t.get(i);
                            ensure!(got == want, "sum tree of length {} op #{} get({}) = {}, prefix sum of the updates = {} (point totals {:?})", n, k + 1, i, got, want, model);
                        }
                    }
                    let mut acc = 0i64;
                    for i in 0..n {
                        acc += model[i];
                        let got = t.get(i);
                        ensure!(got == acc, "sum tree of length {} after op #{} {:?}: get({}) = {}, prefix sum of the updates = {} (point totals {:?})", n, k + 1, op, i, got, acc, model);
                    }
                }
            }
            Kind::Max => {
                let mut t: MaxBitTree<(u32, u32)> = MaxBitTree::new(n);
                let mut model = vec![(0u32, 0u32); n];
                for (k, op) in c.ops.iter().enumerate() {
                    if n == 0 {
                        break;
                    }
                    match *op {
                        Op::Set(f, a, b) => {
                            let i = idx(f, n - 1);
                            let v = (a.unsigned_abs(), b);
                            t.set(i, v);
                            pass.add_if(v < model[i], "max tree: smaller value offered at an index");
                            pass.add_if(v.0 == model[i].0 && v.1 != model[i].1 && updates > 0, "max tree: tie on the first component");
                            model[i] = model[i].max(v);
                            updates += 1;
                            last_idx_updated |= i == n - 1;
                        }
                        Op::Get(f) => {
                            let i = idx(f, n - 1);
                            let want = model[..=i].iter().copied().max().unwrap();
                            let got = t.get(i);
                            ensure!(got == want, "max tree of length {} op #{} get({}) = {:?}, prefix maximum of the updates = {:?} (point maxima {:?})", n, k + 1, i, got, want, model);
                        }
                    }
                    let mut acc = (0u32, 0u32);
                    for i in 0..n {
                        acc = acc.max(model[i]);
                        let got = t.get(i);
                        ensure!(got == acc, "max tree of length {} after op #{} {:?}: get({}) = {:?}, prefix maximum of the updates = {:?} (point maxima {:?})", n, k + 1, op, i, got, acc, model);
                    }
                }
            }
        }
        pass.add_if(last_idx_updated, "update at the last index");
        pass.add_if(updates >= 10, ">= 10 updates");
        pass.nontrivial = n >= 3 && updates >= 3;
        Ok(pass)
    }

    pub fn strat(_t: Tier) -> BoxedStrategy<Case> {
        let len = prop_oneof![
            6 => 1u8..=64,
            1 => Just(1u8),
            1 => Just(2u8),
            1 => Just(64u8),
            1 => prop_oneof![Just(3u8), Just(4), Just(7), Just(8), Just(15), Just(16), Just(31), Just(32), Just(33), Just(63)],
            1 => Just(0u8),
        ];
        let frac = prop_oneof![6 => any::<u16>(), 1 => Just(0u16), 1 => Just(u16::MAX)];
        let op = prop_oneof![
            3 => (frac.clone(), prop_oneof![4 => -9i32..=9, 1 => -1000i32..=1000], prop_oneof![4 => 0u32..=5, 1 => any::<u32>()]).prop_map(|(f, a, b)| Op::Set(f, a, b)),
            1 => frac.prop_map(Op::Get),
        ];
        (prop_oneof![Just(Kind::Sum), Just(Kind::Max)], len, proptest::collection::vec(op, 0..40))
            .prop_map(|(kind, len, ops)| Case { kind, len, ops })
            .boxed()
    }
}

// ===========================================================================
// Large-scale sub-checks (`C18/large-*`): every size parameter (container length, push_values count,
// number of diverted big values, Fenwick length) is pushed across the ladder 255/256/257 ... 2^20+1.
// Cases hold generator parameters and a seed; the data is expanded deterministically with splitmix64.

pub mod large {
    use super::*;
    use crate::oracles::scale::c071718::{is_ladder, lab, ladder_upto, pow2_triples, sample_positions, watched, Rng, LADDER};

    /// n for the random companions of the ladder sub-checks: moderate sizes, ladder neighbourhoods, log-uniform
    pub fn random_n(max: u32) -> BoxedStrategy<u32> {
        let near: Vec<u32> = ladder_upto(max as u64 - 3).into_iter().map(|v| v as u32).collect();
        let small: Vec<u32> = near.iter().copied().filter(|&v| v <= 70_001).collect();
        prop_oneof![
            5 => 200u32..=20_000,
            4 => (proptest::sample::select(small), -3i32..=3).prop_map(|(v, d)| (v as i64 + d as i64) as u32),
            1 => (proptest::sample::select(near), -3i32..=3).prop_map(|(v, d)| (v as i64 + d as i64) as u32),
            1 => (8u32..=19, any::<u16>()).prop_map(move |(k, f)| ((1u32 << k) + (((f as u64) << k) >> 16) as u32).min(max)),
        ]
        .boxed()
    }

    fn size_classes(pass: &mut Pass, what: &str, n: u64) {
        if is_ladder(n) {
            pass.add(lab(what, n));
        }
        pass.add_if(n > 255, "size > 255");
        pass.add_if(n > 16_384, "size > 16384");
        pass.add_if(n > 32_768, "size > 32768");
        pass.add_if(n > 65_536, "size > 65536");
        pass.add_if(n > 131_073, "size > 131073");
        pass.add_if(n >= 1 << 20, "size >= 2^20");
    }

    // -----------------------------------------------------------------------
    pub mod bitenc {
        use super::*;
        use bio::data_structures::bitenc::BitEnc;

        #[derive(Serialize, Deserialize, Debug, Clone, Copy, PartialEq, Eq)]
        pub enum Mode {
            /// n single pushes
            Push,
            /// `fill` pushes, then one push_values(n - fill, v)
            PushValuesOnce,
            /// push_values in chunks (chunk sizes: small, around the block capacity, ladder values) with changing values
            PushValuesChunks,
            /// pushes and short push_values interleaved
            Mixed,
        }

        #[derive(Serialize, Deserialize, Debug, Clone, Copy, PartialEq, Eq)]
        pub enum Vals {
            Random,
            /// 0xff (wider than every field below 8 bits)
            AllOnes,
            /// i mod 256
            Counter,
            Zero,
        }

        #[derive(Serialize, Deserialize, Debug, Clone)]
        pub struct Case {
            pub width: u8,
            /// final number of symbols (mode PushValuesOnce: the count handed to push_values, after 0..=32/width pushes)
            pub n: u32,
            pub mode: Mode,
            pub vals: Vals,
            /// construct with BitEnc::with_capacity(width, n) instead of BitEnc::new(width)
            pub with_capacity: bool,
            pub seed: u64,
        }

        #[allow(deprecated)]
        fn compare_full(be: &BitEnc, model: &[u8], w: usize, stage: &str, c: &Case) -> Result<(), Stop> {
            let per_block = 32 / w;
            let n = model.len();
            ensure!(be.nr_symbols() == n && be.len() == n, "{}: nr_symbols()={} len()={}, model length {}; {:?}", stage, be.nr_symbols(), be.len(), n, c);
            ensure!(be.is_empty() == (n == 0), "{}: is_empty()={} but model length {}; {:?}", stage, be.is_empty(), n, c);
            let blocks = (n + per_block - 1) / per_block;
            ensure!(be.nr_blocks() == blocks, "{}: nr_blocks()={} but {} symbols at {} per block need {}; {:?}", stage, be.nr_blocks(), n, per_block, blocks, c);
            for (i, &m) in model.iter().enumerate() {
                let g = be.get(i);
                ensure!(g == Some(m), "{}: get({}) = {:?}, model has {} (length {}); {:?}", stage, i, g, m, n, c);
            }
            for beyond in [n, n + 1, n + per_block, n + 65_536, usize::MAX / 16] {
                let g = be.get(beyond);
                ensure!(g.is_none(), "{}: get({}) = {:?} although the length is {}; {:?}", stage, beyond, g, n, c);
            }
            let mut cnt = 0usize;
            for (i, v) in be.iter().take(n + 2).enumerate() {
                ensure!(i < n, "{}: iter() yields more than the {} stored symbols; {:?}", stage, n, c);
                ensure!(v == model[i], "{}: iter() item {} = {}, model has {} (length {}); {:?}", stage, i, v, model[i], n, c);
                cnt += 1;
            }
            ensure!(cnt == n, "{}: iter() yields {} items, expected {}; {:?}", stage, cnt, n, c);
            Ok(())
        }

        pub fn check(c: &Case) -> R {
            watched(serde_json::to_string(c).unwrap_or_default(), || check_inner(c))
        }

        fn check_inner(c: &Case) -> R {
            let w = c.width as usize;
            ensure!((1..=8).contains(&w), "harness: width {} outside 1..=8", w);
            let n = c.n as usize;
            ensure!(n >= 1 && n <= (1 << 21), "harness: n {} outside 1..=2^21", n);
            let mask: u8 = ((1u16 << w) - 1) as u8;
            let per_block = 32 / w;
            let mut rng = Rng::new(c.seed);
            let mut pass = Pass::new(true);
            let mut be = if c.with_capacity { BitEnc::with_capacity(w, n) } else { BitEnc::new(w) };
            compare_full(&be, &[], w, "fresh container", c)?;
            let mut model: Vec<u8> = Vec::with_capacity(n + 64);
            let val = |i: usize, rng: &mut Rng| -> u8 {
                match c.vals {
                    Vals::Random => rng.next() as u8,
                    Vals::AllOnes => 0xff,
                    Vals::Counter => i as u8,
                    Vals::Zero => 0,
                }
            };
            let mut largest_pv = 0usize;
            match c.mode {
                Mode::Push => {
                    for i in 0..n {
                        let v = val(i, &mut rng);
                        be.push(v);
                        model.push(v & mask);
                    }
                }
                Mode::PushValuesOnce => {
                    // here `n` is the push_values count; the container holds `fill` symbols before
                    let fill = rng.below(per_block as u64 + 1) as usize;
                    for i in 0..fill {
                        let v = val(i, &mut rng);
                        be.push(v);
                        model.push(v & mask);
                    }
                    let v = val(fill, &mut rng) | 1;
                    be.push_values(n, v);
                    model.resize(fill + n, v & mask);
                    largest_pv = n;
                    pass.add_if(fill > 0, "push_values: one call from a partially filled block");
                    pass.add_if(fill == 0, "push_values: one call into an empty container");
                }
                Mode::PushValuesChunks => {
                    let ladder = ladder_upto(n as u64);
                    let mut k = 0usize;
                    while model.len() < n {
                        let left = n - model.len();
                        let want = match k % 4 {
                            0 => 1 + rng.below(2 * per_block as u64 + 2) as usize,
                            1 if !ladder.is_empty() => ladder[rng.below(ladder.len() as u64) as usize] as usize,
                            2 => per_block * (1 + rng.below(40) as usize) + rng.below(3) as usize,
                            _ => 1 + rng.below(5000) as usize,
                        };
                        let m = want.min(left);
                        let v = val(k, &mut rng);
                        be.push_values(m, v);
                        let l = model.len();
                        model.resize(l + m, v & mask);
                        largest_pv = largest_pv.max(m);
                        k += 1;
                    }
                }
                Mode::Mixed => {
                    let mut k = 0usize;
                    while model.len() < n {
                        let left = n - model.len();
                        let v = val(k, &mut rng);
                        if rng.chance(2, 3) {
                            be.push(v);
                            model.push(v & mask);
                        } else {
                            let m = (rng.below(3 * per_block as u64 + 1) as usize).min(left);
                            be.push_values(m, v);
                            let l = model.len();
                            model.resize(l + m, v & mask);
                            largest_pv = largest_pv.max(m);
                        }
                        k += 1;
                    }
                }
            }
            compare_full(&be, &model, w, "after construction", c)?;

            // set at sampled positions (around every ladder value, first/last, block boundaries)
            let blocks_at: Vec<u64> = [8192u64, 16384, 65536].iter().map(|b| b / w as u64).collect();
            let n = model.len();
            let pos = sample_positions(n as u64, &blocks_at, &mut rng, 200);
            for &p in &pos {
                let v = rng.next() as u8;
                be.set(p as usize, v);
                model[p as usize] = v & mask;
            }
            // neighbours of the written slots must be untouched: full comparison
            compare_full(&be, &model, w, "after set at sampled positions", c)?;

            // history that reuses the container: clear, then a different length
            be.clear();
            model.clear();
            compare_full(&be, &model, w, "after clear", c)?;
            let n2 = 1 + rng.below(3 * per_block as u64 + 70) as usize;
            let v = rng.next() as u8;
            be.push_values(n2, v);
            model.resize(n2, v & mask);
            let v = rng.next() as u8;
            be.push(v);
            model.push(v & mask);
            compare_full(&be, &model, w, "after clear and refill", c)?;

            if c.mode != Mode::PushValuesOnce {
                size_classes(&mut pass, "bitenc n", n as u64);
            }
            if is_ladder(largest_pv as u64) {
                pass.add(lab("bitenc push_values count", largest_pv as u64));
            }
            pass.add_if(largest_pv > 65_536, "push_values count > 65536");
            let wl = ["", "width 1", "width 2", "width 3", "width 4", "width 5", "width 6", "width 7", "width 8"][w];
            pass.add(wl);
            if n > 65_536 {
                pass.add(["", "width 1, n > 65536", "width 2, n > 65536", "width 3, n > 65536", "width 4, n > 65536", "width 5, n > 65536", "width 6, n > 65536", "width 7, n > 65536", "width 8, n > 65536"][w]);
            }
            if n >= 1 << 20 {
                pass.add(["", "width 1, n >= 2^20", "width 2, n >= 2^20", "width 3, n >= 2^20", "width 4, n >= 2^20", "width 5, n >= 2^20", "width 6, n >= 2^20", "width 7, n >= 2^20", "width 8, n >= 2^20"][w]);
            }
            pass.add(match c.mode {
                Mode::Push => "mode push",
                Mode::PushValuesOnce => "mode push_values once",
                Mode::PushValuesChunks => "mode push_values chunks",
                Mode::Mixed => "mode mixed",
            });
            pass.add_if(c.with_capacity, "BitEnc::with_capacity");
            pass.add_if(c.with_capacity && n > 65_536, "BitEnc::with_capacity, n > 65536");
            pass.add_if(n * w > 65_536, "more than 65536 payload bits");
            Ok(pass)
        }

        pub fn enumerate(t: Tier) -> Box<dyn Iterator<Item = Case>> {
            let mut v = Vec::new();
            let reps: u64 = if t == Tier::Quick { 1 } else { 6 };
            let mut k = 0u64;
            for rep in 0..reps {
                for &n in LADDER.iter() {
                    for width in 1u8..=8 {
                        let modes: &[Mode] = if n <= 131_073 || t == Tier::Thorough {
                            &[Mode::Push, Mode::PushValuesOnce, Mode::PushValuesChunks, Mode::Mixed]
                        } else {
                            &[Mode::Push, Mode::PushValuesOnce]
                        };
                        for &mode in modes {
                            k += 1;
                            let vals = [Vals::Random, Vals::AllOnes, Vals::Counter, Vals::Random, Vals::Zero][((k + rep) % 5) as usize];
                            v.push(Case { width, n: n as u32, mode, vals, with_capacity: (k + rep) % 3 == 0, seed: 0xb17e + k * 7919 + rep * 104_729 });
                        }
                    }
                }
            }
            Box::new(v.into_iter())
        }

        pub fn strat(_t: Tier) -> BoxedStrategy<Case> {
            (
                1u8..=8,
                random_n(1 << 20),
                prop_oneof![Just(Mode::Push), Just(Mode::PushValuesOnce), Just(Mode::PushValuesChunks), Just(Mode::Mixed)],
                prop_oneof![3 => Just(Vals::Random), 1 => Just(Vals::AllOnes), 1 => Just(Vals::Counter), 1 => Just(Vals::Zero)],
                any::<bool>(),
                any::<u64>(),
            )
                .prop_map(|(width, n, mode, vals, with_capacity, seed)| Case { width, n, mode, vals, with_capacity, seed })
                .boxed()
        }
    }

    // -----------------------------------------------------------------------
    pub mod smallints {
        use super::*;
        use crate::props::c18::smallints::{limits, Pair};
        use bio::data_structures::smallints::SmallInts;

        #[derive(Serialize, Deserialize, Debug, Clone, Copy, PartialEq, Eq)]
        pub enum Pat {
            /// every value is diverted (>= the small maximum): more than 65536 entries in the ordered map
            AllBig,
            /// every value equals the small maximum exactly
            AllMax,
            /// big, small, big, small ...
            Alternating,
            /// one big value in a hundred
            Sparse,
            /// big values only at the ladder positions (+-1), first and last
            BigAtLadder,
            /// values below the small minimum (signed pairs; falls back to AllBig for unsigned ones)
            BelowMin,
            AllSmall,
        }

        #[derive(Serialize, Deserialize, Debug, Clone, Copy, PartialEq, Eq)]
        pub enum Ctor {
            New,
            /// SmallInts::with_capacity(n)
            WithCapacity,
            /// SmallInts::from_elem(small value, n), then set(i, value) for every i
            FromElemThenSet,
        }

        #[derive(Serialize, Deserialize, Debug, Clone)]
        pub struct Case {
            pub pair: Pair,
            pub n: u32,
            pub pat: Pat,
            pub ctor: Ctor,
            pub seed: u64,
        }

        /// value at index i as i128 (inside the big type's range by construction)
        fn value(c: &Case, i: usize, r: u64, ladder_pos: &[u64]) -> i128 {
            let (smin, smax, bmin, bmax) = limits(c.pair);
            let span = smax - smin; // number of small values
            let small = smin + (r % span as u64) as i128;
            let big = match r % 5 {
                0 => smax,
                1 => smax + 1 + (i as i128 % 1000),
                2 => bmax - (i as i128),
                3 => smax + (r as i128 & 0xffff_ffff),
                _ => {
                    if bmin < 0 {
                        smin - 1 - (i as i128 % 1000)
                    } else {
                        smax + 2
                    }
                }
            };
            let big = big.clamp(bmin, bmax);
            match c.pat {
                Pat::AllBig => big,
                Pat::AllMax => smax,
                Pat::Alternating => {
                    if i % 2 == 0 {
                        big
                    } else {
                        small
                    }
                }
                Pat::Sparse => {
                    if r % 100 == 7 {
                        big
                    } else {
                        small
                    }
                }
                Pat::BigAtLadder => {
                    if ladder_pos.binary_search(&(i as u64)).is_ok() {
                        big
                    } else {
                        small
                    }
                }
                Pat::BelowMin => {
                    if bmin < 0 {
                        (smin - 1 - (i as i128)).max(bmin)
                    } else {
                        big
                    }
                }
                Pat::AllSmall => small,
            }
        }

        macro_rules! run_large {
            ($S:ty, $B:ty, $case:expr) => {{
                let c: &Case = $case;
                let n = c.n as usize;
                let (smin, smax, _bmin, _bmax) = limits(c.pair);
                let mut rng = Rng::new(c.seed);
                let ladder_pos = sample_positions(n as u64, &[], &mut Rng::new(1), 0);
                let mut model: Vec<$B> = Vec::with_capacity(n);
                for i in 0..n {
                    let r = rng.next();
                    model.push(value(c, i, r, &ladder_pos) as $B);
                }
                let is_big = |v: $B| (v as i128) >= smax || (v as i128) < smin;
                let mut si: SmallInts<$S, $B> = match c.ctor {
                    Ctor::New => SmallInts::new(),
                    Ctor::WithCapacity => SmallInts::with_capacity(n),
                    Ctor::FromElemThenSet => SmallInts::from_elem((smax - 1) as $S, n),
                };
                match c.ctor {
                    Ctor::New | Ctor::WithCapacity => {
                        ensure!(si.len() == 0 && si.is_empty() && si.get(0).is_none(), "{:?}: fresh container is not empty (len {})", c, si.len());
                        for &v in &model {
                            si.push(v);
                        }
                    }
                    Ctor::FromElemThenSet => {
                        ensure!(si.len() == n, "{:?}: from_elem(_, {}) has length {}", c, n, si.len());
                        for i in sample_positions(n as u64, &[], &mut Rng::new(2), 50) {
                            let g = si.get(i as usize);
                            ensure!(g == Some((smax - 1) as $B), "{:?}: from_elem({}, {}).get({}) = {:?}", c, smax - 1, n, i, g);
                        }
                        for (i, &v) in model.iter().enumerate() {
                            si.set(i, v);
                        }
                    }
                }
                let full = |si: &SmallInts<$S, $B>, model: &[$B], stage: &str| -> Result<(), Stop> {
                    let n = model.len();
                    ensure!(si.len() == n && si.is_empty() == (n == 0), "{:?} {}: len()={} is_empty()={}, model length {}", c, stage, si.len(), si.is_empty(), n);
                    for (i, &m) in model.iter().enumerate() {
                        let g = si.get(i);
                        ensure!(g == Some(m), "{:?} {}: get({}) = {:?}, model has {}", c, stage, i, g, m);
                    }
                    for beyond in [n, n + 1, n + 65_536, usize::MAX] {
                        let g = si.get(beyond);
                        ensure!(g.is_none(), "{:?} {}: get({}) = {:?} although the length is {}", c, stage, beyond, g, n);
                    }
                    let mut cnt = 0usize;
                    for (i, v) in si.iter().take(n + 2).enumerate() {
                        ensure!(i < n, "{:?} {}: iter() yields more than {} items", c, stage, n);
                        ensure!(v == model[i], "{:?} {}: iter() item {} = {}, model has {}", c, stage, i, v, model[i]);
                        cnt += 1;
                    }
                    ensure!(cnt == n, "{:?} {}: iter() yields {} items, expected {}", c, stage, cnt, n);
                    let de: Vec<$B> = si.decompress();
                    ensure!(de.len() == n, "{:?} {}: decompress() has {} items, expected {}", c, stage, de.len(), n);
                    if let Some(i) = (0..n).find(|&i| de[i] != model[i]) {
                        return Err(Stop::Fail(format!("{:?} {}: decompress()[{}] = {}, model has {}", c, stage, i, de[i], model[i])));
                    }
                    Ok(())
                };
                full(&si, &model, "after construction")?;
                let nbig = model.iter().filter(|&&v| is_big(v)).count();

                // flip big <-> small at sampled positions
                let pos = sample_positions(n as u64, &[], &mut rng, 300);
                let (mut b2s, mut s2b) = (0usize, 0usize);
                for &p in &pos {
                    let p = p as usize;
                    let r = rng.next();
                    let was_big = is_big(model[p]);
                    let new: i128 = if was_big && r % 4 != 0 { smin + (r % (smax - smin) as u64) as i128 } else { smax + (r % 3) as i128 };
                    let new = new as $B;
                    si.set(p, new);
                    model[p] = new;
                    if was_big && !is_big(new) {
                        b2s += 1;
                    }
                    if !was_big && is_big(new) {
                        s2b += 1;
                    }
                }
                full(&si, &model, "after set at sampled positions")?;
                // pushes after the sets (indices continue beyond the old length)
                for k in 0..5usize {
                    let v = (if k % 2 == 0 { smax + k as i128 } else { smin }) as $B;
                    si.push(v);
                    model.push(v);
                }
                full(&si, &model, "after five more pushes")?;

                let mut pass = Pass::new(true);
                size_classes(&mut pass, "smallints n", n as u64);
                if is_ladder(nbig as u64) {
                    pass.add(lab("smallints big values", nbig as u64));
                }
                pass.add_if(nbig > 255, "big values > 255");
                pass.add_if(nbig > 65_536, "big values > 65536");
                pass.add_if(nbig >= 1 << 19, "big values >= 2^19");
                pass.add_if(b2s > 0, "set big -> small");
                pass.add_if(s2b > 0, "set small -> big");
                Ok(pass)
            }};
        }

        pub fn check(c: &Case) -> R {
            watched(serde_json::to_string(c).unwrap_or_default(), || check_inner(c))
        }

        fn check_inner(c: &Case) -> R {
            ensure!(c.n >= 1 && c.n <= (1 << 21), "harness: n {} outside 1..=2^21", c.n);
            let mut r: R = match c.pair {
                Pair::I8Isize => run_large!(i8, isize, c),
                Pair::U8Usize => run_large!(u8, usize, c),
                Pair::I8I64 => run_large!(i8, i64, c),
                Pair::U16U64 => run_large!(u16, u64, c),
            };
            if let Ok(p) = &mut r {
                p.add(match c.pair {
                    Pair::I8Isize => "SmallInts<i8,isize>",
                    Pair::U8Usize => "SmallInts<u8,usize>",
                    Pair::I8I64 => "SmallInts<i8,i64>",
                    Pair::U16U64 => "SmallInts<u16,u64>",
                });
                p.add(match c.pat {
                    Pat::AllBig => "pattern all big",
                    Pat::AllMax => "pattern all equal to the small maximum",
                    Pat::Alternating => "pattern alternating",
                    Pat::Sparse => "pattern sparse",
                    Pat::BigAtLadder => "pattern big at ladder positions",
                    Pat::BelowMin => "pattern below the small minimum",
                    Pat::AllSmall => "pattern all small",
                });
                p.add(match c.ctor {
                    Ctor::New => "ctor new",
                    Ctor::WithCapacity => "ctor with_capacity(n)",
                    Ctor::FromElemThenSet => "ctor from_elem(n) then set everywhere",
                });
                p.add_if(c.ctor == Ctor::WithCapacity && c.n > 65_536, "with_capacity(n), n > 65536");
                p.add_if(c.ctor == Ctor::FromElemThenSet && c.n > 65_536, "from_elem(n), n > 65536");
            }
            r
        }

        const PAIRS: [Pair; 4] = [Pair::I8Isize, Pair::U8Usize, Pair::I8I64, Pair::U16U64];
        const PATS: [Pat; 7] = [Pat::AllBig, Pat::Alternating, Pat::AllMax, Pat::Sparse, Pat::BigAtLadder, Pat::BelowMin, Pat::AllSmall];
        const CTORS: [Ctor; 3] = [Ctor::New, Ctor::WithCapacity, Ctor::FromElemThenSet];

        pub fn enumerate(t: Tier) -> Box<dyn Iterator<Item = Case>> {
            let mut v = Vec::new();
            let mut k = 0usize;
            let mut rot = 0usize;
            let reps = if t == Tier::Quick { 1 } else { 5 };
            for rep in 0..reps {
                for &n in LADDER.iter() {
                    // every n with the all-big pattern (number of diverted values = n); the other patterns rotate
                    let npat = if t == Tier::Thorough {
                        7
                    } else if n <= 70_001 {
                        3
                    } else if n <= 131_073 {
                        2
                    } else {
                        1
                    };
                    for j in 0..npat {
                        k += 1;
                        let pat = if j == 0 {
                            Pat::AllBig
                        } else if t == Tier::Thorough {
                            PATS[j]
                        } else {
                            rot += 1;
                            PATS[1 + rot % 6]
                        };
                        v.push(Case { pair: PAIRS[(k + rep) % 4], n: n as u32, pat, ctor: CTORS[(k / 2 + rep) % 3], seed: 0x51a1 + k as u64 * 6151 + rep as u64 * 15_485_863 });
                    }
                }
            }
            Box::new(v.into_iter())
        }

        pub fn strat(_t: Tier) -> BoxedStrategy<Case> {
            (proptest::sample::select(PAIRS.to_vec()), random_n(1 << 19), proptest::sample::select(PATS.to_vec()), proptest::sample::select(CTORS.to_vec()), any::<u64>())
                .prop_map(|(pair, n, pat, ctor, seed)| Case { pair, n, pat, ctor, seed })
                .boxed()
        }
    }

    // -----------------------------------------------------------------------
    pub mod fenwick {
        use super::*;
        use crate::props::c18::fenwick::Kind;
        use bio::data_structures::bit_tree::{MaxBitTree, SumBitTree};

        #[derive(Serialize, Deserialize, Debug, Clone, Copy, PartialEq, Eq)]
        pub enum Pat {
            /// one update at every index, ascending
            EveryAsc,
            /// one update at every index, descending
            EveryDesc,
            /// updates at first/last, around every ladder value and every power of two, and a few hundred random indices
            Sampled,
            /// n/2 updates at random indices (repeats)
            Random,
        }

        #[derive(Serialize, Deserialize, Debug, Clone)]
        pub struct Case {
            pub kind: Kind,
            /// tree length
            pub n: u32,
            pub pat: Pat,
            pub seed: u64,
        }

        fn update_indices(c: &Case, rng: &mut Rng, round: u32) -> Vec<usize> {
            let n = c.n as usize;
            let pows: Vec<u64> = (1..=21).map(|k| 1u64 << k).collect();
            match (c.pat, round) {
                (Pat::EveryAsc, 0) => (0..n).collect(),
                (Pat::EveryDesc, 0) => (0..n).rev().collect(),
                (Pat::Random, 0) => (0..(n / 2).max(1)).map(|_| rng.below(n as u64) as usize).collect(),
                _ => {
                    let mut v: Vec<usize> = sample_positions(n as u64, &pows, rng, 300).into_iter().map(|x| x as usize).collect();
                    rng.shuffle(&mut v);
                    v
                }
            }
        }

        pub fn check(c: &Case) -> R {
            watched(serde_json::to_string(c).unwrap_or_default(), || check_inner(c))
        }

        fn check_inner(c: &Case) -> R {
            let n = c.n as usize;
            ensure!(n >= 1 && n <= (1 << 21), "harness: length {} outside 1..=2^21", n);
            let mut rng = Rng::new(c.seed);
            let mut pass = Pass::new(true);
            let mut updates = 0usize;
            match c.kind {
                Kind::Sum => {
                    let mut t: SumBitTree<i64> = SumBitTree::new(n);
                    let mut model = vec![0i64; n];
                    for round in 0..2u32 {
                        for i in update_indices(c, &mut rng, round) {
                            // |value| < 2^40, fewer than 2^21 updates: every prefix sum stays inside i64
                            let a = (rng.below(1 << 41) as i64) - (1 << 40);
                            t.set(i, a);
                            model[i] += a;
                            updates += 1;
                        }
                        let mut acc = 0i64;
                        for i in 0..n {
                            acc += model[i];
                            let got = t.get(i);
                            ensure!(got == acc, "{:?}: after round {} ({} updates) sum tree get({}) = {}, prefix sum of the updates = {}", c, round, updates, i, got, acc);
                        }
                    }
                }
                Kind::Max => {
                    let mut t: MaxBitTree<(u32, u32)> = MaxBitTree::new(n);
                    let mut model = vec![(0u32, 0u32); n];
                    for round in 0..2u32 {
                        for i in update_indices(c, &mut rng, round) {
                            let r = rng.next();
                            // increasing with the index (plus jitter and rare local spikes) so that the prefix maximum
                            // keeps changing along the whole tree; odd seeds work just below u32::MAX
                            let base: u32 = if c.seed % 2 == 1 { u32::MAX - (n as u32 / 3) - 20_000 } else { 0 };
                            let spike: u32 = if r % 64 == 0 { 10_000 } else { 0 };
                            let a = base + (i as u32 / 3) + ((r >> 8) as u32 % 7) + spike;
                            let v = (a, r as u32 >> 4);
                            t.set(i, v);
                            model[i] = model[i].max(v);
                            updates += 1;
                        }
                        let mut acc = (0u32, 0u32);
                        for i in 0..n {
                            acc = acc.max(model[i]);
                            let got = t.get(i);
                            ensure!(got == acc, "{:?}: after round {} ({} updates) max tree get({}) = {:?}, prefix maximum of the updates = {:?}", c, round, updates, i, got, acc);
                        }
                    }
                }
            }
            size_classes(&mut pass, "fenwick length", n as u64);
            let nn = n as u64;
            if nn >= 2 && (nn.is_power_of_two() || (nn + 1).is_power_of_two() || (nn - 1).is_power_of_two()) {
                pass.add(lab("fenwick length (2^k-1, 2^k, 2^k+1)", nn));
            }
            pass.add(match c.kind {
                Kind::Sum => "sum tree",
                Kind::Max => "max tree",
            });
            pass.add(match c.pat {
                Pat::EveryAsc => "updates: every index ascending",
                Pat::EveryDesc => "updates: every index descending",
                Pat::Sampled => "updates: sampled indices",
                Pat::Random => "updates: random indices",
            });
            pass.add_if(updates > 65_536, "more than 65536 updates");
            Ok(pass)
        }

        pub fn lengths() -> Vec<u64> {
            let mut l = pow2_triples(1, 20);
            l.extend(LADDER.iter().copied());
            l.sort_unstable();
            l.dedup();
            l
        }

        const PATS: [Pat; 4] = [Pat::EveryAsc, Pat::Sampled, Pat::EveryDesc, Pat::Random];

        pub fn enumerate(t: Tier) -> Box<dyn Iterator<Item = Case>> {
            let mut v = Vec::new();
            let mut k = 0usize;
            let reps = if t == Tier::Quick { 1 } else { 4 };
            for rep in 0..reps {
                for &n in lengths().iter() {
                    for kind in [Kind::Sum, Kind::Max] {
                        let npat = if t == Tier::Thorough { 4 } else { 2 };
                        for j in 0..npat {
                            k += 1;
                            v.push(Case { kind, n: n as u32, pat: PATS[(k / 2 + j + rep) % 4], seed: 0xfe2 + k as u64 * 4241 + rep as u64 * 32_452_843 });
                        }
                    }
                }
            }
            Box::new(v.into_iter())
        }

        pub fn strat(_t: Tier) -> BoxedStrategy<Case> {
            (prop_oneof![Just(Kind::Sum), Just(Kind::Max)], random_n(1 << 20), proptest::sample::select(PATS.to_vec()), any::<u64>())
                .prop_map(|(kind, n, pat, seed)| Case { kind, n, pat, seed })
                .boxed()
        }
    }

    /// must_reach lists (ladder values are interned labels)
    pub fn must_bitenc() -> &'static [&'static str] {
        use crate::oracles::scale::c071718::{labels, leak_list};
        let mut v = labels("bitenc n", &LADDER);
        v.extend(labels("bitenc push_values count", &LADDER));
        for w in 1..=8 {
            v.push(crate::oracles::scale::c071718::intern(format!("width {}, n > 65536", w)));
            v.push(crate::oracles::scale::c071718::intern(format!("width {}, n >= 2^20", w)));
        }
        v.extend(["mode push", "mode push_values once", "mode push_values chunks", "mode mixed", "BitEnc::with_capacity, n > 65536", "push_values count > 65536", "push_values: one call from a partially filled block"]);
        leak_list(v)
    }
    pub fn must_smallints() -> &'static [&'static str] {
        use crate::oracles::scale::c071718::{labels, leak_list};
        let mut v = labels("smallints n", &LADDER);
        v.extend(labels("smallints big values", &LADDER));
        v.extend([
            "big values > 65536", "big values >= 2^19", "SmallInts<i8,isize>", "SmallInts<u8,usize>", "SmallInts<i8,i64>", "SmallInts<u16,u64>",
            "with_capacity(n), n > 65536", "from_elem(n), n > 65536", "set big -> small", "set small -> big", "pattern alternating", "pattern all equal to the small maximum",
        ]);
        leak_list(v)
    }
    pub fn must_fenwick() -> &'static [&'static str] {
        use crate::oracles::scale::c071718::{labels, leak_list};
        let mut v = labels("fenwick length", &LADDER);
        v.extend(labels("fenwick length (2^k-1, 2^k, 2^k+1)", &pow2_triples(1, 20)[1..]));
        v.extend(["sum tree", "max tree", "updates: every index ascending", "updates: every index descending", "updates: sampled indices", "updates: random indices", "more than 65536 updates"]);
        leak_list(v)
    }
}

pub fn property() -> Property {
    Property {
        id: "C18",
        rule: "histories vec(op, 0..40) interpreted against the real container and a Vec model in lock-step, with a full comparison of everything observable after every operation. BitEnc: width 1..=8, ops push / push_values(n<=70) / set(in range) / get(any index) / iter / clear, values over the full u8 range, compared width-masked; observed nr_symbols, len, is_empty, nr_blocks = ceil(len / (32 div width)), every get, four out-of-range gets, iter. Plus an exhaustive sweep width x fill state x push_values count x value. SmallInts<i8,isize>, <u8,usize>, <i8,i64>, <u16,u64>: new / with_capacity / from_elem / push / set / get / iter / decompress with values drawn around the small maximum, negatives, below the small minimum and the big type's limits. Fenwick: length 0..=64, sum tree over i64 and max tree over (u32,u32), every index compared with the model prefix after every update. Non-trivial = BitEnc: width in {3,5,6,7} and a push_values that crosses a block boundary from a partially filled block; SmallInts: history with a big value, a small value and a set; Fenwick: length >= 3 and >= 3 updates. Distinct = distinct serialised histories. Large-scale sub-checks (large-*): the same observations on containers whose length, push_values count, number of diverted big values resp. Fenwick length is every value of the ladder 255/256/257, 511..513, 1023..1025, 4095..4097, 8191..8193, 16383..16385, 32767..32769, 65535..65537, 70001, 131071..131073, 2^19+-1, 2^20+-1 (Fenwick: also every 2^k-1, 2^k, 2^k+1 up to 2^20+1), for every BitEnc width, every SmallInts pair and both Fenwick operations; the case holds generator parameters and a seed (splitmix64 expansion), the comparison with the Vec model is complete (every index, iter, decompress, block count) after construction, after set at sampled positions (around every ladder value and block boundary) and after clear-and-reuse; constructors BitEnc::with_capacity, SmallInts::with_capacity(n) and from_elem(v, n) at these sizes.",
        assumptions: &[
            "BitEnc::set and SmallInts::set are only called with an index below the current length (a vector refuses others); Fenwick get/set only with an index below the tree length",
            "SmallInts::from_elem is only given a value below the small type's maximum (documented: 'v is expected to be small')",
            "BitEnc width 0 is not a width (the property quantifies over 1..=8)",
        ],
        subs: vec![
            // the enumerated ladders are single long jobs: queued first so that they overlap with everything else
            Box::new(ExhSub { name: "C18/large-bitenc-ladder", enumerate: large::bitenc::enumerate, check: large::bitenc::check, must_reach: large::must_bitenc() }),
            Box::new(ExhSub { name: "C18/large-smallints-ladder", enumerate: large::smallints::enumerate, check: large::smallints::check, must_reach: large::must_smallints() }),
            Box::new(ExhSub { name: "C18/large-fenwick-ladder", enumerate: large::fenwick::enumerate, check: large::fenwick::check, must_reach: large::must_fenwick() }),
            Box::new(PropSub {
                name: "C18/large-bitenc-random",
                quick: 1_920,
                thorough: 38_400,
                shards_quick: 8,
                shards_thorough: 16,
                strat: large::bitenc::strat,
                check: large::bitenc::check,
                must_reach: &["size > 65536", "mode push", "mode push_values once", "mode push_values chunks", "mode mixed", "BitEnc::with_capacity"],
                watch: true,
            }),
            Box::new(PropSub {
                name: "C18/large-smallints-random",
                quick: 240,
                thorough: 4_800,
                shards_quick: 8,
                shards_thorough: 16,
                strat: large::smallints::strat,
                check: large::smallints::check,
                must_reach: &["size > 65536", "big values > 255", "ctor with_capacity(n)", "ctor from_elem(n) then set everywhere"],
                watch: true,
            }),
            Box::new(PropSub {
                name: "C18/large-fenwick-random",
                quick: 640,
                thorough: 12_800,
                shards_quick: 8,
                shards_thorough: 16,
                strat: large::fenwick::strat,
                check: large::fenwick::check,
                must_reach: &["size > 65536", "sum tree", "max tree"],
                watch: true,
            }),
            Box::new(PropSub {
                name: "C18/bitenc",
                quick: 480_000,
                thorough: 4_000_000,
                shards_quick: 16,
                shards_thorough: 16,
                strat: bitenc::strat,
                check: bitenc::check,
                must_reach: &[
                    "width 1", "width 2", "width 3", "width 4", "width 5", "width 6", "width 7", "width 8",
                    "push_values: crosses a block boundary",
                    "push_values: reaches the end of an open block with unused bits",
                    "push_values: wide value into fresh blocks",
                    "value wider than the field",
                    "set after clear",
                    "get out of range",
                ],
                watch: false,
            }),
            Box::new(ExhSub { name: "C18/bitenc-fill-sweep", enumerate: bitenc::enumerate, check: bitenc::check, must_reach: &["push_values: crosses a block boundary"] }),
            Box::new(PropSub {
                name: "C18/smallints",
                quick: 360_000,
                thorough: 3_000_000,
                shards_quick: 16,
                shards_thorough: 16,
                strat: smallints::strat,
                check: smallints::check,
                must_reach: &[
                    "SmallInts<i8,isize>", "SmallInts<u8,usize>", "SmallInts<i8,i64>", "SmallInts<u16,u64>",
                    "value = small max - 1", "value = small max", "value = small max + 1", "negative value", "huge value (big type limit)",
                    "set big -> small", "set small -> big", "from_elem", "get out of range",
                ],
                watch: false,
            }),
            Box::new(PropSub {
                name: "C18/fenwick",
                quick: 360_000,
                thorough: 3_000_000,
                shards_quick: 16,
                shards_thorough: 16,
                strat: fenwick::strat,
                check: fenwick::check,
                must_reach: &["length 1", "length 64", "sum tree", "max tree", "update at the last index"],
                watch: false,
            }),
        ],
    }
}

