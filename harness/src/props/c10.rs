//! C10 — Myers traceback yields valid alignments consistent across all its APIs.

use super::c09::{self, expected_hits, semi_dp, MyersCase};
use crate::engine::gen::idx;
use crate::engine::*;
use crate::{by_width, ensure, fail};
use bio::alignment::{Alignment, AlignmentMode, AlignmentOperation};
use bio::pattern_matching::myers::BitVec;
use proptest::prelude::*;
use serde::{Deserialize, Serialize};

#[derive(Serialize, Deserialize, Debug, Clone)]
pub enum LazyOp {
    /// advance the lazy iterator by one hit
    Next,
    /// query hit_at/path_at/alignment_at at an already searched end (fraction over the admissible ends)
    At(u16),
    /// query at an end position that has not been searched yet (offset beyond the searched prefix)
    Unsearched(u8),
}

#[derive(Serialize, Deserialize, Debug, Clone)]
pub struct Case {
    /// pattern, first text, k (<= 255), width, ambiguity
    pub base: MyersCase,
    /// further (text, k) searched with the same Myers object: eager, lazy, eager, ...
    pub more: Vec<(B, u64)>,
    /// interleaving of iteration and *_at queries used for every lazy search
    pub script: Vec<LazyOp>,
}

#[derive(Debug, Clone, PartialEq, Eq)]
pub struct Hit {
    pub start: usize,
    /// exclusive
    pub end: usize,
    pub dist: u64,
    pub ops: Vec<AlignmentOperation>,
}

fn global_dist(c: &MyersCase, sub: &[u8]) -> u64 {
    let p = &c.pattern;
    let mut prev: Vec<u64> = (0..=sub.len() as u64).collect();
    for i in 1..=p.len() {
        let mut cur = vec![i as u64; sub.len() + 1];
        for j in 1..=sub.len() {
            cur[j] = (prev[j - 1] + if c.eq(p[i - 1], sub[j - 1]) { 0 } else { 1 }).min(prev[j] + 1).min(cur[j - 1] + 1);
        }
        prev = cur;
    }
    prev[sub.len()]
}

/// path consumes exactly the pattern and text[start..end); Match <=> eq, Subst <=> !eq; #non-match == dist
fn validate_path(what: &str, c: &MyersCase, text: &[u8], h: &Hit, dp: &[Vec<u32>]) -> Result<(), Stop> {
    use AlignmentOperation::*;
    let p = &c.pattern;
    let m = p.len();
    let ctx = || format!("{} pattern={:?} text={:?} k={} u{} hit {}..{} d={} ops={:?}", what, lossy(p), lossy(text), c.k, c.width, h.start, h.end, h.dist, h.ops);
    ensure!(h.start <= h.end && h.end <= text.len(), "{}: range out of bounds", ctx());
    let want = dp[h.end][m] as u64;
    ensure!(h.dist == want, "{}: reported distance {} but the minimum edit distance of a substring ending there is {}", ctx(), h.dist, want);
    let gd = global_dist(c, &text[h.start..h.end]);
    ensure!(gd == h.dist, "{}: the substring {:?} has edit distance {} to the pattern, not {}", ctx(), lossy(&text[h.start..h.end]), gd, h.dist);
    let (mut i, mut j) = (0usize, h.start);
    let mut cost = 0u64;
    for (n, op) in h.ops.iter().enumerate() {
        match op {
            Match | Subst => {
                ensure!(i < m && j < h.end, "{}: op #{} {:?} runs past the pattern/substring", ctx(), n, op);
                let e = c.eq(p[i], text[j]);
                ensure!(e == (*op == Match), "{}: op #{} is {:?} but pattern[{}]={:?} text[{}]={:?}", ctx(), n, op, i, p[i] as char, j, text[j] as char);
                if !e {
                    cost += 1;
                }
                i += 1;
                j += 1;
            }
            Ins => {
                ensure!(i < m, "{}: op #{} Ins runs past the pattern", ctx(), n);
                i += 1;
                cost += 1;
            }
            Del => {
                ensure!(j < h.end, "{}: op #{} Del runs past the substring", ctx(), n);
                j += 1;
                cost += 1;
            }
            other => fail!("{}: unexpected operation {:?}", ctx(), other),
        }
    }
    ensure!(i == m && j == h.end, "{}: path consumes pattern[..{}] and text[{}..{}] instead of the whole pattern and text[{}..{}]", ctx(), i, h.start, j, h.start, h.end);
    ensure!(cost == h.dist, "{}: path has {} non-match operations, distance is {}", ctx(), cost, h.dist);
    Ok(())
}

fn check_aln(what: &str, aln: &Alignment, h: &Hit, m: usize, n: usize) -> Result<(), Stop> {
    ensure!(
        aln.xstart == 0 && aln.xend == m && aln.xlen == m && aln.ylen == n && aln.ystart == h.start && aln.yend == h.end && aln.mode == AlignmentMode::Semiglobal && aln.score as i64 == h.dist as i64 && aln.operations == h.ops,
        "{}: Alignment fields inconsistent with hit {:?}: {:?} (pattern length {}, text length {})",
        what,
        h,
        aln,
        m,
        n
    );
    Ok(())
}


/// An `Alignment` as a caller might recycle it: default, filled with unrelated junk, or left over from
/// another alignment of sequences of the *same lengths* (xlen = m, ylen = n but other coordinates/mode).
/// Every field must be (re)written by the Myers API.
fn recycled(m: usize, n: usize, variant: usize) -> Alignment {
    match variant % 3 {
        0 => Alignment::default(),
        1 => Alignment { score: -77, ystart: 91, xstart: 17, yend: 93, xend: 19, ylen: n + 13, xlen: m + 7, operations: vec![AlignmentOperation::Xclip(3), AlignmentOperation::Del], mode: AlignmentMode::Custom },
        _ => Alignment { score: 5, ystart: 1, xstart: m.min(5), yend: n, xend: m.saturating_sub(1), ylen: n, xlen: m, operations: vec![AlignmentOperation::Yclip(1), AlignmentOperation::Match], mode: AlignmentMode::Local },
    }
}

#[derive(Default)]
pub struct Stats {
    pub hits: usize,
    pub inexact_with_gap: bool,
    pub wrap: bool,
    pub starts_at_zero: bool,
    pub lazy_at: usize,
    pub lazy_unsearched: usize,
    pub lazy_nonhit_at: usize,
}

macro_rules! impl_tb {
    ($eager:ident, $lazy:ident, $myers:ty, [$($bound:tt)*], $kconv:expr, $is_long:expr) => {
        /// eager API in its four forms; returns the hits (with paths)
        fn $eager<T: $($bound)*>(my: &mut $myers, c: &MyersCase, text: &[u8], k: u64, dp: &[Vec<u32>], st: &mut Stats) -> Result<Vec<Hit>, Stop> {
            let m = c.pattern.len();
            let n = text.len();
            let kk = $kconv(k);
            let exp = expected_hits(dp, m, k);
            let name = if $is_long { "long::Myers" } else { "Myers" };
            // (a) iterator of (start, end, dist)
            let triples: Vec<(usize, usize, u64)> = my.find_all(text.iter(), kk).take(n + 1).map(|(s, e, d)| (s, e, d as u64)).collect();
            let ends: Vec<(usize, u64)> = triples.iter().map(|(_, e, d)| (e.wrapping_sub(1), *d)).collect();
            ensure!(ends == exp, "{}<u{}>::find_all pattern={:?} text={:?} k={}: ends/distances {:?}, expected {:?}", name, c.width, lossy(&c.pattern), lossy(text), k, ends, exp);
            // (b) next_path
            let mut hits = Vec::new();
            {
                let mut it = my.find_all(text.iter(), kk);
                let mut ops = vec![AlignmentOperation::Yclip(7)]; // must be cleared by the call
                let mut guard = 0;
                while let Some((s, e, d)) = it.next_path(&mut ops) {
                    hits.push(Hit { start: s, end: e, dist: d as u64, ops: ops.clone() });
                    guard += 1;
                    ensure!(guard <= n + 1, "{}::next_path does not terminate", name);
                }
            }
            let t2: Vec<(usize, usize, u64)> = hits.iter().map(|h| (h.start, h.end, h.dist)).collect();
            ensure!(t2 == triples, "{}<u{}> next_path positions {:?} differ from the find_all iterator {:?} (pattern={:?} text={:?} k={})", name, c.width, t2, triples, lossy(&c.pattern), lossy(text), k);
            for h in &hits {
                validate_path(&format!("{}<u{}>::next_path", name, c.width), c, text, h, dp)?;
            }
            // (c) next_alignment
            {
                let mut it = my.find_all(text.iter(), kk);
                let mut aln = recycled(m, n, 2);
                let mut idx = 0;
                while it.next_alignment(&mut aln) {
                    ensure!(idx < hits.len(), "{}::next_alignment yields more hits than next_path", name);
                    check_aln(&format!("{}<u{}>::next_alignment", name, c.width), &aln, &hits[idx], m, n)?;
                    idx += 1;
                }
                ensure!(idx == hits.len(), "{}::next_alignment yields {} hits, next_path {}", name, idx, hits.len());
            }
            // (d) next_end + start/path/alignment of the current hit
            {
                let mut it = my.find_all(text.iter(), kk);
                let mut aln = Alignment::default();
                let mut ops = Vec::new();
                let mut idx = 0;
                while let Some((e, d)) = it.next_end() {
                    ensure!(idx < hits.len(), "{}::next_end yields more hits than next_path", name);
                    let h = &hits[idx];
                    ensure!(e + 1 == h.end && d as u64 == h.dist, "{}::next_end {:?} differs from next_path hit {:?}", name, (e, d), h);
                    let s = it.start();
                    ensure!(s == Some(h.start), "{}::start() = {:?}, next_path start {}", name, s, h.start);
                    let s = it.path(&mut ops);
                    ensure!(s == Some(h.start) && ops == h.ops, "{}::path() = {:?} {:?}, next_path {:?}", name, s, ops, h);
                    aln = recycled(m, n, idx);
                    ensure!(it.alignment(&mut aln), "{}::alignment() refused on a current hit", name);
                    check_aln(&format!("{}<u{}>::alignment", name, c.width), &aln, h, m, n)?;
                    idx += 1;
                }
                ensure!(idx == hits.len(), "{}::next_end yields {} hits, next_path {}", name, idx, hits.len());
            }
            st.hits += hits.len();
            for h in &hits {
                if h.dist > 0 && h.ops.iter().any(|o| matches!(o, AlignmentOperation::Ins | AlignmentOperation::Del)) {
                    st.inexact_with_gap = true;
                }
                if h.start == 0 {
                    st.starts_at_zero = true;
                }
            }
            if n > m + (k as usize).min(m) + 2 {
                st.wrap = true;
            }
            Ok(hits)
        }

        /// lazy API driven by the query script
        fn $lazy<T: $($bound)*>(my: &mut $myers, c: &MyersCase, text: &[u8], k: u64, dp: &[Vec<u32>], script: &[LazyOp], eager: &[Hit], st: &mut Stats) -> Result<(), Stop> {
            let m = c.pattern.len();
            let n = text.len();
            let kk = $kconv(k);
            let exp = expected_hits(dp, m, k);
            let name = if $is_long { "long::Myers" } else { "Myers" };
            let mut lazy = my.find_all_lazy(text.iter(), kk);
            let mut next_idx = 0usize; // index into exp of the next hit to be returned
            let mut searched: usize = 0; // number of text positions searched so far
            let mut finished = false;
            // the script, then drain the iterator, then query every hit once more
            let mut ops_script: Vec<LazyOp> = script.to_vec();
            for _ in 0..=exp.len() {
                ops_script.push(LazyOp::Next);
            }
            for q in 0..exp.len().min(6) {
                ops_script.push(LazyOp::At(((q as u32 * 65535) / exp.len().max(1) as u32) as u16));
            }
            ops_script.push(LazyOp::Unsearched(0));
            for op in &ops_script {
                match op {
                    LazyOp::Next => {
                        let got = lazy.next().map(|(e, d)| (e, d as u64));
                        let want = exp.get(next_idx).copied();
                        ensure!(got == want, "{}<u{}> lazy next() = {:?}, expected {:?} (pattern={:?} text={:?} k={})", name, c.width, got, want, lossy(&c.pattern), lossy(text), k);
                        match got {
                            Some((e, _)) => {
                                searched = e + 1;
                                next_idx += 1;
                            }
                            None => {
                                searched = n;
                                finished = true;
                            }
                        }
                    }
                    LazyOp::At(frac) => {
                        // admissible ends: block version = reported hits only; single-word = any searched end
                        let e = if $is_long {
                            if next_idx == 0 {
                                continue;
                            }
                            exp[idx(*frac, next_idx - 1)].0
                        } else {
                            if searched == 0 {
                                continue;
                            }
                            idx(*frac, searched - 1)
                        };
                        let want_d = dp[e + 1][m] as u64;
                        let what = format!("{}<u{}> lazy *_at({})", name, c.width, e);
                        let r = lazy.hit_at(e).map(|(s, d)| (s, d as u64));
                        let Some((s, d)) = r else { fail!("{}: hit_at refused an already searched end (searched {} positions; pattern={:?} text={:?} k={})", what, searched, lossy(&c.pattern), lossy(text), k) };
                        let mut ops = Vec::new(); // path_at appends: start from an empty vector
                        let r2 = lazy.path_at(e, &mut ops).map(|(s, d)| (s, d as u64));
                        ensure!(r2 == Some((s, d)), "{}: path_at {:?} differs from hit_at {:?}", what, r2, (s, d));
                        // the fourth lazy door: the same path, operations in reverse order
                        let mut rops = Vec::new();
                        let r3 = lazy.path_at_reverse(e, &mut rops).map(|(s, d)| (s, d as u64));
                        rops.reverse();
                        ensure!(r3 == Some((s, d)) && rops == ops, "{}: path_at_reverse gives {:?} with operations (reversed back) {:?}; path_at gives {:?} with {:?}", what, r3, rops, (s, d), ops);
                        let h = Hit { start: s, end: e + 1, dist: d, ops };
                        ensure!(d == want_d, "{}: distance {} but the DP value at that end is {}", what, d, want_d);
                        validate_path(&what, c, text, &h, dp)?;
                        let mut aln = recycled(m, n, e);
                        ensure!(lazy.alignment_at(e, &mut aln), "{}: alignment_at refused an already searched end", what);
                        check_aln(&what, &aln, &h, m, n)?;
                        if let Some(eh) = eager.iter().find(|x| x.end == e + 1) {
                            ensure!(*eh == h, "{}: lazy result {:?} differs from the eager result {:?}", what, h, eh);
                        } else {
                            st.lazy_nonhit_at += 1;
                        }
                        st.lazy_at += 1;
                    }
                    LazyOp::Unsearched(off) => {
                        let e = searched + *off as usize;
                        let what = format!("{}<u{}> lazy query at unsearched end {} (searched {} of {} positions, finished={})", name, c.width, e, searched, n, finished);
                        let r = lazy.hit_at(e);
                        ensure!(r.is_none(), "{}: hit_at answered {:?} instead of refusing (pattern={:?} text={:?} k={})", what, r, lossy(&c.pattern), lossy(text), k);
                        let mut ops = Vec::new();
                        let r = lazy.path_at(e, &mut ops);
                        ensure!(r.is_none(), "{}: path_at answered {:?} instead of refusing", what, r);
                        let mut rops = Vec::new();
                        let r = lazy.path_at_reverse(e, &mut rops);
                        ensure!(r.is_none(), "{}: path_at_reverse answered {:?} instead of refusing", what, r);
                        let mut aln = Alignment::default();
                        ensure!(!lazy.alignment_at(e, &mut aln), "{}: alignment_at answered instead of refusing", what);
                        st.lazy_unsearched += 1;
                    }
                }
            }
            Ok(())
        }
    };
}

impl_tb!(eager_simple, lazy_simple, bio::pattern_matching::myers::Myers<T>, [BitVec<DistType = u8>], |k: u64| k as u8, false);
impl_tb!(eager_long, lazy_long, bio::pattern_matching::myers::long::Myers<T>, [BitVec], |k: u64| k as usize, true);

fn searches(c: &Case) -> Vec<(Vec<u8>, u64)> {
    let mut v = vec![(c.base.text.0.clone(), c.base.k)];
    v.extend(c.more.iter().map(|(t, k)| (t.0.clone(), *k)));
    v
}

fn run_simple<T: BitVec<DistType = u8>>(c: &Case, st: &mut Stats) -> Result<Vec<Vec<Hit>>, Stop> {
    let mut my = c.base.simple::<T>();
    let mut all = Vec::new();
    for (i, (text, k)) in searches(c).iter().enumerate() {
        let mut bc = c.base.clone();
        bc.text = B(text.clone());
        bc.k = *k;
        let dp = semi_dp(&bc);
        // alternate: eager first, then lazy on the same object (and the other way round for odd searches)
        if i % 2 == 0 {
            let hits = eager_simple::<T>(&mut my, &bc, text, *k, &dp, st)?;
            lazy_simple::<T>(&mut my, &bc, text, *k, &dp, &c.script, &hits, st)?;
            all.push(hits);
        } else {
            lazy_simple::<T>(&mut my, &bc, text, *k, &dp, &c.script, &[], st)?;
            let hits = eager_simple::<T>(&mut my, &bc, text, *k, &dp, st)?;
            all.push(hits);
        }
    }
    Ok(all)
}

fn run_long<T: BitVec>(c: &Case, st: &mut Stats) -> Result<Vec<Vec<Hit>>, Stop> {
    let mut my = c.base.long::<T>();
    let mut all = Vec::new();
    for (i, (text, k)) in searches(c).iter().enumerate() {
        let mut bc = c.base.clone();
        bc.text = B(text.clone());
        bc.k = *k;
        let dp = semi_dp(&bc);
        if i % 2 == 0 {
            let hits = eager_long::<T>(&mut my, &bc, text, *k, &dp, st)?;
            lazy_long::<T>(&mut my, &bc, text, *k, &dp, &c.script, &hits, st)?;
            all.push(hits);
        } else {
            lazy_long::<T>(&mut my, &bc, text, *k, &dp, &c.script, &[], st)?;
            let hits = eager_long::<T>(&mut my, &bc, text, *k, &dp, st)?;
            all.push(hits);
        }
    }
    Ok(all)
}

pub fn check(c: &Case) -> R {
    ensure!(!c.base.pattern.is_empty() && c.base.k <= 255 && c.more.iter().all(|(_, k)| *k <= 255), "harness: case outside the C10 domain");
    let m = c.base.pattern.len();
    let w = c.base.width;
    let mut st = Stats::default();
    let long_hits = by_width!(w, run_long, c, &mut st)?;
    let mut compared = false;
    if m <= w as usize {
        let simple_hits = by_width!(w, run_simple, c, &mut st)?;
        ensure!(simple_hits == long_hits, "single-word Myers<u{}> and block-based long::Myers<u{}> produce different alignments: {:?} vs {:?} (pattern={:?} searches={:?})", w, w, simple_hits, long_hits, lossy(&c.base.pattern), searches(c).iter().map(|(t, k)| (lossy(t), *k)).collect::<Vec<_>>());
        compared = true;
    }
    if m <= 64 && w != 64 {
        // the widest single-word implementation against the block version of the chosen width
        let simple64 = run_simple::<u64>(c, &mut Stats::default())?;
        ensure!(simple64 == long_hits, "single-word Myers<u64> and block-based long::Myers<u{}> produce different alignments: {:?} vs {:?} (pattern={:?} searches={:?})", w, simple64, long_hits, lossy(&c.base.pattern), searches(c).iter().map(|(t, k)| (lossy(t), *k)).collect::<Vec<_>>());
        compared = true;
    }
    let mut p = Pass::new(st.inexact_with_gap);
    p.add_if(st.inexact_with_gap, "hit with d>=1 and an Ins/Del in its path");
    p.add_if(st.hits == 0, "no hit");
    p.add_if(st.wrap, "ring buffer wraps (text longer than m+k+2)");
    p.add_if(st.starts_at_zero, "hit starting at text position 0");
    p.add_if(st.lazy_at > 0, "lazy *_at at a searched end");
    p.add_if(st.lazy_nonhit_at > 0, "lazy *_at at a searched end that is not a hit");
    p.add_if(st.lazy_unsearched > 0, "lazy query at an unsearched end");
    p.add_if(!c.more.is_empty(), "object reused for several searches");
    p.add_if(compared, "single-word vs block compared");
    p.add_if(c.script.iter().any(|o| matches!(o, LazyOp::At(_))), "script interleaves *_at with next()");
    c09::myers_classes(&c.base, &mut p);
    p.add_if((255..=257).contains(&m), "|p| in 255..257");
    p.add_if((511..=513).contains(&m), "|p| in 511..513");
    p.add_if((1023..=1025).contains(&m), "|p| in 1023..1025");
    p.add_if(m / (w as usize) >= 32, "32 or more blocks");
    Ok(p)
}

fn k255(m: usize) -> BoxedStrategy<u64> {
    prop_oneof![2 => Just(0u64), 4 => 0u64..=3, 3 => 0u64..=(m as u64 + 2).min(255), 1 => 0u64..=255].boxed()
}

pub fn strat(t: Tier) -> BoxedStrategy<Case> {
    let text_max = match t {
        Tier::Quick => 90,
        Tier::Thorough => 160,
    };
    (c09::shape(), c09::pattern_len(), c09::width())
        .prop_flat_map(move |(sh, m, width)| {
            let sigma = sh.sigma;
            (
                c09::pattern_text(sh, m, text_max),
                k255(m),
                Just(width),
                proptest::collection::vec((crate::engine::gen::seq(sigma, b'a', 0..=text_max), k255(m), 0u8..8, any::<u16>()), 0..=2),
                proptest::collection::vec(prop_oneof![3 => Just(LazyOp::Next), 3 => any::<u16>().prop_map(LazyOp::At), 1 => (0u8..4).prop_map(LazyOp::Unsearched)], 0..=10),
            )
        })
        .prop_map(|((p, t, ambig, wildcards), k, width, more, script)| {
            // further texts: half of them contain the pattern's plain symbols so that hits arise
            // further texts: random over the pattern's alphabet, entirely foreign to it (no symbol of the
            // pattern occurs), or starting with a suffix of the pattern
            let more = more
                .into_iter()
                .map(|(t, k, shape, frac)| {
                    let t = match shape {
                        5 | 6 => t.iter().map(|c| b'w' + (c - b'a') % 4).collect(),
                        7 => {
                            let j = crate::engine::gen::idx(frac, p.len() - 1);
                            let mut v: Vec<u8> = p[j..].iter().map(|&c| if c == b'n' { b'a' } else { c }).collect();
                            v.extend(t.iter().take(20));
                            v
                        }
                        _ => t,
                    };
                    (B(t), k)
                })
                .collect();
            Case { base: MyersCase { pattern: B(p), text: B(t), k, width, ambig, wildcards, k_is_best: false }, more, script }
        })
        .boxed()
}

/// large scale: patterns of 255..1025 symbols (dozens to 129 blocks), texts of up to 2500 symbols, few hits
pub fn strat_large(_t: Tier) -> BoxedStrategy<Case> {
    let text_max = 2500;
    (c09::shape(), proptest::sample::select(vec![255usize, 256, 257, 300, 511, 512, 513, 1023, 1024, 1025]), c09::width())
        .prop_flat_map(move |(mut sh, m, width)| {
            // a one-letter alphabet makes every end position a hit (thousands of O(m^2) validations per case)
            sh.sigma = sh.sigma.max(2);
            let sigma = sh.sigma;
            (
                c09::pattern_text(sh, m, text_max),
                prop_oneof![2 => Just(0u64), 4 => 0u64..=6, 2 => 7u64..=40],
                Just(width),
                proptest::collection::vec((crate::engine::gen::seq(sigma, b'a', 0..=text_max), 0u64..=20, 0u8..8, any::<u16>()), 0..=1),
                proptest::collection::vec(prop_oneof![3 => Just(LazyOp::Next), 3 => any::<u16>().prop_map(LazyOp::At), 1 => (0u8..4).prop_map(LazyOp::Unsearched)], 0..=6),
            )
        })
        .prop_map(|((p, t, ambig, wildcards), k, width, more, script)| {
            let more = more
                .into_iter()
                .map(|(t, k, shape, frac)| {
                    let t = match shape {
                        5 | 6 => t.iter().map(|c| b'w' + (c - b'a') % 4).collect(),
                        7 => {
                            let j = crate::engine::gen::idx(frac, p.len() - 1);
                            let mut v: Vec<u8> = p[j..].iter().map(|&c| if c == b'n' { b'a' } else { c }).collect();
                            v.extend(t.iter().take(20));
                            v
                        }
                        _ => t,
                    };
                    (B(t), k)
                })
                .collect();
            Case { base: MyersCase { pattern: B(p), text: B(t), k, width, ambig, wildcards, k_is_best: false }, more, script }
        })
        .boxed()
}

pub fn property() -> Property {
    Property {
        id: "C10",
        rule: "cases as in C09 (k <= 255) plus 0-2 further (text, k) searched with the same Myers object (eager and lazy alternating) and a query script interleaving next() with hit_at/path_at/alignment_at at already searched ends and at unsearched ends. For every hit: path validator (consumes exactly the pattern and text[start..end), Match <=> equal under the ambiguity table, #non-match = distance = DP value at that end = edit distance of that substring); find_all iterator = next_path = next_alignment = next_end+start/path/alignment = lazy *_at = find_all_end; single-word = block version (paths included); unsearched ends are refused. Non-trivial = some hit with d >= 1 whose path contains an Ins or Del; distinct = distinct serialised case.",
        assumptions: &["the ops vector is cleared before path_at (the method appends; only path()/next_path document clearing)", "block version: *_at is only queried at ends that were reported as hits (documented restriction)"],
        subs: vec![Box::new(PropSub {
            name: "C10/traceback",
            quick: 160_000,
            thorough: 3_000_000,
            shards_quick: 16,
            shards_thorough: 16,
            strat,
            check,
            must_reach: &["hit with d>=1 and an Ins/Del in its path", "ring buffer wraps (text longer than m+k+2)", "hit starting at text position 0", "k >= |p|", "object reused for several searches", "lazy *_at at a searched end that is not a hit", "lazy query at an unsearched end", "single-word vs block compared", "multi-block pattern", "ambiguity/wildcard used"],
            watch: true,
        }),
        Box::new(PropSub {
            name: "C10/large",
            quick: 320,
            thorough: 16_000,
            shards_quick: 16,
            shards_thorough: 16,
            strat: strat_large,
            check,
            must_reach: &["|p| in 255..257", "|p| in 511..513", "|p| in 1023..1025", "32 or more blocks", "hit with d>=1 and an Ins/Del in its path", "object reused for several searches"],
            watch: true,
        })],
    }
}
