//! C15 — log-space probability arithmetic agrees with linear-space arithmetic.
//!
//! All comparisons are made *relative to the largest operand* as the property states:
//! |image(result) - reference| <= 0.005 * largest operand.  To keep the comparison meaningful
//! for operands whose linear image underflows f64, both sides are divided by the largest
//! operand before leaving log space:  |exp(result - lmax) - sum_i exp(l_i - lmax)| <= 0.005.
//! That is the same inequality, evaluated without underflow.
//!
//! Why 0.5 % is sound: `fastexp` has a measured maximal relative error of 8.9e-6; a sum of n
//! terms accumulates at most (n-1)*8.9e-6 of the largest operand, i.e. 0.18 % for the list /
//! grid cap of 201 entries.

use crate::engine::*;
use crate::ensure;
use bio::stats::{LogProb, PHREDProb, Prob};
use proptest::prelude::*;
use serde::{Deserialize, Serialize};

/// the property's bound: 0.5 percent of the largest operand
pub const TOL: f64 = 0.005;
/// bound where no approximate exponential is involved
pub const TOL_EXACT: f64 = 1e-9;
/// ln(0) must be neutral: tolerance in log space for "unchanged"
const NEUTRAL_EPS: f64 = 1e-12;

/// A log-probability in [-inf, 0], integer encoded (exact through JSON, shrinks towards ln 1).
#[derive(Serialize, Deserialize, Debug, Clone, Copy, PartialEq)]
pub enum L {
    /// ln 0 = -inf
    Zero,
    /// -k / 1e3
    Milli(u32),
    /// -k / 1e6
    Micro(u32),
    /// -k / 1e9
    Nano(u32),
}

impl L {
    pub fn v(self) -> f64 {
        match self {
            L::Zero => f64::NEG_INFINITY,
            L::Milli(k) => 0.0 - k as f64 / 1e3,
            L::Micro(k) => 0.0 - k as f64 / 1e6,
            L::Nano(k) => 0.0 - k as f64 / 1e9,
        }
    }
    pub fn lp(self) -> LogProb {
        LogProb(self.v())
    }
}

/// ln(1e-200): the design's lower end of the log-uniform range
const K_1E200: u32 = 460_517;

pub fn lval() -> BoxedStrategy<L> {
    prop_oneof![
        2 => Just(L::Zero),
        2 => Just(L::Milli(0)),
        8 => (0..=K_1E200).prop_map(L::Milli),
        4 => (0..=3_000_000u32).prop_map(L::Micro),
        2 => (0..=1_000_000u32).prop_map(L::Nano),
        1 => (0..=2_000u32).prop_map(L::Nano),
        1 => (K_1E200..=1_500_000u32).prop_map(L::Milli),
        2 => (692_900..=693_250u32).prop_map(L::Micro),
    ]
    .boxed()
}

/// finite values only
fn lfinite() -> BoxedStrategy<L> {
    lval().prop_map(|l| if l == L::Zero { L::Milli(1) } else { l }).boxed()
}

fn fmt_l(l: L) -> String {
    format!("{:?}={:e}", l, l.v())
}

// ===========================================================================
// binary: ln_add_exp, ln_sub_exp, ln_one_minus_exp

pub mod binary {
    use super::*;

    #[derive(Serialize, Deserialize, Debug, Clone)]
    pub struct Case {
        pub p: L,
        pub q: L,
    }

    /// returns the scaled absolute error
    pub fn add_err(name: &str, a: L, b: L, r: f64) -> Result<f64, Stop> {
        let (x, y) = (a.v(), b.v());
        ensure!(!r.is_nan(), "{}({}, {}) = NaN", name, fmt_l(a), fmt_l(b));
        let hi = x.max(y);
        let lo = x.min(y);
        if hi == f64::NEG_INFINITY {
            ensure!(r == f64::NEG_INFINITY, "{}(ln 0, ln 0) = {} instead of ln 0", name, r);
            return Ok(0.0);
        }
        let reference = 1.0 + (lo - hi).exp();
        let img = (r - hi).exp();
        let err = (img - reference).abs();
        ensure!(
            err <= TOL,
            "{}({}, {}) = {:e}: image / largest operand = {:e}, linear reference (p+q)/max = {:e}, difference {:e} > {}",
            name, fmt_l(a), fmt_l(b), r, img, reference, err, TOL
        );
        if lo == f64::NEG_INFINITY {
            ensure!((r - hi).abs() <= NEUTRAL_EPS * hi.abs().max(1.0), "ln 0 is not neutral: {}({}, {}) = {:e}", name, fmt_l(a), fmt_l(b), r);
        }
        Ok(err)
    }

    pub fn sub_err(hi: L, lo: L, r: f64) -> Result<f64, Stop> {
        let (x, y) = (hi.v(), lo.v());
        ensure!(!r.is_nan(), "ln_sub_exp({}, {}) = NaN", fmt_l(hi), fmt_l(lo));
        if x == f64::NEG_INFINITY {
            ensure!(r == f64::NEG_INFINITY, "ln_sub_exp(ln 0, ln 0) = {} instead of ln 0", r);
            return Ok(0.0);
        }
        let reference = 1.0 - (y - x).exp();
        let img = (r - x).exp();
        let err = (img - reference).abs();
        ensure!(
            err <= TOL,
            "ln_sub_exp({}, {}) = {:e}: image / largest operand = {:e}, linear reference (p-q)/p = {:e}, difference {:e} > {}",
            fmt_l(hi), fmt_l(lo), r, img, reference, err, TOL
        );
        if y == f64::NEG_INFINITY {
            ensure!((r - x).abs() <= NEUTRAL_EPS * x.abs().max(1.0), "ln 0 is not neutral: ln_sub_exp({}, ln 0) = {:e}", fmt_l(hi), r);
        }
        Ok(err)
    }

    pub fn one_minus_err(a: L, r: f64) -> Result<f64, Stop> {
        ensure!(!r.is_nan(), "ln_one_minus_exp({}) = NaN", fmt_l(a));
        // operands: 1 and p; the largest is 1
        let reference = -a.v().exp_m1();
        let img = r.exp();
        let err = (img - reference).abs();
        ensure!(err <= TOL, "ln_one_minus_exp({}) = {:e}: image {:e}, linear reference 1-p = {:e}, difference {:e} > {}", fmt_l(a), r, img, reference, err, TOL);
        Ok(err)
    }

    pub fn eval(c: &Case) -> Result<(Pass, f64), Stop> {
        let (p, q) = (c.p, c.q);
        let mut worst: f64 = 0.0;
        worst = worst.max(add_err("ln_add_exp", p, q, *p.lp().ln_add_exp(q.lp()))?);
        worst = worst.max(add_err("ln_add_exp", q, p, *q.lp().ln_add_exp(p.lp()))?);
        let (hi, lo) = if p.v() >= q.v() { (p, q) } else { (q, p) };
        worst = worst.max(sub_err(hi, lo, *hi.lp().ln_sub_exp(lo.lp()))?);
        worst = worst.max(one_minus_err(p, *p.lp().ln_one_minus_exp())?);
        worst = worst.max(one_minus_err(q, *q.lp().ln_one_minus_exp())?);

        let d = (p.v() - q.v()).abs(); // NaN when both are -inf
        let both_zero = p == L::Zero && q == L::Zero;
        let one_zero = (p == L::Zero) != (q == L::Zero);
        let mut pass = Pass::new(!both_zero && !one_zero && d < 40.0);
        pass.add_if(both_zero, "both ln(0)");
        pass.add_if(one_zero, "one operand ln(0)");
        pass.add_if(!both_zero && !one_zero && d == 0.0, "equal operands");
        pass.add_if(d > 0.0 && d < 1e-3, "operands closer than 1e-3");
        pass.add_if(d > 0.0 && d < 40.0, "0 < difference < 40");
        pass.add_if(d >= 40.0 && d.is_finite(), "operands > 40 apart");
        pass.add_if(d >= 500.0 && d.is_finite(), "difference beyond the fastexp cut-off (500)");
        pass.add_if(d > 0.6925 && d < 0.6935, "ln_sub_exp at the switch point of ln_1m_exp");
        pass.add_if((d > 0.6925 && d < 0.693) || [p, q].iter().any(|l| l.v() > -0.693 && l.v() < -0.6925), "just above the switch point (-0.693)");
        pass.add_if((d >= 0.693 && d < 0.6935) || [p, q].iter().any(|l| l.v() <= -0.693 && l.v() > -0.6935), "just below the switch point (-0.693)");
        pass.add_if([p, q].iter().any(|l| l.v() == 0.0), "operand ln(1)");
        pass.add_if([p, q].iter().any(|l| l.v() < -460.6 && l.v().is_finite()), "operand below 1e-200");
        pass.add_if([p, q].iter().any(|l| l.v() < -745.2 && l.v().is_finite()), "operand whose linear image underflows f64");
        pass.add_if([p, q].iter().any(|l| l.v() > -1e-6 && l.v() < 0.0), "operand within 1e-6 of ln(1)");
        Ok((pass, worst))
    }

    pub fn check(c: &Case) -> R {
        eval(c).map(|x| x.0)
    }

    fn shifted(l: L, d: u32) -> L {
        match l {
            L::Zero => L::Zero,
            L::Milli(k) => L::Milli(k.saturating_add(d)),
            L::Micro(k) => L::Micro(k.saturating_add(d)),
            L::Nano(k) => L::Nano(k.saturating_add(d)),
        }
    }

    pub fn strat(_t: Tier) -> BoxedStrategy<Case> {
        prop_oneof![
            // independent operands
            6 => (lval(), lval()).prop_map(|(p, q)| Case { p, q }),
            // equal operands
            2 => lval().prop_map(|p| Case { p, q: p }),
            // same unit, difference d units: near pairs (the small operand matters)
            5 => (lfinite(), 0u32..=40_000, any::<bool>()).prop_map(|(p, d, sw)| {
                let q = shifted(p, d);
                if sw { Case { p: q, q: p } } else { Case { p, q } }
            }),
            // tiny differences
            2 => (lfinite(), 0u32..=3, any::<bool>()).prop_map(|(p, d, sw)| {
                let q = shifted(p, d);
                if sw { Case { p: q, q: p } } else { Case { p, q } }
            }),
            // difference straddling the switch point ln 2 ~ 0.693 of ln_1m_exp (micro units)
            3 => (0u32..=2_000_000, 692_900u32..=693_250, any::<bool>()).prop_map(|(k, d, sw)| {
                let (p, q) = (L::Micro(k), L::Micro(k + d));
                if sw { Case { p: q, q: p } } else { Case { p, q } }
            }),
            // far apart, including around the fastexp cut-off at 500
            2 => (0u32..=K_1E200, prop_oneof![40_000u32..=460_000, 499_000u32..=501_000, 501_000u32..=1_000_000], any::<bool>()).prop_map(|(k, d, sw)| {
                let (p, q) = (L::Milli(k), L::Milli(k + d));
                if sw { Case { p: q, q: p } } else { Case { p, q } }
            }),
        ]
        .boxed()
    }
}

// ===========================================================================
// lists: ln_sum_exp, ln_cumsum_exp

pub mod lists {
    use super::*;

    #[derive(Serialize, Deserialize, Debug, Clone)]
    pub struct Case {
        pub xs: Vec<L>,
    }

    fn show(xs: &[L]) -> String {
        if xs.len() <= 12 {
            format!("{:?}", xs)
        } else {
            format!("[{} entries: {:?} ...]", xs.len(), &xs[..12])
        }
    }

    fn scaled_sum(vals: &[f64]) -> (f64, f64) {
        let mx = vals.iter().cloned().fold(f64::NEG_INFINITY, f64::max);
        if mx == f64::NEG_INFINITY {
            return (mx, 0.0);
        }
        (mx, vals.iter().map(|v| (v - mx).exp()).sum())
    }

    pub fn eval(c: &Case) -> Result<(Pass, f64), Stop> {
        ensure!(c.xs.len() <= 200, "harness: list longer than the stated cap of 200");
        let vals: Vec<f64> = c.xs.iter().map(|l| l.v()).collect();
        let lps: Vec<LogProb> = vals.iter().map(|&v| LogProb(v)).collect();
        let mut worst: f64 = 0.0;

        // n-ary sum
        let r = *LogProb::ln_sum_exp(&lps);
        ensure!(!r.is_nan(), "ln_sum_exp({}) = NaN", show(&c.xs));
        let (mx, reference) = scaled_sum(&vals);
        if mx == f64::NEG_INFINITY {
            ensure!(r == f64::NEG_INFINITY, "ln_sum_exp({}) = {} instead of ln 0", show(&c.xs), r);
        } else {
            let img = (r - mx).exp();
            let err = (img - reference).abs();
            worst = worst.max(err);
            ensure!(err <= TOL, "ln_sum_exp({}) = {:e}: image / largest operand = {:e}, linear sum / largest operand = {:e}, difference {:e} > {}", show(&c.xs), r, img, reference, err, TOL);
        }
        // ln 0 entries are neutral: same sum without them
        let nz: Vec<LogProb> = lps.iter().cloned().filter(|p| **p != f64::NEG_INFINITY).collect();
        if nz.len() != lps.len() {
            let r2 = *LogProb::ln_sum_exp(&nz);
            ensure!(!r2.is_nan(), "ln_sum_exp without the ln 0 entries of {} = NaN", show(&c.xs));
            ensure!(
                (r == r2) || (r - r2).abs() <= NEUTRAL_EPS * r.abs().max(1.0),
                "ln 0 is not neutral in ln_sum_exp: {} gives {:e}, without the ln 0 entries {:e}",
                show(&c.xs), r, r2
            );
        }

        // cumulative sum
        let cs: Vec<f64> = LogProb::ln_cumsum_exp(lps.iter().cloned()).take(lps.len() + 2).map(|p| *p).collect();
        ensure!(cs.len() == lps.len(), "ln_cumsum_exp yields {} values for {} inputs ({})", cs.len(), lps.len(), show(&c.xs));
        let mut run_max = f64::NEG_INFINITY;
        for k in 0..cs.len() {
            ensure!(!cs[k].is_nan(), "ln_cumsum_exp({})[{}] = NaN", show(&c.xs), k);
            run_max = run_max.max(vals[k]);
            if run_max == f64::NEG_INFINITY {
                ensure!(cs[k] == f64::NEG_INFINITY, "ln_cumsum_exp({})[{}] = {} instead of ln 0", show(&c.xs), k, cs[k]);
                continue;
            }
            let reference: f64 = vals[..=k].iter().map(|v| (v - run_max).exp()).sum();
            let img = (cs[k] - run_max).exp();
            let err = (img - reference).abs();
            worst = worst.max(err);
            ensure!(
                err <= TOL,
                "ln_cumsum_exp({})[{}] = {:e}: image / largest operand so far = {:e}, linear prefix sum / largest = {:e}, difference {:e} > {}",
                show(&c.xs), k, cs[k], img, reference, err, TOL
            );
            if vals[k] == f64::NEG_INFINITY && k > 0 {
                ensure!(
                    cs[k] == cs[k - 1] || (cs[k] - cs[k - 1]).abs() <= NEUTRAL_EPS * cs[k].abs().max(1.0),
                    "ln 0 is not neutral in ln_cumsum_exp({}): [{}] = {:e}, [{}] = {:e}",
                    show(&c.xs), k - 1, cs[k - 1], k, cs[k]
                );
            }
        }

        let n = c.xs.len();
        let nzero = c.xs.iter().filter(|l| **l == L::Zero).count();
        let finite: Vec<f64> = vals.iter().cloned().filter(|v| v.is_finite()).collect();
        let spread = finite.iter().cloned().fold(f64::NEG_INFINITY, f64::max) - finite.iter().cloned().fold(f64::INFINITY, f64::min);
        let argmax_first = !finite.is_empty() && vals[0] == mx;
        let mut pass = Pass::new(n >= 3 && finite.len() >= 2);
        pass.add_if(n == 0, "empty list");
        pass.add_if(n == 1, "length 1");
        pass.add_if(n == 2, "length 2");
        pass.add_if((3..=20).contains(&n), "length 3..20");
        pass.add_if((21..200).contains(&n), "length 21..199");
        pass.add_if(n == 200, "length 200");
        pass.add_if(nzero > 0 && nzero < n, "contains ln(0) entries");
        pass.add_if(n > 0 && nzero == n, "all entries ln(0)");
        pass.add_if(n > 0 && c.xs[0] == L::Zero && nzero < n, "leading ln(0)");
        pass.add_if(finite.len() >= 2 && spread == 0.0, "all finite entries equal");
        pass.add_if(finite.len() >= 2 && spread > 0.0 && spread < 5.0, "spread < 5 (every entry matters)");
        pass.add_if(finite.len() >= 2 && spread > 40.0, "spread > 40");
        pass.add_if(finite.len() >= 2 && spread > 500.0, "spread > 500");
        pass.add_if(finite.len() >= 2 && !argmax_first, "maximum not first");
        pass.add_if(finite.len() >= 2 && vals.iter().filter(|&&v| v == mx).count() >= 2, "maximum attained twice");
        Ok((pass, worst))
    }

    pub fn check(c: &Case) -> R {
        eval(c).map(|x| x.0)
    }

    fn len() -> BoxedStrategy<usize> {
        prop_oneof![1 => Just(0usize), 2 => Just(1usize), 2 => Just(2usize), 10 => 3usize..=20, 5 => 21usize..=199, 3 => Just(200usize)].boxed()
    }

    pub fn strat(_t: Tier) -> BoxedStrategy<Case> {
        len()
            .prop_flat_map(|n| {
                prop_oneof![
                    // anything
                    3 => proptest::collection::vec(lval(), n),
                    // narrow band around a base value, with some ln 0 entries
                    5 => (0u32..=K_1E200, 1u32..=5_000).prop_flat_map(move |(base, w)| {
                        proptest::collection::vec(prop_oneof![1 => Just(L::Zero), 9 => (0..=w).prop_map(move |d| L::Milli(base + d))], n)
                    }),
                    // all equal (worst case for the number of relevant terms)
                    1 => lval().prop_map(move |l| vec![l; n]),
                    // wide band
                    2 => (0u32..=K_1E200).prop_flat_map(move |base| {
                        proptest::collection::vec(prop_oneof![1 => Just(L::Zero), 9 => (0..=60_000u32).prop_map(move |d| L::Milli(base + d))], n)
                    }),
                    // fine-grained near ln 1
                    1 => proptest::collection::vec((0..=2_000_000u32).prop_map(L::Micro), n),
                ]
            })
            .prop_map(|xs| Case { xs })
            .boxed()
    }
}

// ===========================================================================
// integrate: trapezoid, Simpson, trapezoid on a grid


pub mod longlists {
    //! Long lists with one dominant entry and a long tail of small ones. The sum divided by the
    //! largest operand stays below ~250, so the accumulated error bound of the fast exponential
    //! (8.9e-6 per unit of that ratio) stays inside the stated 0.5 percent; but thousands of
    //! individually negligible entries add up to a visible share of the result.
    use super::*;

    #[derive(Serialize, Deserialize, Debug, Clone)]
    pub struct Case {
        /// log value of the dominant entry, in thousandths
        pub top_milli: i64,
        /// number of tail entries
        pub n: u32,
        /// distance of the tail below the dominant entry, in thousandths of a nat (>= 3000)
        pub base_off_milli: u32,
        /// per-entry extra distance, cycled over the tail
        pub jitter_milli: Vec<u16>,
        /// position of the dominant entry as a fraction of the list
        pub top_pos: u16,
    }

    pub fn check(c: &Case) -> R {
        ensure!(c.base_off_milli >= 3000 && c.n <= 6000 && c.top_milli <= 0, "harness: case outside the long-list domain");
        let top = c.top_milli as f64 / 1000.0;
        let n = c.n as usize;
        let mut vals: Vec<f64> = (0..n)
            .map(|i| {
                let j = if c.jitter_milli.is_empty() { 0 } else { c.jitter_milli[i % c.jitter_milli.len()] as u32 };
                top - (c.base_off_milli + j) as f64 / 1000.0
            })
            .collect();
        let pos = crate::engine::gen::idx(c.top_pos, n);
        vals.insert(pos, top);
        let lps: Vec<LogProb> = vals.iter().map(|&v| LogProb(v)).collect();
        let reference: f64 = vals.iter().map(|v| (v - top).exp()).sum();
        let r = *LogProb::ln_sum_exp(&lps);
        ensure!(!r.is_nan(), "ln_sum_exp of a list of {} entries = NaN ({:?})", vals.len(), c);
        let img = (r - top).exp();
        let err = (img - reference).abs();
        ensure!(err <= TOL, "ln_sum_exp of {} entries (dominant {:e} at index {}, tail {}..{} nats below): image / largest operand = {:e}, linear sum / largest operand = {:e}, difference {:e} > {} ({:?})", vals.len(), top, pos, c.base_off_milli as f64 / 1000.0, (c.base_off_milli as f64 + 65535.0) / 1000.0, img, reference, err, TOL, c);
        // the last element of the cumulative sum is the same quantity
        let last = LogProb::ln_cumsum_exp(lps.iter().cloned()).take(lps.len() + 2).last().map(|p| *p);
        if let Some(l) = last {
            let img2 = (l - top).exp();
            let err2 = (img2 - reference).abs();
            ensure!(err2 <= TOL, "last element of ln_cumsum_exp over {} entries: image / largest operand = {:e}, linear sum / largest = {:e}, difference {:e} > {} ({:?})", vals.len(), img2, reference, err2, TOL, c);
        }
        let tail_share = (reference - 1.0) / reference;
        Ok(Pass::new(n >= 100)
            .class_if(tail_share > 0.005, "tail carries more than 0.5 percent of the sum")
            .class_if(tail_share > 0.005 && c.base_off_milli >= 11_600, "tail > 0.5 percent although every tail entry is < 1e-5 of the largest")
            .class_if(tail_share <= 0.005, "tail below the tolerance")
            .class_if(n >= 1000, "1000+ entries")
            .class_if(pos == 0, "dominant entry first")
            .class_if(pos == n, "dominant entry last")
            .class_if(top < -50.0, "tiny probabilities (largest < e^-50)"))
    }

    pub fn strat(_t: Tier) -> BoxedStrategy<Case> {
        (
            prop_oneof![2 => Just(0i64), 3 => -5_000i64..=0, 2 => -700_000i64..=-5_000],
            prop_oneof![1 => 0u32..=99, 2 => 100u32..=999, 4 => 1000u32..=6000],
            prop_oneof![3 => 3_000u32..=9_000, 4 => 9_000u32..=11_600, 5 => 11_600u32..=13_500, 1 => 13_500u32..=40_000],
            proptest::collection::vec(0u16..=1500, 0..=6),
            prop_oneof![1 => Just(0u16), 1 => Just(u16::MAX), 2 => any::<u16>()],
        )
            .prop_map(|(top_milli, n, base_off_milli, jitter_milli, top_pos)| Case { top_milli, n, base_off_milli, jitter_milli, top_pos })
            .boxed()
    }
}

pub mod integrate {
    use super::*;

    #[derive(Serialize, Deserialize, Debug, Clone, Copy, PartialEq)]
    pub enum Dens {
        /// ln f(x) = c/1000
        Const { c_milli: i32 },
        /// normal density, mean mu/1000, standard deviation sigma/1000 (> 0)
        Gauss { mu_milli: i32, sigma_milli: u32 },
        /// lambda exp(-lambda x), lambda = rate/1000 (> 0)
        Expo { rate_milli: u32 },
        /// x^alpha (1-x)^beta on [0,1] (un-normalised Beta density; zero at the ends)
        Beta { alpha: u8, beta: u8 },
    }

    impl Dens {
        pub fn ln_f(&self, x: f64) -> f64 {
            match *self {
                Dens::Const { c_milli } => c_milli as f64 / 1e3,
                Dens::Gauss { mu_milli, sigma_milli } => {
                    let s = sigma_milli as f64 / 1e3;
                    let z = (x - mu_milli as f64 / 1e3) / s;
                    -0.5 * z * z - s.ln() - 0.5 * (2.0 * std::f64::consts::PI).ln()
                }
                Dens::Expo { rate_milli } => {
                    let l = rate_milli as f64 / 1e3;
                    l.ln() - l * x
                }
                Dens::Beta { alpha, beta } => {
                    let mut v = 0.0;
                    if alpha > 0 {
                        v += alpha as f64 * x.ln();
                    }
                    if beta > 0 {
                        v += beta as f64 * (1.0 - x).ln();
                    }
                    v
                }
            }
        }
    }

    #[derive(Serialize, Deserialize, Debug, Clone, PartialEq)]
    pub enum Rule {
        /// n equidistant points on [a, b], a = start/denom, b = (start+width)/denom
        Trapezoid { n: usize, width: u32 },
        /// n = 2*half + 1 equidistant points
        Simpson { half: usize, width: u32 },
        /// grid x_0 = start/denom, x_i = x_{i-1} + incs[i-1]/denom (incs >= 1)
        Grid { incs: Vec<u16> },
    }

    #[derive(Serialize, Deserialize, Debug, Clone)]
    pub struct Case {
        pub dens: Dens,
        pub rule: Rule,
        pub start: i32,
        pub denom: u32,
    }

    /// compare `r` with sum_i exp(terms[i]) * exp(ln_factor), everything scaled by the largest term
    fn compare(what: &str, c: &Case, r: f64, terms: &[f64], ln_factor: f64) -> Result<f64, Stop> {
        ensure!(!r.is_nan(), "{} = NaN for {:?}", what, c);
        ensure!(terms.iter().all(|t| !t.is_nan() && *t != f64::INFINITY), "harness: reference operand NaN/inf for {:?}", c);
        let mx = terms.iter().cloned().fold(f64::NEG_INFINITY, f64::max);
        if mx == f64::NEG_INFINITY {
            ensure!(r == f64::NEG_INFINITY, "{} = {} for an everywhere-zero density, expected ln 0; {:?}", what, r, c);
            return Ok(0.0);
        }
        let reference: f64 = terms.iter().map(|t| (t - mx).exp()).sum();
        let img = (r - ln_factor - mx).exp();
        let err = (img - reference).abs();
        ensure!(
            err <= TOL,
            "{} = {:e} (linear {:e}); plain f64 quadrature on the same nodes gives {:e}; in units of the largest quadrature operand: {:e} vs {:e}, difference {:e} > {}; {:?}",
            what, r, r.exp(), (reference.ln() + mx + ln_factor).exp(), img, reference, err, TOL, c
        );
        Ok(err)
    }

    pub fn eval(c: &Case) -> Result<(Pass, f64), Stop> {
        ensure!(c.denom >= 1, "harness: denom 0");
        let den = c.denom as f64;
        let a = c.start as f64 / den;
        let dens = c.dens;
        let density = |_i: usize, x: f64| LogProb(dens.ln_f(x));
        let mut zero_at_node = false;
        let (err, n) = match &c.rule {
            Rule::Trapezoid { n, width } => {
                let n = *n;
                ensure!(n >= 3 && *width >= 1, "harness: bad trapezoid case {:?}", c);
                let b = (c.start as f64 + *width as f64) / den;
                let r = *LogProb::ln_trapezoidal_integrate_exp(density, a, b, n);
                let step = (b - a) / (n as f64 - 1.0);
                let mut terms = Vec::with_capacity(n);
                for i in 0..n {
                    let x = if i == n - 1 { b } else { a + step * i as f64 };
                    let w: f64 = if i == 0 || i == n - 1 { 1.0 } else { 2.0 };
                    let l = dens.ln_f(x);
                    zero_at_node |= l == f64::NEG_INFINITY;
                    terms.push(l + w.ln());
                }
                // integral = (b-a)/(2(n-1)) * sum w_i f_i
                (compare("ln_trapezoidal_integrate_exp", c, r, &terms, (b - a).ln() - (2.0 * (n as f64 - 1.0)).ln())?, n)
            }
            Rule::Simpson { half, width } => {
                let n = 2 * *half + 1;
                ensure!(n >= 3 && *width >= 1, "harness: bad simpson case {:?}", c);
                let b = (c.start as f64 + *width as f64) / den;
                let r = *LogProb::ln_simpsons_integrate_exp(density, a, b, n);
                let step = (b - a) / (n as f64 - 1.0);
                let mut terms = Vec::with_capacity(n);
                for i in 0..n {
                    let x = if i == n - 1 { b } else { a + step * i as f64 };
                    let w: f64 = if i == 0 || i == n - 1 { 1.0 } else if i % 2 == 1 { 4.0 } else { 2.0 };
                    let l = dens.ln_f(x);
                    zero_at_node |= l == f64::NEG_INFINITY;
                    terms.push(l + w.ln());
                }
                // integral = h/3 * sum w_i f_i, h = (b-a)/(n-1)
                (compare("ln_simpsons_integrate_exp", c, r, &terms, (b - a).ln() - (3.0 * (n as f64 - 1.0)).ln())?, n)
            }
            Rule::Grid { incs } => {
                ensure!(incs.len() >= 2 && incs.iter().all(|&d| d >= 1), "harness: bad grid case {:?}", c);
                let mut grid = vec![a];
                let mut cum = c.start as i64;
                for &d in incs {
                    cum += d as i64;
                    grid.push(cum as f64 / den);
                }
                let r = *LogProb::ln_trapezoidal_integrate_grid_exp(density, &grid);
                let mut terms = Vec::with_capacity(incs.len());
                for i in 1..grid.len() {
                    let (l0, l1) = (dens.ln_f(grid[i - 1]), dens.ln_f(grid[i]));
                    zero_at_node |= l0 == f64::NEG_INFINITY || l1 == f64::NEG_INFINITY;
                    let (hi, lo) = (l0.max(l1), l0.min(l1));
                    // ln((f0+f1)/2 * dx)
                    let t = if hi == f64::NEG_INFINITY { hi } else { hi + (lo - hi).exp().ln_1p() - 2f64.ln() + (grid[i] - grid[i - 1]).ln() };
                    terms.push(t);
                }
                (compare("ln_trapezoidal_integrate_grid_exp", c, r, &terms, 0.0)?, grid.len())
            }
        };

        let mut pass = Pass::new(true);
        match c.rule {
            Rule::Trapezoid { .. } => pass.add("trapezoid"),
            Rule::Simpson { .. } => pass.add("simpson"),
            Rule::Grid { .. } => pass.add("trapezoid on grid"),
        }
        match c.dens {
            Dens::Const { .. } => pass.add("constant density"),
            Dens::Gauss { .. } => pass.add("gaussian density"),
            Dens::Expo { .. } => pass.add("exponential density"),
            Dens::Beta { .. } => pass.add("beta-like density"),
        }
        pass.add_if(n == 3, "n=3");
        pass.add_if(n >= 100, "n>=100");
        pass.add_if(n == 201, "n=201");
        pass.add_if(zero_at_node, "density zero at a node");
        pass.add_if(c.start < 0, "negative lower bound");
        Ok((pass, err))
    }

    pub fn check(c: &Case) -> R {
        eval(c).map(|x| x.0)
    }

    fn dens() -> BoxedStrategy<Dens> {
        prop_oneof![
            2 => (-20_000i32..=5_000).prop_map(|c_milli| Dens::Const { c_milli }),
            4 => (-100_000i32..=100_000, prop_oneof![10u32..=1_000, 1_000u32..=100_000]).prop_map(|(mu_milli, sigma_milli)| Dens::Gauss { mu_milli, sigma_milli }),
            3 => prop_oneof![1u32..=1_000, 1_000u32..=20_000].prop_map(|rate_milli| Dens::Expo { rate_milli }),
            3 => (0u8..=6, 0u8..=6).prop_map(|(alpha, beta)| Dens::Beta { alpha, beta }),
        ]
        .boxed()
    }

    fn npoints() -> BoxedStrategy<usize> {
        prop_oneof![2 => Just(3usize), 6 => 3usize..=30, 4 => 31usize..=201, 1 => Just(201usize)].boxed()
    }

    pub fn strat(_t: Tier) -> BoxedStrategy<Case> {
        (dens(), npoints(), 0u8..3)
            .prop_flat_map(|(d, n, which)| {
                let rule = match which {
                    0 => (1u32..=200_000).prop_map(move |width| Rule::Trapezoid { n, width }).boxed(),
                    1 => (1u32..=200_000).prop_map(move |width| Rule::Simpson { half: (n - 1) / 2, width }).boxed(),
                    _ => proptest::collection::vec(prop_oneof![3 => 1u16..=50, 1 => 1u16..=5000], n - 1).prop_map(|incs| Rule::Grid { incs }).boxed(),
                };
                (Just(d), rule, -100_000i32..=100_000, 0u32..=2000)
            })
            .prop_map(|(dens, rule, start, tail)| {
                let span: u32 = match &rule {
                    Rule::Trapezoid { width, .. } | Rule::Simpson { width, .. } => *width,
                    Rule::Grid { incs } => incs.iter().map(|&d| d as u32).sum(),
                };
                match dens {
                    // support [0,1]: 0 <= start/denom < (start+span)/denom <= 1
                    Dens::Beta { .. } => {
                        let start = start.unsigned_abs() % 2001;
                        let tail = if tail % 3 == 0 { 0 } else { tail };
                        let start = if start % 3 == 0 { 0 } else { start };
                        Case { dens, rule, start: start as i32, denom: start + span + tail }
                    }
                    // support [0, inf)
                    Dens::Expo { .. } => Case { dens, rule, start: start.abs(), denom: 1000 },
                    _ => Case { dens, rule, start, denom: 1000 },
                }
            })
            .boxed()
    }
}

// ===========================================================================
// convert: Prob <-> LogProb <-> PHREDProb, Prob::checked

pub mod convert {
    use super::*;

    /// argument of `Prob::checked`
    #[derive(Serialize, Deserialize, Debug, Clone, Copy, PartialEq)]
    pub enum X {
        NaN,
        PosInf,
        NegInf,
        NegZero,
        Zero,
        One,
        /// 1 + 2^-52
        OnePlusEps,
        /// 1 - 2^-53
        OneMinusEps,
        /// 5e-324
        MinPos,
        /// -5e-324
        NegMinPos,
        /// k / 2^32, in [0, 1)
        Frac(u32),
        /// -(k+1)/1000
        Neg(u32),
        /// 1 + (k+1)/1000
        Above(u32),
        /// +-1e308
        Huge(bool),
    }

    impl X {
        pub fn v(self) -> f64 {
            match self {
                X::NaN => f64::NAN,
                X::PosInf => f64::INFINITY,
                X::NegInf => f64::NEG_INFINITY,
                X::NegZero => -0.0,
                X::Zero => 0.0,
                X::One => 1.0,
                X::OnePlusEps => 1.0 + f64::EPSILON,
                X::OneMinusEps => 1.0 - f64::EPSILON / 2.0,
                X::MinPos => f64::from_bits(1),
                X::NegMinPos => -f64::from_bits(1),
                X::Frac(k) => k as f64 / 4294967296.0,
                X::Neg(k) => -((k as f64 + 1.0) / 1000.0),
                X::Above(k) => 1.0 + (k as f64 + 1.0) / 1000.0,
                X::Huge(neg) => if neg { -1e308 } else { 1e308 },
            }
        }
    }

    /// PHRED value
    #[derive(Serialize, Deserialize, Debug, Clone, Copy, PartialEq)]
    pub enum Q {
        /// +inf = probability 0
        Inf,
        /// k/1000, up to 2000 = probability 1e-200
        Milli(u32),
    }

    impl Q {
        pub fn v(self) -> f64 {
            match self {
                Q::Inf => f64::INFINITY,
                Q::Milli(k) => k as f64 / 1e3,
            }
        }
    }

    #[derive(Serialize, Deserialize, Debug, Clone)]
    pub struct Case {
        /// log-probability in {ln 0} u [ln 1e-200, 0]; the probability is p = exp(l)
        pub l: L,
        pub q: Q,
        pub x: X,
    }

    fn close_rel(got: f64, want: f64, tol: f64) -> bool {
        if got.is_nan() || want.is_nan() {
            return false;
        }
        if got == want {
            return true; // covers 0 and the infinities
        }
        (got - want).abs() <= tol * want.abs()
    }
    /// for values on a logarithmic scale: absolute below 1, relative above
    fn close_log(got: f64, want: f64, tol: f64) -> bool {
        if got.is_nan() || want.is_nan() {
            return false;
        }
        if got == want {
            return true;
        }
        (got - want).abs() <= tol * want.abs().max(1.0)
    }

    /// worst relative error of the paths through the fast exponential
    pub fn eval(c: &Case) -> Result<(Pass, f64), Stop> {
        let l = c.l.v();
        ensure!(l == f64::NEG_INFINITY || (l <= 0.0 && l >= -460.6), "harness: l outside the stated range: {:?}", c.l);
        let p = l.exp(); // an arbitrary probability in {0} u [1e-200, 1]
        let mut worst: f64 = 0.0;
        // flush-to-zero slack of the fast exponential below e^-500 (documented constant MIN_VAL)
        let slack = 1e-200;

        // ---- starting from Prob(p)
        let lp = LogProb::from(Prob(p));
        ensure!(!lp.is_nan(), "LogProb::from(Prob({:e})) is NaN", p);
        ensure!(close_log(*lp, p.ln(), TOL_EXACT), "LogProb::from(Prob({:e})) = {:e}, ln p = {:e}", p, *lp, p.ln());
        let back = *Prob::from(lp);
        ensure!(!back.is_nan() && (back - p).abs() <= TOL * p + slack, "Prob -> LogProb -> Prob: {:e} -> {:e} -> {:e} (relative error {:e} > {})", p, *lp, back, (back - p).abs() / p, TOL);
        if p > 0.0 {
            worst = worst.max((back - p).abs() / p);
        }
        let ph = PHREDProb::from(Prob(p));
        ensure!(!ph.is_nan(), "PHREDProb::from(Prob({:e})) is NaN", p);
        ensure!(close_log(*ph, -10.0 * p.log10(), TOL_EXACT), "PHREDProb::from(Prob({:e})) = {:e}, -10 log10 p = {:e}", p, *ph, -10.0 * p.log10());
        let back = *Prob::from(ph);
        ensure!(close_rel(back, p, TOL_EXACT), "Prob -> PHRED -> Prob: {:e} -> {:e} -> {:e}", p, *ph, back);
        // Prob -> LogProb -> PHRED -> Prob  (no approximate exponential)
        let ph2 = PHREDProb::from(lp);
        ensure!(close_log(*ph2, *ph, TOL_EXACT), "Prob({:e}) -> LogProb -> PHRED = {:e} but Prob -> PHRED = {:e}", p, *ph2, *ph);
        let back = *Prob::from(ph2);
        ensure!(close_rel(back, p, TOL_EXACT), "Prob -> LogProb -> PHRED -> Prob: {:e} -> {:e} -> {:e} -> {:e}", p, *lp, *ph2, back);
        // Prob -> PHRED -> LogProb -> Prob  (fast exponential)
        let lp2 = LogProb::from(ph);
        ensure!(close_log(*lp2, *lp, TOL_EXACT), "Prob({:e}) -> PHRED -> LogProb = {:e} but Prob -> LogProb = {:e}", p, *lp2, *lp);
        let back = *Prob::from(lp2);
        ensure!(!back.is_nan() && (back - p).abs() <= TOL * p + slack, "Prob -> PHRED -> LogProb -> Prob: {:e} -> {:e} -> {:e} -> {:e}", p, *ph, *lp2, back);
        if p > 0.0 {
            worst = worst.max((back - p).abs() / p);
        }

        // ---- starting from LogProb(l)
        let ph = PHREDProb::from(LogProb(l));
        let l2 = *LogProb::from(ph);
        ensure!(close_log(l2, l, TOL_EXACT), "LogProb -> PHRED -> LogProb: {:e} -> {:e} -> {:e}", l, *ph, l2);
        ensure!(close_log(*ph, -10.0 * l / std::f64::consts::LN_10, TOL_EXACT), "PHREDProb::from(LogProb({:e})) = {:e}, expected -10 l / ln 10 = {:e}", l, *ph, -10.0 * l / std::f64::consts::LN_10);
        let pr = *Prob::from(LogProb(l));
        ensure!(!pr.is_nan() && (pr - p).abs() <= TOL * p + slack, "Prob::from(LogProb({:e})) = {:e}, exp = {:e} (relative error {:e} > {})", l, pr, p, (pr - p).abs() / p, TOL);
        if p > 0.0 {
            worst = worst.max((pr - p).abs() / p);
        }

        // ---- starting from PHREDProb(q)
        let q = c.q.v();
        let pq = 10f64.powf(-q / 10.0);
        let lq = LogProb::from(PHREDProb(q));
        ensure!(close_log(*lq, -q * std::f64::consts::LN_10 / 10.0, TOL_EXACT), "LogProb::from(PHREDProb({})) = {:e}, expected -q ln(10)/10 = {:e}", q, *lq, -q * std::f64::consts::LN_10 / 10.0);
        let q2 = *PHREDProb::from(lq);
        ensure!(close_log(q2, q, TOL_EXACT), "PHRED -> LogProb -> PHRED: {} -> {:e} -> {}", q, *lq, q2);
        let pr = *Prob::from(lq);
        ensure!(!pr.is_nan() && (pr - pq).abs() <= TOL * pq + slack, "PHRED -> LogProb -> Prob: {} -> {:e} -> {:e}, 10^(-q/10) = {:e}", q, *lq, pr, pq);
        if pq > 0.0 {
            worst = worst.max((pr - pq).abs() / pq);
        }
        let pr = *Prob::from(PHREDProb(q));
        ensure!(close_rel(pr, pq, TOL_EXACT), "Prob::from(PHREDProb({})) = {:e}, 10^(-q/10) = {:e}", q, pr, pq);
        let q3 = *PHREDProb::from(Prob(pr));
        ensure!(close_log(q3, q, TOL_EXACT), "PHRED -> Prob -> PHRED: {} -> {:e} -> {}", q, pr, q3);

        // ---- checked construction accepts exactly [0, 1]
        let x = c.x.v();
        let inside = x >= 0.0 && x <= 1.0; // false for NaN; true for -0.0 (== 0)
        match Prob::checked(x) {
            Ok(pr) => {
                ensure!(inside, "Prob::checked({:?} = {:e}) accepted a value outside [0,1]", c.x, x);
                ensure!(*pr == x, "Prob::checked({:e}) returned a different value {:e}", x, *pr);
            }
            Err(_) => ensure!(!inside, "Prob::checked({:?} = {:e}) rejected a value inside [0,1]", c.x, x),
        }

        let mut pass = Pass::new(p > 0.0 && p < 1.0);
        pass.add_if(p == 0.0, "p = 0");
        pass.add_if(p == 1.0, "p = 1");
        pass.add_if(p > 0.0 && p < 1e-100, "p < 1e-100");
        pass.add_if(p > 0.5 && p < 1.0, "p in (0.5, 1)");
        pass.add_if(c.q == Q::Inf, "PHRED +inf");
        pass.add_if(q == 0.0, "PHRED 0");
        pass.add_if(q > 1000.0 && q.is_finite(), "PHRED > 1000");
        pass.add("Prob->LogProb->Prob");
        pass.add("Prob->PHRED->Prob");
        pass.add("Prob->LogProb->PHRED->Prob");
        pass.add("Prob->PHRED->LogProb->Prob");
        pass.add("LogProb->PHRED->LogProb");
        pass.add("PHRED->LogProb->PHRED / ->Prob");
        pass.add_if(!inside, "checked() rejects");
        pass.add_if(inside, "checked() accepts");
        pass.add_if(x.is_nan(), "checked(NaN)");
        pass.add_if(c.x == X::NegZero, "checked(-0.0)");
        pass.add_if(matches!(c.x, X::OnePlusEps | X::NegMinPos), "checked(nearest outside value)");
        pass.add_if(matches!(c.x, X::One | X::Zero | X::OneMinusEps | X::MinPos), "checked(boundary inside)");
        pass.add_if(x.is_infinite(), "checked(+-inf)");
        Ok((pass, worst))
    }

    pub fn check(c: &Case) -> R {
        eval(c).map(|x| x.0)
    }

    pub fn strat(_t: Tier) -> BoxedStrategy<Case> {
        let l = prop_oneof![
            1 => Just(L::Zero),
            1 => Just(L::Milli(0)),
            8 => (0..=K_1E200).prop_map(L::Milli),
            4 => (0..=3_000_000u32).prop_map(L::Micro),
            2 => (0..=1_000_000u32).prop_map(L::Nano),
        ];
        let q = prop_oneof![1 => Just(Q::Inf), 1 => Just(Q::Milli(0)), 6 => (0..=100_000u32).prop_map(Q::Milli), 4 => (0..=2_000_000u32).prop_map(Q::Milli)];
        let x = prop_oneof![
            1 => Just(X::NaN), 1 => Just(X::PosInf), 1 => Just(X::NegInf), 1 => Just(X::NegZero), 1 => Just(X::Zero), 1 => Just(X::One),
            1 => Just(X::OnePlusEps), 1 => Just(X::OneMinusEps), 1 => Just(X::MinPos), 1 => Just(X::NegMinPos),
            6 => any::<u32>().prop_map(X::Frac),
            3 => (0u32..=100_000).prop_map(X::Neg),
            3 => (0u32..=100_000).prop_map(X::Above),
            1 => any::<bool>().prop_map(X::Huge),
        ];
        (l, q, x).prop_map(|(l, q, x)| Case { l, q, x }).boxed()
    }
}

pub fn property() -> Property {
    Property {
        id: "C15",
        rule: "binary: pairs of LogProbs (ln 0, ln 1, log-uniform over [1e-200,1], fine-grained near ln 1, some below 1e-200; independent, equal, a few units apart, differences straddling the switch point 0.693 of ln_1m_exp and the fastexp cut-off 500) through ln_add_exp (both orders), ln_sub_exp (larger first), ln_one_minus_exp; lists: 0..=200 LogProbs (narrow band, wide band, all equal, with ln 0 entries) through ln_sum_exp and ln_cumsum_exp; integrate: trapezoid / Simpson (odd n) with n in 3..=201 points and trapezoid on random increasing grids over constant, Gaussian, exponential and Beta-like log-densities; convert: every composition of the Prob/LogProb/PHRED conversions on p in {0} u [1e-200,1] and PHRED in [0,2000] u {inf}, Prob::checked on boundary, neighbouring, special and random values. Oracle: the same formula in plain f64, both sides divided by the largest operand (|exp(result - lmax) - sum exp(l_i - lmax)| <= 0.005, the property's 0.5 % of the largest operand, evaluated without underflow); ln 0 neutral (unchanged within 1e-12 in log space); never NaN; conversions through the fast exponential within 0.5 % relative, all others within 1e-9; checked() accepts exactly [0,1]. Non-trivial: binary = two finite operands less than 40 apart; lists = length >= 3 with >= 2 finite entries; integrate = every case; convert = 0 < p < 1. Distinct = distinct serialised case.",
        assumptions: &[
            "ln_sub_exp is only called with first operand >= second (it asserts this: a negative probability has no logarithm)",
            "lists have at most 200 entries and integration grids at most 201 points: the accumulated error of the fast exponential (n-1)*8.9e-6 then stays inside the stated 0.5 %",
            "integration bounds satisfy a < b, grids are strictly increasing, Simpson is called with odd n (it asserts this)",
            "conversions through the fast exponential are checked for p >= 1e-200 (below e^-500 the fast exponential documents a flush to zero)",
        ],
        subs: vec![
            Box::new(PropSub {
                name: "C15/binary",
                quick: 1_600_000,
                thorough: 32_000_000,
                shards_quick: 16,
                shards_thorough: 16,
                strat: binary::strat,
                check: binary::check,
                must_reach: &[
                    "operands > 40 apart",
                    "equal operands",
                    "one operand ln(0)",
                    "both ln(0)",
                    "ln_sub_exp at the switch point of ln_1m_exp",
                    "just above the switch point (-0.693)",
                    "just below the switch point (-0.693)",
                    "difference beyond the fastexp cut-off (500)",
                    "operand ln(1)",
                ],
                watch: false,
            }),
            Box::new(PropSub {
                name: "C15/lists",
                quick: 128_000,
                thorough: 3_000_000,
                shards_quick: 16,
                shards_thorough: 16,
                strat: lists::strat,
                check: lists::check,
                must_reach: &["empty list", "length 1", "length 200", "contains ln(0) entries", "all entries ln(0)", "maximum not first", "spread < 5 (every entry matters)", "spread > 40"],
                watch: false,
            }),
            Box::new(PropSub {
                name: "C15/long-tail-lists",
                quick: 16_000,
                thorough: 400_000,
                shards_quick: 16,
                shards_thorough: 16,
                strat: longlists::strat,
                check: longlists::check,
                must_reach: &["tail carries more than 0.5 percent of the sum", "tail > 0.5 percent although every tail entry is < 1e-5 of the largest", "1000+ entries", "dominant entry last"],
                watch: false,
            }),
            Box::new(PropSub {
                name: "C15/integrate",
                quick: 192_000,
                thorough: 3_000_000,
                shards_quick: 16,
                shards_thorough: 16,
                strat: integrate::strat,
                check: integrate::check,
                must_reach: &["trapezoid", "simpson", "trapezoid on grid", "constant density", "gaussian density", "exponential density", "beta-like density", "n=3", "n=201", "density zero at a node"],
                watch: false,
            }),
            Box::new(PropSub {
                name: "C15/convert",
                quick: 640_000,
                thorough: 12_000_000,
                shards_quick: 16,
                shards_thorough: 16,
                strat: convert::strat,
                check: convert::check,
                must_reach: &["p = 0", "p = 1", "PHRED +inf", "checked() rejects", "checked() accepts", "checked(NaN)", "checked(-0.0)", "checked(nearest outside value)", "checked(boundary inside)", "checked(+-inf)"],
                watch: false,
            }),
        ],
    }
}
