//! C15 — log-space probability arithmetic agrees with linear-space arithmetic.
//!
//! All comparisons are made *relative to the largest operand* as the property states:
//! |image(result) - reference| <= 0.005 * largest operand.  To keep the comparison meaningful
//! for operands whose linear image underflows f64, both sides are divided by the largest
//! operand before leaving log space:  |exp(result - lmax) - sum_i exp(l_i - lmax)| <= 0.005.
//! That is the same inequality, evaluated without underflow.
//!
//! Why 0.5 % is sound: `fastexp` has a measured maximal relative error of 8.9e-6; a sum of n
//! terms accumulates at most (n-1)*8.9e-6 of the largest operand, i.e. 0.18 % for the list /
//! grid cap of 201 entries.

use crate::engine::*;
use crate::ensure;
use bio::stats::{LogProb, PHREDProb, Prob};
use proptest::prelude::*;
use serde::{Deserialize, Serialize};

/// the property's bound: 0.5 percent of the largest operand
pub const TOL: f64 = 0.005;
/// bound where no approximate exponential is involved
pub const TOL_EXACT: f64 = 1e-9;
/// ln(0) must be neutral: tolerance in log space for "unchanged"
const NEUTRAL_EPS: f64 = 1e-12;

/// A log-probability in [-inf, 0], integer encoded (exact through JSON, shrinks towards ln 1).
#[derive(Serialize, Deserialize, Debug, Clone, Copy, PartialEq)]
pub enum L {
    /// ln 0 = -inf
    Zero,
    /// -k / 1e3
    Milli(u32),
    /// -k / 1e6
    Micro(u32),
    /// -k / 1e9
    Nano(u32),
}

impl L {
    pub fn v(self) -> f64 {
        match self {
            L::Zero => f64::NEG_INFINITY,
            L::Milli(k) => 0.0 - k as f64 / 1e3,
            L::Micro(k) => 0.0 - k as f64 / 1e6,
            L::Nano(k) => 0.0 - k as f64 / 1e9,
        }
    }
    pub fn lp(self) -> LogProb {
        LogProb(self.v())
    }
}

/// ln(1e-200): the design's lower end of the log-uniform range
const K_1E200: u32 = 460_517;

pub fn lval() -> BoxedStrategy<L> {
    prop_oneof![
        2 => Just(L::Zero),
        2 => Just(L::Milli(0)),
        8 => (0..=K_1E200).prop_map(L::Milli),
        4 => (0..=3_000_000u32).prop_map(L::Micro),
        2 => (0..=1_000_000u32).prop_map(L::Nano),
        1 => (0..=2_000u32).prop_map(L::Nano),
        1 => (K_1E200..=1_500_000u32).prop_map(L::Milli),
        2 => (692_900..=693_250u32).prop_map(L::Micro),
    ]
    .boxed()
}

/// finite values only
fn lfinite() -> BoxedStrategy<L> {
    lval().prop_map(|l| if l == L::Zero { L::Milli(1) } else { l }).boxed()
}

fn fmt_l(l: L) -> String {
    format!("{:?}={:e}", l, l.v())
}

// ===========================================================================
// binary: ln_add_exp, ln_sub_exp, ln_one_minus_exp

pub mod binary {
    use super::*;

    #[derive(Serialize, Deserialize, Debug, Clone)]
    pub struct Case {
        pub p: L,
        pub q: L,
    }

    /// returns the scaled absolute error
    pub fn add_err(name: &str, a: L, b: L, r: f64) -> Result<f64, Stop> {
        let (x, y) = (a.v(), b.v());
        ensure!(!r.is_nan(), "{}({}, {}) = NaN", name, fmt_l(a), fmt_l(b));
        let hi = x.max(y);
        let lo = x.min(y);
        if hi == f64::NEG_INFINITY {
            ensure!(r == f64::NEG_INFINITY, "{}(ln 0, ln 0) = {} instead of ln 0", name, r);
            return Ok(0.0);
        }
        let reference = 1.0 + (lo - hi).exp();
        let img = (r - hi).exp();
        let err = (img - reference).abs();
        ensure!(
            err <= TOL,
            "{}({}, {}) = {:e}: image / largest operand = {:e}, linear reference (p+q)/max = {:e}, difference {:e} > {}",
            name, fmt_l(a), fmt_l(b), r, img, reference, err, TOL
        );
        if lo == f64::NEG_INFINITY {
            ensure!((r - hi).abs() <= NEUTRAL_EPS * hi.abs().max(1.0), "ln 0 is not neutral: {}({}, {}) = {:e}", name, fmt_l(a), fmt_l(b), r);
        }
        Ok(err)
    }

    pub fn sub_err(hi: L, lo: L, r: f64) -> Result<f64, Stop> {
        let (x, y) = (hi.v(), lo.v());
        ensure!(!r.is_nan(), "ln_sub_exp({}, {}) = NaN", fmt_l(hi), fmt_l(lo));
        if x == f64::NEG_INFINITY {
            ensure!(r == f64::NEG_INFINITY, "ln_sub_exp(ln 0, ln 0) = {} instead of ln 0", r);
            return Ok(0.0);
        }
        let reference = 1.0 - (y - x).exp();
        let img = (r - x).exp();
        let err = (img - reference).abs();
        ensure!(
            err <= TOL,
            "ln_sub_exp({}, {}) = {:e}: image / largest operand = {:e}, linear reference (p-q)/p = {:e}, difference {:e} > {}",
            fmt_l(hi), fmt_l(lo), r, img, reference, err, TOL
        );
        if y == f64::NEG_INFINITY {
            ensure!((r - x).abs() <= NEUTRAL_EPS * x.abs().max(1.0), "ln 0 is not neutral: ln_sub_exp({}, ln 0) = {:e}", fmt_l(hi), r);
        }
        Ok(err)
    }

    pub fn one_minus_err(a: L, r: f64) -> Result<f64, Stop> {
        ensure!(!r.is_nan(), "ln_one_minus_exp({}) = NaN", fmt_l(a));
        // operands: 1 and p; the largest is 1
        let reference = -a.v().exp_m1();
        let img = r.exp();
        let err = (img - reference).abs();
        ensure!(err <= TOL, "ln_one_minus_exp({}) = {:e}: image {:e}, linear reference 1-p = {:e}, difference {:e} > {}", fmt_l(a), r, img, reference, err, TOL);
        Ok(err)
    }

    pub fn eval(c: &Case) -> Result<(Pass, f64), Stop> {
        let (p, q) = (c.p, c.q);
        let mut worst: f64 = 0.0;
        worst = worst.max(add_err("ln_add_exp", p, q, *p.lp().ln_add_exp(q.lp()))?);
        worst = worst.max(add_err("ln_add_exp", q, p, *q.lp().ln_add_exp(p.lp()))?);
        let (hi, lo) = if p.v() >= q.v() { (p, q) } else { (q, p) };
        worst = worst.max(sub_err(hi, lo, *hi.lp().ln_sub_exp(lo.lp()))?);
        worst = worst.max(one_minus_err(p, *p.lp().ln_one_minus_exp())?);
        worst = worst.max(one_minus_err(q, *q.lp().ln_one_minus_exp())?);

        let d = (p.v() - q.v()).abs(); // NaN when both are -inf
        let both_zero = p == L::Zero && q == L::Zero;
        let one_zero = (p == L::Zero) != (q == L::Zero);
        let mut pass = Pass::new(!both_zero && !one_zero && d < 40.0);
        pass.add_if(both_zero, "both ln(0)");
        pass.add_if(one_zero, "one operand ln(0)");
        pass.add_if(!both_zero && !one_zero && d == 0.0, "equal operands");
        pass.add_if(d > 0.0 && d < 1e-3, "operands closer than 1e-3");
        pass.add_if(d > 0.0 && d < 40.0, "0 < difference < 40");
        pass.add_if(d >= 40.0 && d.is_finite(), "operands > 40 apart");
        pass.add_if(d >= 500.0 && d.is_finite(), "difference beyond the fastexp cut-off (500)");
        pass.add_if(d > 0.6925 && d < 0.6935, "ln_sub_exp at the switch point of ln_1m_exp");
        pass.add_if((d > 0.6925 && d < 0.693) || [p, q].iter().any(|l| l.v() > -0.693 && l.v() < -0.6925), "just above the switch point (-0.693)");
        pass.add_if((d >= 0.693 && d < 0.6935) || [p, q].iter().any(|l| l.v() <= -0.693 && l.v() > -0.6935), "just below the switch point (-0.693)");
        pass.add_if([p, q].iter().any(|l| l.v() == 0.0), "operand ln(1)");
        pass.add_if([p, q].iter().any(|l| l.v() < -460.6 && l.v().is_finite()), "operand below 1e-200");
        pass.add_if([p, q].iter().any(|l| l.v() < -745.2 && l.v().is_finite()), "operand whose linear image underflows f64");
        pass.add_if([p, q].iter().any(|l| l.v() > -1e-6 && l.v() < 0.0), "operand within 1e-6 of ln(1)");
        Ok((pass, worst))
    }

    pub fn check(c: &Case) -> R {
        eval(c).map(|x| x.0)
    }

    fn shifted(l: L, d: u32) -> L {
        match l {
            L::Zero => L::Zero,
            L::Milli(k) => L::Milli(k.saturating_add(d)),
            L::Micro(k) => L::Micro(k.saturating_add(d)),
            L::Nano(k) => L::Nano(k.saturating_add(d)),
        }
    }

    pub fn strat(_t: Tier) -> BoxedStrategy<Case> {
        prop_oneof![
            // independent operands
            6 => (lval(), lval()).prop_map(|(p, q)| Case { p, q }),
            // equal operands
            2 => lval().prop_map(|p| Case { p, q: p }),
            // same unit, difference d units: near pairs (the small operand matters)
            5 => (lfinite(), 0u32..=40_000, any::<bool>()).prop_map(|(p, d, sw)| {
                let q = shifted(p, d);
                if sw { Case { p: q, q: p } } else { Case { p, q } }
            }),
            // tiny differences
            2 => (lfinite(), 0u32..=3, any::<bool>()).prop_map(|(p, d, sw)| {
                let q = shifted(p, d);
                if sw { Case { p: q, q: p } } else { Case { p, q } }
            }),
            // difference straddling the switch point ln 2 ~ 0.693 of ln_1m_exp (micro units)
            3 => (0u32..=2_000_000, 692_900u32..=693_250, any::<bool>()).prop_map(|(k, d, sw)| {
                let (p, q) = (L::Micro(k), L::Micro(k + d));
                if sw { Case { p: q, q: p } } else { Case { p, q } }
            }),
            // far apart, including around the fastexp cut-off at 500
            2 => (0u32..=K_1E200, prop_oneof![40_000u32..=460_000, 499_000u32..=501_000, 501_000u32..=1_000_000], any::<bool>()).prop_map(|(k, d, sw)| {
                let (p, q) = (L::Milli(k), L::Milli(k + d));
                if sw { Case { p: q, q: p } } else { Case { p, q } }
            }),
        ]
        .boxed()
    }
}

// ===========================================================================
// lists: ln_sum_exp, ln_cumsum_exp

pub mod lists {
    use super::*;

    #[derive(Serialize, Deserialize, Debug, Clone)]
    pub struct Case {
        pub xs: Vec<L>,
    }

    fn show(xs: &[L]) -> String {
        if xs.len() <= 12 {
            format!("{:?}", xs)
        } else {
            format!("[{} entries: {:?} ...]", xs.len(), &xs[..12])
        }
    }

    fn scaled_sum(vals: &[f64]) -> (f64, f64) {
        let mx = vals.iter().cloned().fold(f64::NEG_INFINITY, f64::max);
        if mx == f64::NEG_INFINITY {
            return (mx, 0.0);
        }
        (mx, vals.iter().map(|v| (v - mx).exp()).sum())
    }

    pub fn eval(c: &Case) -> Result<(Pass, f64), Stop> {
        ensure!(c.xs.len() <= 200, "harness: list longer than the stated cap of 200");
        let vals: Vec<f64> = c.xs.iter().map(|l| l.v()).collect();
        let lps: Vec<LogProb> = vals.iter().map(|&v| LogProb(v)).collect();
        let mut worst: f64 = 0.0;

        // n-ary sum
        let r = *LogProb::ln_sum_exp(&lps);
        ensure!(!r.is_nan(), "ln_sum_exp({}) = NaN", show(&c.xs));
        let (mx, reference) = scaled_sum(&vals);
        if mx == f64::NEG_INFINITY {
            ensure!(r == f64::NEG_INFINITY, "ln_sum_exp({}) = {} instead of ln 0", show(&c.xs), r);
        } else {
            let img = (r - mx).exp();
            let err = (img - reference).abs();
            worst = worst.max(err);
            ensure!(err <= TOL, "ln_sum_exp({}) = {:e}: image / largest operand = {:e}, linear sum / largest operand = {:e}, difference {:e} > {}", show(&c.xs), r, img, reference, err, TOL);
        }
        // ln 0 entries are neutral: same sum without them
        let nz: Vec<LogProb> = lps.iter().cloned().filter(|p| **p != f64::NEG_INFINITY).collect();
        if nz.len() != lps.len() {
            let r2 = *LogProb::ln_sum_exp(&nz);
            ensure!(!r2.is_nan(), "ln_sum_exp without the ln 0 entries of {} = NaN", show(&c.xs));
            ensure!(
                (r == r2) || (r - r2).abs() <= NEUTRAL_EPS * r.abs().max(1.0),
                "ln 0 is not neutral in ln_sum_exp: {} gives {:e}, without the ln 0 entries {:e}",
                show(&c.xs), r, r2
            );
        }

        // cumulative sum
        let cs: Vec<f64> = LogProb::ln_cumsum_exp(lps.iter().cloned()).take(lps.len() + 2).map(|p| *p).collect();
        ensure!(cs.len() == lps.len(), "ln_cumsum_exp yields {} values for {} inputs ({})", cs.len(), lps.len(), show(&c.xs));
        let mut run_max = f64::NEG_INFINITY;
        for k in 0..cs.len() {
            ensure!(!cs[k].is_nan(), "ln_cumsum_exp({})[{}] = NaN", show(&c.xs), k);
            run_max = run_max.max(vals[k]);
            if run_max == f64::NEG_INFINITY {
                ensure!(cs[k] == f64::NEG_INFINITY, "ln_cumsum_exp({})[{}] = {} instead of ln 0", show(&c.xs), k, cs[k]);
                continue;
            }
            let reference: f64 = vals[..=k].iter().map(|v| (v - run_max).exp()).sum();
            let img = (cs[k] - run_max).exp();
            let err = (img - reference).abs();
            worst = worst.max(err);
            ensure!(
                err <= TOL,
                "ln_cumsum_exp({})[{}] = {:e}: image / largest operand so far = {:e}, linear prefix sum / largest = {:e}, difference {:e} > {}",
                show(&c.xs), k, cs[k], img, reference, err, TOL
            );
            if vals[k] == f64::NEG_INFINITY && k > 0 {
                ensure!(
                    cs[k] == cs[k - 1] || (cs[k] - cs[k - 1]).abs() <= NEUTRAL_EPS * cs[k].abs().max(1.0),
                    "ln 0 is not neutral in ln_cumsum_exp({}): [{}] = {:e}, [{}] = {:e}",
                    show(&c.xs), k - 1, cs[k - 1], k, cs[k]
                );
            }
        }

        let n = c.xs.len();
        let nzero = c.xs.iter().filter(|l| **l == L::Zero).count();
        let finite: Vec<f64> = vals.iter().cloned().filter(|v| v.is_finite()).collect();
        let spread = finite.iter().cloned().fold(f64::NEG_INFINITY, f64::max) - finite.iter().cloned().fold(f64::INFINITY, f64::min);
        let argmax_first = !finite.is_empty() && vals[0] == mx;
        let mut pass = Pass::new(n >= 3 && finite.len() >= 2);
        pass.add_if(n == 0, "empty list");
        pass.add_if(n == 1, "length 1");
        pass.add_if(n == 2, "length 2");
        pass.add_if((3..=20).contains(&n), "length 3..20");
        pass.add_if((21..200).contains(&n), "length 21..199");
        pass.add_if(n == 200, "length 200");
        pass.add_if(nzero > 0 && nzero < n, "contains ln(0) entries");
        pass.add_if(n > 0 && nzero == n, "all entries ln(0)");
        pass.add_if(n > 0 && c.xs[0] == L::Zero && nzero < n, "leading ln(0)");
        pass.add_if(finite.len() >= 2 && spread == 0.0, "all finite entries equal");
        pass.add_if(finite.len() >= 2 && spread > 0.0 && spread < 5.0, "spread < 5 (every entry matters)");
        pass.add_if(finite.len() >= 2 && spread > 40.0, "spread > 40");
        pass.add_if(finite.len() >= 2 && spread > 500.0, "spread > 500");
        pass.add_if(finite.len() >= 2 && !argmax_first, "maximum not first");
        pass.add_if(finite.len() >= 2 && vals.iter().filter(|&&v| v == mx).count() >= 2, "maximum attained twice");
        Ok((pass, worst))
    }

    pub fn check(c: &Case) -> R {
        eval(c).map(|x| x.0)
    }

    fn len() -> BoxedStrategy<usize> {
        prop_oneof![1 => Just(0usize), 2 => Just(1usize), 2 => Just(2usize), 10 => 3usize..=20, 5 => 21usize..=199, 3 => Just(200usize)].boxed()
    }

    pub fn strat(_t: Tier) -> BoxedStrategy<Case> {
        len()
            .prop_flat_map(|n| {
                prop_oneof![
                    // anything
                    3 => proptest::collection::vec(lval(), n),
                    // narrow band around a base value, with some ln 0 entries
                    5 => (0u32..=K_1E200, 1u32..=5_000).prop_flat_map(move |(base, w)| {
                        proptest::collection::vec(prop_oneof![1 => Just(L::Zero), 9 => (0..=w).prop_map(move |d| L::Milli(base + d))], n)
                    }),
                    // all equal (worst case for the number of relevant terms)
                    1 => lval().prop_map(move |l| vec![l; n]),
                    // wide band
                    2 => (0u32..=K_1E200).prop_flat_map(move |base| {
                        proptest::collection::vec(prop_oneof![1 => Just(L::Zero), 9 => (0..=60_000u32).prop_map(move |d| L::Milli(base + d))], n)
                    }),
                    // fine-grained near ln 1
                    1 => proptest::collection::vec((0..=2_000_000u32).prop_map(L::Micro), n),
                ]
            })
            .prop_map(|xs| Case { xs })
            .boxed()
    }
}

// ===========================================================================
// integrate: trapezoid, Simpson, trapezoid on a grid


pub mod longlists {
    //! Long lists with one dominant entry and a long tail of small ones. The sum divided by the
    //! largest operand stays below ~250, so the accumulated error bound of the fast exponential
    //! (8.9e-6 per unit of that ratio) stays inside the stated 0.5 percent; but thousands of
    //! individually negligible entries add up to a visible share of the result.
    use super::*;

    #[derive(Serialize, Deserialize, Debug, Clone)]
    pub struct Case {
        /// log value of the dominant entry, in thousandths
        pub top_milli: i64,
        /// number of tail entries
        pub n: u32,
        /// distance of the tail below the dominant entry, in thousandths of a nat (>= 3000)
        pub base_off_milli: u32,
        /// per-entry extra distance, cycled over the tail
        pub jitter_milli: Vec<u16>,
        /// position of the dominant entry as a fraction of the list
        pub top_pos: u16,
    }

    pub fn check(c: &Case) -> R {
        ensure!(c.base_off_milli >= 3000 && c.n <= 6000 && c.top_milli <= 0, "harness: case outside the long-list domain");
        let top = c.top_milli as f64 / 1000.0;
        let n = c.n as usize;
        let mut vals: Vec<f64> = (0..n)
            .map(|i| {
                let j = if c.jitter_milli.is_empty() { 0 } else { c.jitter_milli[i % c.jitter_milli.len()] as u32 };
                top - (c.base_off_milli + j) as f64 / 1000.0
            })
            .collect();
        let pos = crate::engine::gen::idx(c.top_pos, n);
        vals.insert(pos, top);
        let lps: Vec<LogProb> = vals.iter().map(|&v| LogProb(v)).collect();
        let reference: f64 = vals.iter().map(|v| (v - top).exp()).sum();
        let r = *LogProb::ln_sum_exp(&lps);
        ensure!(!r.is_nan(), "ln_sum_exp of a list of {} entries = NaN ({:?})", vals.len(), c);
        let img = (r - top).exp();
        let err = (img - reference).abs();
        ensure!(err <= TOL, "ln_sum_exp of {} entries (dominant {:e} at index {}, tail {}..{} nats below): image / largest operand = {:e}, linear sum / largest operand = {:e}, difference {:e} > {} ({:?})", vals.len(), top, pos, c.base_off_milli as f64 / 1000.0, (c.base_off_milli as f64 + 65535.0) / 1000.0, img, reference, err, TOL, c);
        // the last element of the cumulative sum is the same quantity
        let last = LogProb::ln_cumsum_exp(lps.iter().cloned()).take(lps.len() + 2).last().map(|p| *p);
        if let Some(l) = last {
            let img2 = (l - top).exp();
            let err2 = (img2 - reference).abs();
            ensure!(err2 <= TOL, "last element of ln_cumsum_exp over {} entries: image / largest operand = {:e}, linear sum / largest = {:e}, difference {:e} > {} ({:?})", vals.len(), img2, reference, err2, TOL, c);
        }
        let tail_share = (reference - 1.0) / reference;
        Ok(Pass::new(n >= 100)
            .class_if(tail_share > 0.005, "tail carries more than 0.5 percent of the sum")
            .class_if(tail_share > 0.005 && c.base_off_milli >= 11_600, "tail > 0.5 percent although every tail entry is < 1e-5 of the largest")
            .class_if(tail_share <= 0.005, "tail below the tolerance")
            .class_if(n >= 1000, "1000+ entries")
            .class_if(pos == 0, "dominant entry first")
            .class_if(pos == n, "dominant entry last")
            .class_if(top < -50.0, "tiny probabilities (largest < e^-50)"))
    }

    pub fn strat(_t: Tier) -> BoxedStrategy<Case> {
        (
            prop_oneof![2 => Just(0i64), 3 => -5_000i64..=0, 2 => -700_000i64..=-5_000],
            prop_oneof![1 => 0u32..=99, 2 => 100u32..=999, 4 => 1000u32..=6000],
            prop_oneof![3 => 3_000u32..=9_000, 4 => 9_000u32..=11_600, 5 => 11_600u32..=13_500, 1 => 13_500u32..=40_000],
            proptest::collection::vec(0u16..=1500, 0..=6),
            prop_oneof![1 => Just(0u16), 1 => Just(u16::MAX), 2 => any::<u16>()],
        )
            .prop_map(|(top_milli, n, base_off_milli, jitter_milli, top_pos)| Case { top_milli, n, base_off_milli, jitter_milli, top_pos })
            .boxed()
    }
}

pub mod integrate {
    use super::*;

    #[derive(Serialize, Deserialize, Debug, Clone, Copy, PartialEq)]
    pub enum Dens {
        /// ln f(x) = c/1000
        Const { c_milli: i32 },
        /// normal density, mean mu/1000, standard deviation sigma/1000 (> 0)
        Gauss { mu_milli: i32, sigma_milli: u32 },
        /// lambda exp(-lambda x), lambda = rate/1000 (> 0)
        Expo { rate_milli: u32 },
        /// x^alpha (1-x)^beta on [0,1] (un-normalised Beta density; zero at the ends)
        Beta { alpha: u8, beta: u8 },
    }

    impl Dens {
        pub fn ln_f(&self, x: f64) -> f64 {
            match *self {
                Dens::Const { c_milli } => c_milli as f64 / 1e3,
                Dens::Gauss { mu_milli, sigma_milli } => {
                    let s = sigma_milli as f64 / 1e3;
                    let z = (x - mu_milli as f64 / 1e3) / s;
                    -0.5 * z * z - s.ln() - 0.5 * (2.0 * std::f64::consts::PI).ln()
                }
                Dens::Expo { rate_milli } => {
                    let l = rate_milli as f64 / 1e3;
                    l.ln() - l * x
                }
                Dens::Beta { alpha, beta } => {
                    let mut v = 0.0;
                    if alpha > 0 {
                        v += alpha as f64 * x.ln();
                    }
                    if beta > 0 {
                        v += beta as f64 * (1.0 - x).ln();
                    }
                    v
                }
            }
        }
    }

    #[derive(Serialize, Deserialize, Debug, Clone, PartialEq)]
    pub enum Rule {
        /// n equidistant points on [a, b], a = start/denom, b = (start+width)/denom
        Trapezoid { n: usize, width: u32 },
        /// n = 2*half + 1 equidistant points
        Simpson { half: usize, width: u32 },
        /// grid x_0 = start/denom, x_i = x_{i-1} + incs[i-1]/denom (incs >= 1)
        Grid { incs: Vec<u16> },
    }

    #[derive(Serialize, Deserialize, Debug, Clone)]
    pub struct Case {
        pub dens: Dens,
        pub rule: Rule,
        pub start: i32,
        pub denom: u32,
        /// the density handed to the integrator has the integration interval as its support: it is ln 0 for
        /// every x outside [a, b] (a truncated distribution / a prior with a support check). The quadrature
        /// rules only have nodes inside [a, b], so the reference value is unchanged.
        #[serde(default)]
        pub support_only: bool,
        /// Grid rule only: the density is a table over the caller's grid, looked up with the index argument the
        /// integrator announces (the grid is the caller's, so index i can only mean grid[i]); an index outside the
        /// grid yields NaN. Increments of 0 (repeated grid points, zero-width segments) are legal for this rule.
        #[serde(default)]
        pub table_density: bool,
    }

    /// compare `r` with sum_i exp(terms[i]) * exp(ln_factor), everything scaled by the largest term
    fn compare(what: &str, c: &Case, r: f64, terms: &[f64], ln_factor: f64) -> Result<f64, Stop> {
        ensure!(!r.is_nan(), "{} = NaN for {:?}", what, c);
        ensure!(terms.iter().all(|t| !t.is_nan() && *t != f64::INFINITY), "harness: reference operand NaN/inf for {:?}", c);
        let mx = terms.iter().cloned().fold(f64::NEG_INFINITY, f64::max);
        if mx == f64::NEG_INFINITY {
            ensure!(r == f64::NEG_INFINITY, "{} = {} for an everywhere-zero density, expected ln 0; {:?}", what, r, c);
            return Ok(0.0);
        }
        let reference: f64 = terms.iter().map(|t| (t - mx).exp()).sum();
        let img = (r - ln_factor - mx).exp();
        let err = (img - reference).abs();
        ensure!(
            err <= TOL,
            "{} = {:e} (linear {:e}); plain f64 quadrature on the same nodes gives {:e}; in units of the largest quadrature operand: {:e} vs {:e}, difference {:e} > {}; {:?}",
            what, r, r.exp(), (reference.ln() + mx + ln_factor).exp(), img, reference, err, TOL, c
        );
        Ok(err)
    }

    pub fn eval(c: &Case) -> Result<(Pass, f64), Stop> {
        ensure!(c.denom >= 1, "harness: denom 0");
        let den = c.denom as f64;
        let a = c.start as f64 / den;
        let dens = c.dens;
        let span: u32 = match &c.rule {
            Rule::Trapezoid { width, .. } | Rule::Simpson { width, .. } => *width,
            Rule::Grid { incs } => incs.iter().map(|&d| d as u32).sum(),
        };
        let b_end = match &c.rule {
            Rule::Grid { .. } => (c.start as i64 + span as i64) as f64 / den,
            _ => (c.start as f64 + span as f64) / den,
        };
        let support_only = c.support_only;
        let outside = std::cell::Cell::new(false);
        let density = |_i: usize, x: f64| {
            if support_only && (x < a || x > b_end) {
                outside.set(true);
                LogProb::ln_zero()
            } else {
                LogProb(dens.ln_f(x))
            }
        };
        let mut zero_at_node = false;
        let (err, n) = match &c.rule {
            Rule::Trapezoid { n, width } => {
                let n = *n;
                ensure!(n >= 3 && *width >= 1, "harness: bad trapezoid case {:?}", c);
                let b = (c.start as f64 + *width as f64) / den;
                let r = *LogProb::ln_trapezoidal_integrate_exp(density, a, b, n);
                let step = (b - a) / (n as f64 - 1.0);
                let mut terms = Vec::with_capacity(n);
                for i in 0..n {
                    let x = if i == n - 1 { b } else { a + step * i as f64 };
                    let w: f64 = if i == 0 || i == n - 1 { 1.0 } else { 2.0 };
                    let l = dens.ln_f(x);
                    zero_at_node |= l == f64::NEG_INFINITY;
                    terms.push(l + w.ln());
                }
                // integral = (b-a)/(2(n-1)) * sum w_i f_i
                (compare("ln_trapezoidal_integrate_exp", c, r, &terms, (b - a).ln() - (2.0 * (n as f64 - 1.0)).ln())?, n)
            }
            Rule::Simpson { half, width } => {
                let n = 2 * *half + 1;
                ensure!(n >= 3 && *width >= 1, "harness: bad simpson case {:?}", c);
                let b = (c.start as f64 + *width as f64) / den;
                let r = *LogProb::ln_simpsons_integrate_exp(density, a, b, n);
                let step = (b - a) / (n as f64 - 1.0);
                let mut terms = Vec::with_capacity(n);
                for i in 0..n {
                    let x = if i == n - 1 { b } else { a + step * i as f64 };
                    let w: f64 = if i == 0 || i == n - 1 { 1.0 } else if i % 2 == 1 { 4.0 } else { 2.0 };
                    let l = dens.ln_f(x);
                    zero_at_node |= l == f64::NEG_INFINITY;
                    terms.push(l + w.ln());
                }
                // integral = h/3 * sum w_i f_i, h = (b-a)/(n-1)
                (compare("ln_simpsons_integrate_exp", c, r, &terms, (b - a).ln() - (3.0 * (n as f64 - 1.0)).ln())?, n)
            }
            Rule::Grid { incs } => {
                ensure!(incs.len() >= 2 && incs.iter().any(|&d| d >= 1), "harness: bad grid case {:?}", c);
                let mut grid = vec![a];
                let mut cum = c.start as i64;
                for &d in incs {
                    cum += d as i64;
                    grid.push(cum as f64 / den);
                }
                let r = if c.table_density {
                    let table: Vec<f64> = grid.iter().map(|&x| dens.ln_f(x)).collect();
                    *LogProb::ln_trapezoidal_integrate_grid_exp(|i: usize, _x: f64| LogProb(table.get(i).copied().unwrap_or(f64::NAN)), &grid)
                } else {
                    *LogProb::ln_trapezoidal_integrate_grid_exp(density, &grid)
                };
                let mut terms = Vec::with_capacity(incs.len());
                for i in 1..grid.len() {
                    let (l0, l1) = (dens.ln_f(grid[i - 1]), dens.ln_f(grid[i]));
                    zero_at_node |= l0 == f64::NEG_INFINITY || l1 == f64::NEG_INFINITY;
                    let (hi, lo) = (l0.max(l1), l0.min(l1));
                    // ln((f0+f1)/2 * dx)
                    let t = if hi == f64::NEG_INFINITY || grid[i] == grid[i - 1] { f64::NEG_INFINITY } else { hi + (lo - hi).exp().ln_1p() - 2f64.ln() + (grid[i] - grid[i - 1]).ln() };
                    terms.push(t);
                }
                (compare("ln_trapezoidal_integrate_grid_exp", c, r, &terms, 0.0)?, grid.len())
            }
        };

        let mut pass = Pass::new(true);
        match c.rule {
            Rule::Trapezoid { .. } => pass.add("trapezoid"),
            Rule::Simpson { .. } => pass.add("simpson"),
            Rule::Grid { .. } => pass.add("trapezoid on grid"),
        }
        match c.dens {
            Dens::Const { .. } => pass.add("constant density"),
            Dens::Gauss { .. } => pass.add("gaussian density"),
            Dens::Expo { .. } => pass.add("exponential density"),
            Dens::Beta { .. } => pass.add("beta-like density"),
        }
        pass.add_if(n == 3, "n=3");
        pass.add_if(n >= 100, "n>=100");
        pass.add_if(n == 201, "n=201");
        pass.add_if(zero_at_node, "density zero at a node");
        pass.add_if(c.start < 0, "negative lower bound");
        pass.add_if(c.support_only && !zero_at_node, "density supported on [a, b] only, positive at the ends");
        pass.add_if(c.table_density && matches!(c.rule, Rule::Grid { .. }), "grid rule: density given as a table over the grid index");
        if let Rule::Grid { incs } = &c.rule {
            pass.add_if(incs.iter().any(|&d| d == 0), "grid with a repeated point");
            pass.add_if(c.table_density && incs[..incs.len() - 1].iter().any(|&d| d == 0), "table density on a grid with a repeated point before the end");
        }
        let _ = outside.get();
        Ok((pass, err))
    }

    pub fn check(c: &Case) -> R {
        eval(c).map(|x| x.0)
    }

    fn dens() -> BoxedStrategy<Dens> {
        prop_oneof![
            2 => (-20_000i32..=5_000).prop_map(|c_milli| Dens::Const { c_milli }),
            4 => (-100_000i32..=100_000, prop_oneof![10u32..=1_000, 1_000u32..=100_000]).prop_map(|(mu_milli, sigma_milli)| Dens::Gauss { mu_milli, sigma_milli }),
            3 => prop_oneof![1u32..=1_000, 1_000u32..=20_000].prop_map(|rate_milli| Dens::Expo { rate_milli }),
            3 => (0u8..=6, 0u8..=6).prop_map(|(alpha, beta)| Dens::Beta { alpha, beta }),
        ]
        .boxed()
    }

    fn npoints() -> BoxedStrategy<usize> {
        prop_oneof![2 => Just(3usize), 6 => 3usize..=30, 4 => 31usize..=201, 1 => Just(201usize)].boxed()
    }

    pub fn strat(_t: Tier) -> BoxedStrategy<Case> {
        (dens(), npoints(), 0u8..3)
            .prop_flat_map(|(d, n, which)| {
                let rule = match which {
                    0 => (1u32..=200_000).prop_map(move |width| Rule::Trapezoid { n, width }).boxed(),
                    1 => (1u32..=200_000).prop_map(move |width| Rule::Simpson { half: (n - 1) / 2, width }).boxed(),
                    _ => proptest::collection::vec(prop_oneof![1 => Just(0u16), 9 => 1u16..=50, 3 => 1u16..=5000], n - 1)
                        .prop_map(|mut incs| {
                            if incs.iter().all(|&d| d == 0) {
                                incs[0] = 1;
                            }
                            Rule::Grid { incs }
                        })
                        .boxed(),
                };
                (Just(d), rule, -100_000i32..=100_000, 0u32..=2000, prop_oneof![2 => Just(false), 1 => Just(true)], prop_oneof![2 => Just(false), 1 => Just(true)])
            })
            .prop_map(|(dens, rule, start, tail, support_only, table_density)| {
                let span: u32 = match &rule {
                    Rule::Trapezoid { width, .. } | Rule::Simpson { width, .. } => *width,
                    Rule::Grid { incs } => incs.iter().map(|&d| d as u32).sum(),
                };
                match dens {
                    // support [0,1]: 0 <= start/denom < (start+span)/denom <= 1
                    Dens::Beta { .. } => {
                        let start = start.unsigned_abs() % 2001;
                        let tail = if tail % 3 == 0 { 0 } else { tail };
                        let start = if start % 3 == 0 { 0 } else { start };
                        Case { dens, rule, start: start as i32, denom: start + span + tail, support_only, table_density }
                    }
                    // support [0, inf)
                    Dens::Expo { .. } => Case { dens, rule, start: start.abs(), denom: 1000, support_only, table_density },
                    _ => Case { dens, rule, start, denom: 1000, support_only, table_density },
                }
            })
            .boxed()
    }
}

// ===========================================================================
// convert: Prob <-> LogProb <-> PHREDProb, Prob::checked

pub mod convert {
    use super::*;

    /// argument of `Prob::checked`
    #[derive(Serialize, Deserialize, Debug, Clone, Copy, PartialEq)]
    pub enum X {
        NaN,
        PosInf,
        NegInf,
        NegZero,
        Zero,
        One,
        /// 1 + 2^-52
        OnePlusEps,
        /// 1 - 2^-53
        OneMinusEps,
        /// 5e-324
        MinPos,
        /// -5e-324
        NegMinPos,
        /// k / 2^32, in [0, 1)
        Frac(u32),
        /// -(k+1)/1000
        Neg(u32),
        /// 1 + (k+1)/1000
        Above(u32),
        /// +-1e308
        Huge(bool),
    }

    impl X {
        pub fn v(self) -> f64 {
            match self {
                X::NaN => f64::NAN,
                X::PosInf => f64::INFINITY,
                X::NegInf => f64::NEG_INFINITY,
                X::NegZero => -0.0,
                X::Zero => 0.0,
                X::One => 1.0,
                X::OnePlusEps => 1.0 + f64::EPSILON,
                X::OneMinusEps => 1.0 - f64::EPSILON / 2.0,
                X::MinPos => f64::from_bits(1),
                X::NegMinPos => -f64::from_bits(1),
                X::Frac(k) => k as f64 / 4294967296.0,
                X::Neg(k) => -((k as f64 + 1.0) / 1000.0),
                X::Above(k) => 1.0 + (k as f64 + 1.0) / 1000.0,
                X::Huge(neg) => if neg { -1e308 } else { 1e308 },
            }
        }
    }

    /// PHRED value
    #[derive(Serialize, Deserialize, Debug, Clone, Copy, PartialEq)]
    pub enum Q {
        /// +inf = probability 0
        Inf,
        /// k/1000, up to 2000 = probability 1e-200
        Milli(u32),
    }

    impl Q {
        pub fn v(self) -> f64 {
            match self {
                Q::Inf => f64::INFINITY,
                Q::Milli(k) => k as f64 / 1e3,
            }
        }
    }

    #[derive(Serialize, Deserialize, Debug, Clone)]
    pub struct Case {
        /// log-probability in {ln 0} u [ln 1e-200, 0]; the probability is p = exp(l)
        pub l: L,
        pub q: Q,
        pub x: X,
    }

    fn close_rel(got: f64, want: f64, tol: f64) -> bool {
        if got.is_nan() || want.is_nan() {
            return false;
        }
        if got == want {
            return true; // covers 0 and the infinities
        }
        (got - want).abs() <= tol * want.abs()
    }
    /// for values on a logarithmic scale: absolute below 1, relative above
    fn close_log(got: f64, want: f64, tol: f64) -> bool {
        if got.is_nan() || want.is_nan() {
            return false;
        }
        if got == want {
            return true;
        }
        (got - want).abs() <= tol * want.abs().max(1.0)
    }

    /// worst relative error of the paths through the fast exponential
    pub fn eval(c: &Case) -> Result<(Pass, f64), Stop> {
        let l = c.l.v();
        ensure!(l == f64::NEG_INFINITY || (l <= 0.0 && l >= -460.6), "harness: l outside the stated range: {:?}", c.l);
        let p = l.exp(); // an arbitrary probability in {0} u [1e-200, 1]
        let mut worst: f64 = 0.0;
        // flush-to-zero slack of the fast exponential below e^-500 (documented constant MIN_VAL)
        let slack = 1e-200;

        // ---- starting from Prob(p)
        let lp = LogProb::from(Prob(p));
        ensure!(!lp.is_nan(), "LogProb::from(Prob({:e})) is NaN", p);
        ensure!(close_log(*lp, p.ln(), TOL_EXACT), "LogProb::from(Prob({:e})) = {:e}, ln p = {:e}", p, *lp, p.ln());
        let back = *Prob::from(lp);
        ensure!(!back.is_nan() && (back - p).abs() <= TOL * p + slack, "Prob -> LogProb -> Prob: {:e} -> {:e} -> {:e} (relative error {:e} > {})", p, *lp, back, (back - p).abs() / p, TOL);
        if p > 0.0 {
            worst = worst.max((back - p).abs() / p);
        }
        let ph = PHREDProb::from(Prob(p));
        ensure!(!ph.is_nan(), "PHREDProb::from(Prob({:e})) is NaN", p);
        ensure!(close_log(*ph, -10.0 * p.log10(), TOL_EXACT), "PHREDProb::from(Prob({:e})) = {:e}, -10 log10 p = {:e}", p, *ph, -10.0 * p.log10());
        let back = *Prob::from(ph);
        ensure!(close_rel(back, p, TOL_EXACT), "Prob -> PHRED -> Prob: {:e} -> {:e} -> {:e}", p, *ph, back);
        // Prob -> LogProb -> PHRED -> Prob  (no approximate exponential)
        let ph2 = PHREDProb::from(lp);
        ensure!(close_log(*ph2, *ph, TOL_EXACT), "Prob({:e}) -> LogProb -> PHRED = {:e} but Prob -> PHRED = {:e}", p, *ph2, *ph);
        let back = *Prob::from(ph2);
        ensure!(close_rel(back, p, TOL_EXACT), "Prob -> LogProb -> PHRED -> Prob: {:e} -> {:e} -> {:e} -> {:e}", p, *lp, *ph2, back);
        // Prob -> PHRED -> LogProb -> Prob  (fast exponential)
        let lp2 = LogProb::from(ph);
        ensure!(close_log(*lp2, *lp, TOL_EXACT), "Prob({:e}) -> PHRED -> LogProb = {:e} but Prob -> LogProb = {:e}", p, *lp2, *lp);
        let back = *Prob::from(lp2);
        ensure!(!back.is_nan() && (back - p).abs() <= TOL * p + slack, "Prob -> PHRED -> LogProb -> Prob: {:e} -> {:e} -> {:e} -> {:e}", p, *ph, *lp2, back);
        if p > 0.0 {
            worst = worst.max((back - p).abs() / p);
        }

        // ---- starting from LogProb(l)
        let ph = PHREDProb::from(LogProb(l));
        let l2 = *LogProb::from(ph);
        ensure!(close_log(l2, l, TOL_EXACT), "LogProb -> PHRED -> LogProb: {:e} -> {:e} -> {:e}", l, *ph, l2);
        ensure!(close_log(*ph, -10.0 * l / std::f64::consts::LN_10, TOL_EXACT), "PHREDProb::from(LogProb({:e})) = {:e}, expected -10 l / ln 10 = {:e}", l, *ph, -10.0 * l / std::f64::consts::LN_10);
        let pr = *Prob::from(LogProb(l));
        ensure!(!pr.is_nan() && (pr - p).abs() <= TOL * p + slack, "Prob::from(LogProb({:e})) = {:e}, exp = {:e} (relative error {:e} > {})", l, pr, p, (pr - p).abs() / p, TOL);
        if p > 0.0 {
            worst = worst.max((pr - p).abs() / p);
        }

        // ---- starting from PHREDProb(q)
        let q = c.q.v();
        let pq = 10f64.powf(-q / 10.0);
        let lq = LogProb::from(PHREDProb(q));
        ensure!(close_log(*lq, -q * std::f64::consts::LN_10 / 10.0, TOL_EXACT), "LogProb::from(PHREDProb({})) = {:e}, expected -q ln(10)/10 = {:e}", q, *lq, -q * std::f64::consts::LN_10 / 10.0);
        let q2 = *PHREDProb::from(lq);
        ensure!(close_log(q2, q, TOL_EXACT), "PHRED -> LogProb -> PHRED: {} -> {:e} -> {}", q, *lq, q2);
        let pr = *Prob::from(lq);
        ensure!(!pr.is_nan() && (pr - pq).abs() <= TOL * pq + slack, "PHRED -> LogProb -> Prob: {} -> {:e} -> {:e}, 10^(-q/10) = {:e}", q, *lq, pr, pq);
        if pq > 0.0 {
            worst = worst.max((pr - pq).abs() / pq);
        }
        let pr = *Prob::from(PHREDProb(q));
        ensure!(close_rel(pr, pq, TOL_EXACT), "Prob::from(PHREDProb({})) = {:e}, 10^(-q/10) = {:e}", q, pr, pq);
        let q3 = *PHREDProb::from(Prob(pr));
        ensure!(close_log(q3, q, TOL_EXACT), "PHRED -> Prob -> PHRED: {} -> {:e} -> {}", q, pr, q3);

        // ---- checked construction accepts exactly [0, 1]
        let x = c.x.v();
        let inside = x >= 0.0 && x <= 1.0; // false for NaN; true for -0.0 (== 0)
        match Prob::checked(x) {
            Ok(pr) => {
                ensure!(inside, "Prob::checked({:?} = {:e}) accepted a value outside [0,1]", c.x, x);
                ensure!(*pr == x, "Prob::checked({:e}) returned a different value {:e}", x, *pr);
            }
            Err(_) => ensure!(!inside, "Prob::checked({:?} = {:e}) rejected a value inside [0,1]", c.x, x),
        }

        let mut pass = Pass::new(p > 0.0 && p < 1.0);
        pass.add_if(p == 0.0, "p = 0");
        pass.add_if(p == 1.0, "p = 1");
        pass.add_if(p > 0.0 && p < 1e-100, "p < 1e-100");
        pass.add_if(p > 0.5 && p < 1.0, "p in (0.5, 1)");
        pass.add_if(c.q == Q::Inf, "PHRED +inf");
        pass.add_if(q == 0.0, "PHRED 0");
        pass.add_if(q > 1000.0 && q.is_finite(), "PHRED > 1000");
        pass.add("Prob->LogProb->Prob");
        pass.add("Prob->PHRED->Prob");
        pass.add("Prob->LogProb->PHRED->Prob");
        pass.add("Prob->PHRED->LogProb->Prob");
        pass.add("LogProb->PHRED->LogProb");
        pass.add("PHRED->LogProb->PHRED / ->Prob");
        pass.add_if(!inside, "checked() rejects");
        pass.add_if(inside, "checked() accepts");
        pass.add_if(x.is_nan(), "checked(NaN)");
        pass.add_if(c.x == X::NegZero, "checked(-0.0)");
        pass.add_if(matches!(c.x, X::OnePlusEps | X::NegMinPos), "checked(nearest outside value)");
        pass.add_if(matches!(c.x, X::One | X::Zero | X::OneMinusEps | X::MinPos), "checked(boundary inside)");
        pass.add_if(x.is_infinite(), "checked(+-inf)");
        Ok((pass, worst))
    }

    pub fn check(c: &Case) -> R {
        eval(c).map(|x| x.0)
    }

    pub fn strat(_t: Tier) -> BoxedStrategy<Case> {
        let l = prop_oneof![
            1 => Just(L::Zero),
            1 => Just(L::Milli(0)),
            8 => (0..=K_1E200).prop_map(L::Milli),
            4 => (0..=3_000_000u32).prop_map(L::Micro),
            2 => (0..=1_000_000u32).prop_map(L::Nano),
        ];
        let q = prop_oneof![1 => Just(Q::Inf), 1 => Just(Q::Milli(0)), 6 => (0..=100_000u32).prop_map(Q::Milli), 4 => (0..=2_000_000u32).prop_map(Q::Milli)];
        let x = prop_oneof![
            1 => Just(X::NaN), 1 => Just(X::PosInf), 1 => Just(X::NegInf), 1 => Just(X::NegZero), 1 => Just(X::Zero), 1 => Just(X::One),
            1 => Just(X::OnePlusEps), 1 => Just(X::OneMinusEps), 1 => Just(X::MinPos), 1 => Just(X::NegMinPos),
            6 => any::<u32>().prop_map(X::Frac),
            3 => (0u32..=100_000).prop_map(X::Neg),
            3 => (0u32..=100_000).prop_map(X::Above),
            1 => any::<bool>().prop_map(X::Huge),
        ];
        (l, q, x).prop_map(|(l, q, x)| Case { l, q, x }).boxed()
    }
}

// ===========================================================================
// LARGE-SCALE sub-checks (C15/large-*): list lengths, positions of the maximum, numbers of ln(0)
// entries / of ties, and integration grids across the threshold ladder (255 .. 2^20+1, tails up to
// ~10^7 entries), generated deterministically from `{shape, n, seed}` by splitmix64.
//
// Tolerance. The property's bound is 0.5 % of the largest operand. For lists whose sum is much larger
// than the largest operand (a million equal entries) that bound is tighter than what ANY implementation
// built on an exponential with the documented relative error (8.9e-6 per term) can deliver, so the
// large-scale checks assert the WEAKER of two bounds, in units of the largest operand:
//     |image - reference| <= max(0.005, 2e-5 * reference)           (4e-5 for the grid integrator,
// which applies the approximate exponential twice). For sum/max <= 250 this is exactly the property's
// bound; above, it is a relative bound of 2e-5 on the sum (more than twice the documented error: each
// term exp(x_i - max) carries a relative error <= 8.9e-6, hence so does their sum; for the running sum of
// ln_cumsum_exp the relative error of a step is a convex combination of the previous error and the
// error of the new term, so it never exceeds the per-term error either).

pub mod large {
    use super::*;
    use crate::oracles::scale::c141516::{ladder, Sm64};
    use crate::rung_label_c141516 as rung;

    pub const REL: f64 = 2e-5;

    fn tol(reference: f64, rel: f64) -> f64 {
        TOL.max(rel * reference)
    }

    // -----------------------------------------------------------------------
    // lists

    pub mod lists {
        use super::*;

        #[derive(Serialize, Deserialize, Debug, Clone, Copy, PartialEq)]
        pub enum Shape {
            /// one dominant entry; the other n-1 entries lie d .. d+jitter nats below it (uniformly)
            Tail { d_milli: u32, jitter_milli: u32 },
            /// all n entries equal
            Equal,
            /// all entries ln(0) except `finite` (1..=300) ones, spread evenly (first and last included),
            /// which lie within `width_milli` of the top
            MostlyZero { finite: u16, width_milli: u32 },
            /// x_i = top - i*step (descending) or top - (n-1-i)*step (ascending): a geometric series
            Ramp { step_micro: u32, ascending: bool },
            /// uniform in [top - width, top]
            Uniform { width_milli: u32 },
            /// `k` entries equal to the maximum (spread evenly), the others d .. d+0.3 nats below
            Ties { k: u32, d_milli: u32 },
        }

        #[derive(Serialize, Deserialize, Debug, Clone, Copy, PartialEq)]
        pub enum Pos {
            First,
            Last,
            /// index min(p, n-1)
            At(u32),
        }

        #[derive(Serialize, Deserialize, Debug, Clone)]
        pub struct Case {
            pub shape: Shape,
            /// list length >= 1
            pub n: u32,
            /// log value of the largest entry in thousandths (<= 0)
            pub top_milli: i64,
            /// position of the dominant entry (Tail only)
            pub pos: Pos,
            /// also run ln_cumsum_exp and check the prefixes
            pub cumsum: bool,
            pub seed: u64,
        }

        pub fn expand(c: &Case) -> Result<Vec<LogProb>, Stop> {
            let n = c.n as usize;
            ensure!(n >= 1 && c.top_milli <= 0 && c.top_milli >= -700_000, "harness: bad list case {:?}", c);
            let top = c.top_milli as f64 / 1000.0;
            let mut g = Sm64::stream(c.seed, 15);
            let mut v: Vec<LogProb> = Vec::with_capacity(n);
            match c.shape {
                Shape::Tail { d_milli, jitter_milli } => {
                    ensure!(d_milli >= 1000, "harness: tail closer than 1 nat in {:?}", c);
                    let (d, j) = (d_milli as f64 / 1000.0, jitter_milli as f64 / 1000.0);
                    let p = match c.pos {
                        Pos::First => 0,
                        Pos::Last => n - 1,
                        Pos::At(p) => (p as usize).min(n - 1),
                    };
                    for i in 0..n {
                        v.push(LogProb(if i == p { top } else { top - d - j * g.unit() }));
                    }
                }
                Shape::Equal => {
                    v.resize(n, LogProb(top));
                }
                Shape::MostlyZero { finite, width_milli } => {
                    let f = (finite as usize).clamp(1, 300).min(n);
                    v.resize(n, LogProb(f64::NEG_INFINITY));
                    for k in 0..f {
                        let i = if f == 1 { n / 2 } else { ((k as u128 * (n as u128 - 1)) / (f as u128 - 1)) as usize };
                        v[i] = LogProb(top - (width_milli as f64 / 1000.0) * g.unit());
                    }
                    // the top itself somewhere among them
                    let i = if f == 1 { n / 2 } else { (((f / 2) as u128 * (n as u128 - 1)) / (f as u128 - 1)) as usize };
                    v[i] = LogProb(top);
                }
                Shape::Ramp { step_micro, ascending } => {
                    ensure!(step_micro >= 1, "harness: ramp step 0 in {:?}", c);
                    let st = step_micro as f64 / 1e6;
                    for i in 0..n {
                        let k = if ascending { n - 1 - i } else { i };
                        v.push(LogProb(top - st * k as f64));
                    }
                }
                Shape::Uniform { width_milli } => {
                    let w = width_milli as f64 / 1000.0;
                    for _ in 0..n {
                        v.push(LogProb(top - w * g.unit()));
                    }
                }
                Shape::Ties { k, d_milli } => {
                    ensure!(d_milli >= 1000, "harness: tail closer than 1 nat in {:?}", c);
                    let k = (k as usize).clamp(1, n);
                    let d = d_milli as f64 / 1000.0;
                    for _ in 0..n {
                        v.push(LogProb(top - d - 0.3 * g.unit()));
                    }
                    for t in 0..k {
                        let i = if k == 1 { n / 2 } else { ((t as u128 * (n as u128 - 1)) / (k as u128 - 1)) as usize };
                        v[i] = LogProb(top);
                    }
                }
            }
            Ok(v)
        }

        /// should prefix k of an n-list be evaluated? (all of them up to 2^20+1 entries, a sample above)
        fn sampled(k: usize, n: usize) -> bool {
            if n <= (1 << 20) + 1 || k < 1024 || k + 1024 >= n || k % 997 == 0 {
                return true;
            }
            // around powers of two
            let p = (k + 2).next_power_of_two();
            (p >= k && p - k <= 2) || (k >= p / 2 && k - p / 2 <= 2)
        }

        pub fn check(c: &Case) -> R {
            let _published = crate::oracles::scale::c141516::publish(c);
            let lps = expand(c)?;
            let n = lps.len();
            let what = format!("{:?}", c);
            // ---- reference: plain f64
            let mut mx = f64::NEG_INFINITY;
            let mut imax = 0usize;
            let mut nzero = 0usize;
            for (i, p) in lps.iter().enumerate() {
                if **p > mx {
                    mx = **p;
                    imax = i;
                }
                if **p == f64::NEG_INFINITY {
                    nzero += 1;
                }
            }
            ensure!(mx.is_finite(), "harness: list without finite entry in {}", what);
            let mut reference = 0.0f64;
            let mut nties = 0usize;
            for p in &lps {
                reference += (**p - mx).exp();
                if **p == mx {
                    nties += 1;
                }
            }
            // closed forms where they exist (also validates the reference summation)
            match c.shape {
                Shape::Equal => ensure!((reference - n as f64).abs() <= 1e-9 * n as f64, "harness: reference sum {} of {} equal entries", reference, n),
                Shape::Ramp { step_micro, .. } => {
                    let r = (-(step_micro as f64) / 1e6).exp();
                    let closed = (1.0 - r.powf(n as f64)) / (1.0 - r);
                    ensure!((reference - closed).abs() <= 1e-7 * closed, "harness: reference sum {} differs from the geometric series {} in {}", reference, closed, what);
                }
                _ => {}
            }

            // ---- n-ary sum
            let r = *LogProb::ln_sum_exp(&lps);
            ensure!(!r.is_nan(), "ln_sum_exp of {} entries = NaN ({})", n, what);
            let img = (r - mx).exp();
            let err = (img - reference).abs();
            ensure!(
                err <= tol(reference, REL),
                "ln_sum_exp of {} entries (maximum {:e} at index {}, {} entries ln 0): image / largest operand = {:e}, linear sum / largest operand = {:e}, difference {:e} > {:e}; {}",
                n, mx, imax, nzero, img, reference, err, tol(reference, REL), what
            );
            // ln 0 entries are neutral
            if nzero > 0 {
                let nz: Vec<LogProb> = lps.iter().cloned().filter(|p| **p != f64::NEG_INFINITY).collect();
                let r2 = *LogProb::ln_sum_exp(&nz);
                ensure!(r == r2 || (r - r2).abs() <= NEUTRAL_EPS * r.abs().max(1.0), "ln 0 is not neutral in ln_sum_exp: {} entries ({} of them ln 0) give {:e}, without the ln 0 entries {:e}; {}", n, nzero, r, r2, what);
            }

            // ---- cumulative sum: every prefix (sampled above 2^20+1 entries)
            if c.cumsum {
                let mut rm = f64::NEG_INFINITY;
                let mut acc = 0.0f64;
                let mut count = 0usize;
                let mut prev = f64::NEG_INFINITY;
                for (k, cs) in LogProb::ln_cumsum_exp(lps.iter().cloned()).take(n + 2).enumerate() {
                    count += 1;
                    if k >= n {
                        continue;
                    }
                    let v = *lps[k];
                    if v > rm {
                        acc = if rm == f64::NEG_INFINITY { 1.0 } else { acc * (rm - v).exp() + 1.0 };
                        rm = v;
                    } else if v != f64::NEG_INFINITY {
                        acc += (v - rm).exp();
                    }
                    let cs = *cs;
                    ensure!(!cs.is_nan(), "ln_cumsum_exp[{}] = NaN; {}", k, what);
                    if rm == f64::NEG_INFINITY {
                        ensure!(cs == f64::NEG_INFINITY, "ln_cumsum_exp[{}] = {} although all entries so far are ln 0; {}", k, cs, what);
                    } else if sampled(k, n) {
                        let img = (cs - rm).exp();
                        let err = (img - acc).abs();
                        ensure!(
                            err <= tol(acc, REL),
                            "ln_cumsum_exp[{}] of {}: image / largest operand so far = {:e}, linear prefix sum / largest = {:e}, difference {:e} > {:e}; {}",
                            k, n, img, acc, err, tol(acc, REL), what
                        );
                        if v == f64::NEG_INFINITY && k > 0 {
                            ensure!(cs == prev || (cs - prev).abs() <= NEUTRAL_EPS * cs.abs().max(1.0), "ln 0 is not neutral in ln_cumsum_exp: [{}] = {:e}, [{}] = {:e}; {}", k - 1, prev, k, cs, what);
                        }
                    }
                    prev = cs;
                }
                ensure!(count == n, "ln_cumsum_exp yields {} values for {} inputs; {}", if count > n { "more than n".to_string() } else { count.to_string() }, n, what);
            }

            let tail_share = (reference - nties as f64) / reference;
            let second = lps.iter().map(|p| **p).filter(|&x| x < mx).fold(f64::NEG_INFINITY, f64::max);
            let gap = mx - second; // distance of the closest non-maximal entry
            let mut pass = Pass::new(n >= 255);
            if let Some(l) = rung!("list length", n) {
                pass.add(l);
            }
            pass.add_if(n > (1 << 20) + 1, "list length > 2^20+1");
            if let Some(l) = rung!("index of the maximum", imax) {
                pass.add(l);
            }
            pass.add_if(imax >= 65536, "index of the maximum >= 65536");
            pass.add_if(imax == 0 && n >= 255, "maximum first");
            pass.add_if(imax == n - 1 && n >= 255, "maximum last");
            if let Some(l) = rung!("number of ln(0) entries", nzero) {
                pass.add(l);
            }
            pass.add_if(nzero >= 65536, "more than 65535 ln(0) entries");
            if let Some(l) = rung!("entries equal to the maximum", nties) {
                pass.add(l);
            }
            pass.add_if(nties >= 65536, "more than 65535 entries equal to the maximum");
            pass.add_if(reference <= 250.0, "sum/max <= 250: the property's 0.5 % bound is asserted");
            pass.add_if(reference > 250.0, "sum/max > 250: relative bound 2e-5 asserted");
            let tail_visible = reference - nties as f64 > 0.0051 && tail_share > 0.0;
            pass.add_if(tail_visible && gap >= 11.52, "tail > 0.5 % of the maximum although every tail entry < 1e-5 of it");
            pass.add_if(tail_visible && gap >= 13.82, "tail > 0.5 % of the maximum although every tail entry < 1e-6 of it");
            pass.add_if(tail_visible && gap >= 16.12, "tail > 0.5 % of the maximum although every tail entry < 1e-7 of it");
            pass.add_if(tail_visible && gap >= 18.43, "tail > 0.5 % of the maximum although every tail entry < 1e-8 of it");
            pass.add_if(tail_visible && gap >= 20.73, "tail > 0.5 % of the maximum although every tail entry < 1e-9 of it");
            pass.add_if(tail_visible && gap >= 23.03, "tail > 0.5 % of the maximum although every tail entry < 1e-10 of it");
            pass.add_if(c.cumsum, "ln_cumsum_exp checked");
            pass.add_if(mx < -50.0, "tiny probabilities (largest < e^-50)");
            pass.add(match c.shape {
                Shape::Tail { .. } => "shape: dominant entry + tail",
                Shape::Equal => "shape: all equal",
                Shape::MostlyZero { .. } => "shape: mostly ln(0)",
                Shape::Ramp { ascending: true, .. } => "shape: sorted ascending",
                Shape::Ramp { ascending: false, .. } => "shape: sorted descending",
                Shape::Uniform { .. } => "shape: uniform random",
                Shape::Ties { .. } => "shape: many ties of the maximum",
            });
            Ok(pass)
        }

        fn d_for(n: u64, share: f64) -> u32 {
            // distance (milli-nats) at which n entries together carry `share` of the maximum
            let d = ((n.max(2) - 1) as f64 / share).ln().max(1.0);
            (d * 1000.0).round() as u32
        }

        const TOPS: [i64; 4] = [0, -2_500, -300_000, -46_000];

        /// list length, index of the maximum, number of ln(0) entries and of ties across the ladder
        pub fn enumerate(_tier: Tier) -> Box<dyn Iterator<Item = Case>> {
            let mut v = Vec::new();
            let mut k = 0u64;
            let mut push = |v: &mut Vec<Case>, shape: Shape, n: u64, pos: Pos, cumsum: bool| {
                v.push(Case { shape, n: n as u32, top_milli: TOPS[(k % 4) as usize], pos, cumsum, seed: 0x5eed_0015_0000 + k * 104_729 });
                k += 1;
            };
            for &n in &ladder((1 << 20) + 1) {
                // (a) dominant entry + tail carrying 2 % (each tail entry far below 0.5 %)
                let pos = [Pos::First, Pos::Last, Pos::At((n / 2) as u32)][(n % 3) as usize];
                push(&mut v, Shape::Tail { d_milli: d_for(n, 0.02), jitter_milli: 300 }, n, pos, true);
                // (b) dense events: all equal
                push(&mut v, Shape::Equal, n, Pos::First, true);
                // (c) mostly ln(0)
                push(&mut v, Shape::MostlyZero { finite: [5u16, 257, 64][(n % 3) as usize], width_milli: 3000 }, n, Pos::First, true);
                // (d) sorted
                push(&mut v, Shape::Ramp { step_micro: [4000u32, 50_000, 10][(n % 3) as usize], ascending: n % 2 == 0 }, n, Pos::First, true);
                // (e) random
                push(&mut v, Shape::Uniform { width_milli: ((n / 150).max(5) * 1000) as u32 }, n, Pos::First, true);
                // (f) 255/256/257 ties of the maximum + tail
                if n >= 511 {
                    push(&mut v, Shape::Ties { k: 255 + (n % 3) as u32, d_milli: d_for(n, 0.02) }, n, Pos::First, n <= 70_000);
                }
            }
            // index of the maximum across the ladder: maximum at p, list slightly / twice as long
            for &p in &ladder((1 << 20) + 1) {
                for n in [p + 1 + p % 3, 2 * p + 7] {
                    push(&mut v, Shape::Tail { d_milli: d_for(n, 0.02), jitter_milli: 300 }, n, Pos::At(p as u32), false);
                }
            }
            // number of ln(0) entries across the ladder: z entries ln(0) and three finite ones
            for &z in &ladder((1 << 20) + 1) {
                push(&mut v, Shape::MostlyZero { finite: 3, width_milli: 2000 }, z + 3, Pos::First, true);
            }
            // ties across the ladder (relative bound)
            for &t in &[511u64, 512, 513, 65_535, 65_536, 65_537] {
                push(&mut v, Shape::Ties { k: t as u32, d_milli: 3000 }, 3 * t + 1, Pos::First, true);
            }
            Box::new(v.into_iter())
        }

        /// tails at every distance 11.6 .. 22.1 nats (quick) / .. 23.1 (thorough), in steps of 0.25, below the dominant
        /// entry, long enough to carry ~0.8 % of it: 0.0093 * e^d entries
        pub fn enumerate_tails(tier: Tier) -> Box<dyn Iterator<Item = Case>> {
            let dmax = match tier {
                Tier::Quick => 22_100,
                Tier::Thorough => 23_100,
            };
            let ds: Vec<u32> = (0..).map(|i| 11_600 + 250 * i).take_while(|&d| d <= dmax).collect();
            let it = ds.into_iter().enumerate().map(|(i, d)| {
                let n = (0.00926 * (d as f64 / 1000.0).exp()).ceil() as u64 + 1;
                let pos = [Pos::First, Pos::Last, Pos::At((n / 3) as u32)][i % 3];
                Case { shape: Shape::Tail { d_milli: d, jitter_milli: 300 }, n: n as u32, top_milli: TOPS[i % 4], pos, cumsum: n <= 12_000_000, seed: 0x7a11_0015_0000 + i as u64 * 7919 }
            });
            Box::new(it)
        }

        pub fn strat(tier: Tier) -> BoxedStrategy<Case> {
            let nmax: u64 = match tier {
                Tier::Quick => (1 << 20) + 1,
                Tier::Thorough => (1 << 22) + 1,
            };
            let l = ladder(nmax);
            let nl = l.len();
            let size = prop_oneof![3 => (0..nl, -2i64..=2).prop_map(move |(i, d)| (l[i] as i64 + d).max(1) as u64), 1 => 255u64..=nmax];
            (size, 0u8..7, any::<u16>(), any::<u16>(), prop_oneof![2 => Just(0i64), 2 => -5_000i64..=0, 2 => -650_000i64..=-5_000], any::<bool>(), any::<u64>())
                .prop_map(|(n, which, a, b, top_milli, cumsum, seed)| {
                    let share = [0.006, 0.02, 0.2, 2.0, 100.0][(a % 5) as usize];
                    let pos = match b % 4 {
                        0 => Pos::First,
                        1 => Pos::Last,
                        _ => Pos::At(crate::engine::gen::idx(b, n as usize - 1) as u32),
                    };
                    let shape = match which {
                        0 | 1 => Shape::Tail { d_milli: d_for(n, share), jitter_milli: (a % 1500) as u32 },
                        2 => Shape::Equal,
                        3 => Shape::MostlyZero { finite: 1 + a % 300, width_milli: (b % 20_000) as u32 },
                        4 => Shape::Ramp { step_micro: 1 + (a as u32 * 17) % 200_000, ascending: b % 2 == 0 },
                        5 => Shape::Uniform { width_milli: ((n / 150).max(5) * 1000) as u32 + (a as u32 % 50_000) },
                        _ => Shape::Ties { k: 1 + (a as u32 % 300), d_milli: d_for(n, share) },
                    };
                    Case { shape, n: n as u32, top_milli, pos, cumsum, seed }
                })
                .boxed()
        }
    }

    // -----------------------------------------------------------------------
    // integration grids

    pub mod integrate {
        use super::*;

        #[derive(Serialize, Deserialize, Debug, Clone, Copy, PartialEq)]
        pub enum Rule {
            Trapezoid,
            /// n must be odd
            Simpson,
            /// ln_trapezoidal_integrate_grid_exp on a jittered increasing grid (jitter in 1/1000 of a step, < 1000)
            Grid { jitter_milli: u16 },
            /// ln_trapezoidal_integrate_exp::<f32, _>
            TrapezoidF32,
            /// ln_simpsons_integrate_exp::<f32, _>
            SimpsonF32,
        }

        #[derive(Serialize, Deserialize, Debug, Clone, Copy, PartialEq)]
        pub enum Dens {
            /// ln f = c/1000
            Const { c_milli: i32 },
            /// narrow Gaussian bump of height 1 (sigma = sigma_steps_milli/1000 grid steps, centre at
            /// centre/65536 of the interval) on a constant floor; all n floor values together carry
            /// floor_share_milli/1000 of the bump's height:  f(x) = exp(-z^2/2) + share/n
            Peak { centre: u16, sigma_steps_milli: u32, floor_share_milli: u32 },
            /// Gaussian with sigma = (b-a)/div centred in the interval (smooth, every node matters)
            Wide { div: u8 },
        }

        #[derive(Serialize, Deserialize, Debug, Clone)]
        pub struct Case {
            pub rule: Rule,
            pub dens: Dens,
            /// number of grid points >= 3
            pub n: u32,
            /// interval: 0 = [0,1], 1 = [-2,6], 2 = [10,10.5], 3 = [-1024, 1024]
            pub interval: u8,
        }

        fn interval(c: &Case) -> (f64, f64) {
            match c.interval % 4 {
                0 => (0.0, 1.0),
                1 => (-2.0, 6.0),
                2 => (10.0, 10.5),
                _ => (-1024.0, 1024.0),
            }
        }

        fn ln_f(c: &Case, a: f64, b: f64, x: f64) -> f64 {
            match c.dens {
                Dens::Const { c_milli } => c_milli as f64 / 1e3,
                Dens::Peak { centre, sigma_steps_milli, floor_share_milli } => {
                    let h = (b - a) / (c.n as f64 - 1.0);
                    let mu = a + (b - a) * (centre as f64 / 65536.0);
                    let z = (x - mu) / (h * sigma_steps_milli as f64 / 1000.0);
                    let lg = -0.5 * z * z;
                    if floor_share_milli == 0 {
                        return lg;
                    }
                    let lfloor = (floor_share_milli as f64 / 1000.0 / c.n as f64).ln();
                    let (hi, lo) = if lg >= lfloor { (lg, lfloor) } else { (lfloor, lg) };
                    hi + (lo - hi).exp().ln_1p()
                }
                Dens::Wide { div } => {
                    let s = (b - a) / div.max(1) as f64;
                    let z = (x - 0.5 * (a + b)) / s;
                    -0.5 * z * z - s.ln() - 0.5 * (2.0 * std::f64::consts::PI).ln()
                }
            }
        }

        /// compare `r` with exp(ln_factor) * sum_i exp(terms[i]), in units of the largest term
        fn compare(what: &str, c: &Case, r: f64, terms: &[f64], ln_factor: f64, rel: f64) -> Result<(f64, f64), Stop> {
            ensure!(!r.is_nan(), "{} = NaN for {:?}", what, c);
            ensure!(terms.iter().all(|t| !t.is_nan() && *t != f64::INFINITY), "harness: reference operand NaN/inf for {:?}", c);
            let mx = terms.iter().cloned().fold(f64::NEG_INFINITY, f64::max);
            ensure!(mx.is_finite(), "harness: density zero at every node for {:?}", c);
            let reference: f64 = terms.iter().map(|t| (t - mx).exp()).sum();
            let img = (r - ln_factor - mx).exp();
            let err = (img - reference).abs();
            ensure!(
                err <= tol(reference, rel),
                "{} = {:e}; plain f64 quadrature on the same {} nodes gives {:e}; in units of the largest quadrature operand: {:e} vs {:e}, difference {:e} > {:e}; {:?}",
                what, r, terms.len(), reference.ln() + mx + ln_factor, img, reference, err, tol(reference, rel), c
            );
            // share of the terms that are individually below 1e-5 of the largest one
            let small: f64 = terms.iter().map(|t| t - mx).filter(|&d| d < -11.52).map(|d| d.exp()).sum();
            Ok((reference, small))
        }

        pub fn check(c: &Case) -> R {
            let _published = crate::oracles::scale::c141516::publish(c);
            let n = c.n as usize;
            ensure!(n >= 3 && n <= 2_100_000, "harness: bad number of grid points in {:?}", c);
            let (a, b) = interval(c);
            let weight = |i: usize, simpson: bool| -> f64 {
                if i == 0 || i == n - 1 {
                    1.0
                } else if !simpson {
                    2.0
                } else if i % 2 == 1 {
                    4.0
                } else {
                    2.0
                }
            };
            let (reference, small) = match c.rule {
                Rule::Trapezoid | Rule::Simpson => {
                    let simpson = c.rule == Rule::Simpson;
                    ensure!(!simpson || n % 2 == 1, "harness: Simpson with even n in {:?}", c);
                    let density = |_i: usize, x: f64| LogProb(ln_f(c, a, b, x));
                    let r = if simpson { *LogProb::ln_simpsons_integrate_exp(density, a, b, n) } else { *LogProb::ln_trapezoidal_integrate_exp(density, a, b, n) };
                    let step = (b - a) / (n as f64 - 1.0);
                    let terms: Vec<f64> = (0..n).map(|i| ln_f(c, a, b, if i == n - 1 { b } else { a + step * i as f64 }) + weight(i, simpson).ln()).collect();
                    let fac = if simpson { (b - a).ln() - (3.0 * (n as f64 - 1.0)).ln() } else { (b - a).ln() - (2.0 * (n as f64 - 1.0)).ln() };
                    compare(if simpson { "ln_simpsons_integrate_exp" } else { "ln_trapezoidal_integrate_exp" }, c, r, &terms, fac, REL)?
                }
                Rule::TrapezoidF32 | Rule::SimpsonF32 => {
                    let simpson = c.rule == Rule::SimpsonF32;
                    ensure!(!simpson || n % 2 == 1, "harness: Simpson with even n in {:?}", c);
                    ensure!(!matches!(c.dens, Dens::Peak { .. }) && n <= 70_001, "harness: f32 grid with a narrow density / too many points in {:?}", c);
                    let (a32, b32) = (a as f32, b as f32);
                    let density = |_i: usize, x: f32| LogProb(ln_f(c, a, b, x as f64));
                    let r = if simpson { *LogProb::ln_simpsons_integrate_exp(density, a32, b32, n) } else { *LogProb::ln_trapezoidal_integrate_exp(density, a32, b32, n) };
                    let step = (b32 - a32) / (n as f32 - 1.0);
                    let terms: Vec<f64> = (0..n).map(|i| ln_f(c, a, b, if i == n - 1 { b32 as f64 } else if i == 0 { a32 as f64 } else { (a32 + step * i as f32) as f64 }) + weight(i, simpson).ln()).collect();
                    let w = (b32 - a32) as f64;
                    let fac = if simpson { w.ln() - (3.0 * (n as f64 - 1.0)).ln() } else { w.ln() - (2.0 * (n as f64 - 1.0)).ln() };
                    compare(if simpson { "ln_simpsons_integrate_exp::<f32>" } else { "ln_trapezoidal_integrate_exp::<f32>" }, c, r, &terms, fac, REL)?
                }
                Rule::Grid { jitter_milli } => {
                    ensure!(jitter_milli < 1000, "harness: grid jitter >= one step in {:?}", c);
                    let step = (b - a) / (n as f64 - 1.0);
                    let mut g = Sm64::stream(c.n as u64 * 31 + c.interval as u64, 16);
                    let grid: Vec<f64> = (0..n).map(|i| if i == 0 { a } else if i == n - 1 { b } else { a + step * (i as f64 + (jitter_milli as f64 / 1000.0) * (g.unit() - 0.5)) }).collect();
                    ensure!(grid.windows(2).all(|w| w[0] < w[1]), "harness: grid not increasing in {:?}", c);
                    let density = |_i: usize, x: f64| LogProb(ln_f(c, a, b, x));
                    let r = *LogProb::ln_trapezoidal_integrate_grid_exp(density, &grid);
                    let mut terms = Vec::with_capacity(n - 1);
                    let mut l0 = ln_f(c, a, b, grid[0]);
                    for i in 1..n {
                        let l1 = ln_f(c, a, b, grid[i]);
                        let (hi, lo) = (l0.max(l1), l0.min(l1));
                        terms.push(if hi == f64::NEG_INFINITY { hi } else { hi + (lo - hi).exp().ln_1p() - 2f64.ln() + (grid[i] - grid[i - 1]).ln() });
                        l0 = l1;
                    }
                    compare("ln_trapezoidal_integrate_grid_exp", c, r, &terms, 0.0, 2.0 * REL)?
                }
            };

            let mut pass = Pass::new(n >= 255);
            if let Some(l) = rung!("grid points", n) {
                pass.add(l);
            }
            pass.add_if(n >= 2_000_000, "grid points >= 2 million");
            pass.add(match c.rule {
                Rule::Trapezoid => "trapezoid",
                Rule::Simpson => "simpson",
                Rule::Grid { .. } => "trapezoid on grid",
                Rule::TrapezoidF32 => "trapezoid, f32 grid",
                Rule::SimpsonF32 => "simpson, f32 grid",
            });
            pass.add(match c.dens {
                Dens::Const { .. } => "constant density",
                Dens::Peak { .. } => "narrow peak on a low floor",
                Dens::Wide { .. } => "wide gaussian",
            });
            pass.add_if(reference <= 250.0, "sum/max <= 250: the property's 0.5 % bound is asserted");
            pass.add_if(reference > 250.0, "sum/max > 250: relative bound asserted");
            pass.add_if(small > 0.0051 && reference <= 250.0, "operands individually < 1e-5 of the largest carry > 0.5 % of it");
            Ok(pass)
        }

        pub fn enumerate(tier: Tier) -> Box<dyn Iterator<Item = Case>> {
            let mut v = Vec::new();
            let mut k = 0usize;
            let mut ns = ladder((1 << 20) + 1);
            ns.extend([2_000_000, 2_000_001]);
            for &n in &ns {
                let odd = n % 2 == 1;
                let peak = |k: usize| Dens::Peak { centre: [32_768u16, 100, 65_400, 21_845][k % 4], sigma_steps_milli: [600u32, 2_000, 8_000, 20_000][(k / 2) % 4], floor_share_milli: [20u32, 8, 300, 1500][(k / 3) % 4] };
                let smooth = |k: usize| if k % 2 == 0 { Dens::Const { c_milli: [-2_300i32, 0, -120_000][k % 3] } } else { Dens::Wide { div: [4u8, 10, 40][k % 3] } };
                let heavy = n > 140_000 && tier == Tier::Quick;
                // narrow peak on a low floor: every rule
                v.push(Case { rule: Rule::Trapezoid, dens: peak(k), n: n as u32, interval: (k % 4) as u8 });
                k += 1;
                if odd {
                    v.push(Case { rule: Rule::Simpson, dens: peak(k), n: n as u32, interval: (k % 4) as u8 });
                    k += 1;
                }
                v.push(Case { rule: Rule::Grid { jitter_milli: [0u16, 400, 900][k % 3] }, dens: peak(k), n: n as u32, interval: (k % 4) as u8 });
                k += 1;
                // smooth densities (every node matters): one rule per value above 140 000 in the quick tier
                let rules: Vec<Rule> = if odd { vec![Rule::Simpson, Rule::Trapezoid, Rule::Grid { jitter_milli: 500 }] } else { vec![Rule::Trapezoid, Rule::Grid { jitter_milli: 500 }] };
                for (ri, &rule) in rules.iter().enumerate() {
                    if heavy && ri != k % rules.len() {
                        continue;
                    }
                    v.push(Case { rule, dens: smooth(k), n: n as u32, interval: (k % 4) as u8 });
                    k += 1;
                }
                if n <= 70_000 {
                    v.push(Case { rule: Rule::TrapezoidF32, dens: smooth(k), n: n as u32, interval: (k % 2) as u8 });
                    k += 1;
                    if odd {
                        v.push(Case { rule: Rule::SimpsonF32, dens: smooth(k + 1), n: n as u32, interval: (k % 2) as u8 });
                        k += 1;
                    }
                }
            }
            Box::new(v.into_iter())
        }

        pub fn strat(tier: Tier) -> BoxedStrategy<Case> {
            let nmax: u64 = match tier {
                Tier::Quick => 600_000,
                Tier::Thorough => 2_000_001,
            };
            let l = ladder(nmax);
            let nl = l.len();
            let size = prop_oneof![3 => (0..nl, -2i64..=2).prop_map(move |(i, d)| (l[i] as i64 + d).max(3) as u64), 1 => 255u64..=nmax];
            let dens = prop_oneof![
                2 => (-200_000i32..=3_000).prop_map(|c_milli| Dens::Const { c_milli }),
                4 => (any::<u16>(), 500u32..=25_000, prop_oneof![Just(0u32), 6u32..=50, 50u32..=3_000]).prop_map(|(centre, sigma_steps_milli, floor_share_milli)| Dens::Peak { centre, sigma_steps_milli, floor_share_milli }),
                2 => (1u8..=60).prop_map(|div| Dens::Wide { div }),
            ];
            (size, dens, 0u8..5, 0u16..1000, 0u8..4)
                .prop_map(|(n, dens, which, jitter_milli, interval)| {
                    let mut n = n;
                    let narrow = matches!(dens, Dens::Peak { .. });
                    let rule = match which {
                        0 => Rule::Trapezoid,
                        1 => Rule::Simpson,
                        2 => Rule::Grid { jitter_milli },
                        3 if !narrow => Rule::TrapezoidF32,
                        4 if !narrow => Rule::SimpsonF32,
                        _ => Rule::Grid { jitter_milli: 0 },
                    };
                    if matches!(rule, Rule::TrapezoidF32 | Rule::SimpsonF32) {
                        n = n.min(70_000);
                    }
                    if matches!(rule, Rule::Simpson | Rule::SimpsonF32) && n % 2 == 0 {
                        n += 1;
                    }
                    let interval = if matches!(rule, Rule::TrapezoidF32 | Rule::SimpsonF32) { interval % 2 } else { interval };
                    Case { rule, dens, n: n as u32, interval }
                })
                .boxed()
        }
    }
}

pub fn property() -> Property {
    Property {
        id: "C15",
        rule: "binary: pairs of LogProbs (ln 0, ln 1, log-uniform over [1e-200,1], fine-grained near ln 1, some below 1e-200; independent, equal, a few units apart, differences straddling the switch point 0.693 of ln_1m_exp and the fastexp cut-off 500) through ln_add_exp (both orders), ln_sub_exp (larger first), ln_one_minus_exp; lists: 0..=200 LogProbs (narrow band, wide band, all equal, with ln 0 entries) through ln_sum_exp and ln_cumsum_exp; integrate: trapezoid / Simpson (odd n) with n in 3..=201 points and trapezoid on random increasing grids over constant, Gaussian, exponential and Beta-like log-densities; convert: every composition of the Prob/LogProb/PHRED conversions on p in {0} u [1e-200,1] and PHRED in [0,2000] u {inf}, Prob::checked on boundary, neighbouring, special and random values. Oracle: the same formula in plain f64, both sides divided by the largest operand (|exp(result - lmax) - sum exp(l_i - lmax)| <= 0.005, the property's 0.5 % of the largest operand, evaluated without underflow); ln 0 neutral (unchanged within 1e-12 in log space); never NaN; conversions through the fast exponential within 0.5 % relative, all others within 1e-9; checked() accepts exactly [0,1]. Non-trivial: binary = two finite operands less than 40 apart; lists = length >= 3 with >= 2 finite entries; integrate = every case; convert = 0 < p < 1. Distinct = distinct serialised case. LARGE-SCALE (C15/large-*): cases are {shape, n, top, position, seed} / {rule, density, n, interval}, expanded deterministically by splitmix64. Lists: length n, index of the maximum, number of ln(0) entries and number of entries equal to the maximum on every rung 255..257 .. 2^20-1..2^20+1 (and 70000), shapes: dominant entry + tail, all equal, mostly ln(0), sorted ascending/descending (closed form: geometric series), uniform random, many ties; ln_sum_exp and every prefix of ln_cumsum_exp (running reference sum). Tails: one dominant entry plus 0.0093*e^d entries d..d+0.3 nats below it (they carry ~0.8 % of it) for every d = 11.6, 11.85, .. 22.1 (quick; up to 3.7e7 entries) / .. 23.1 (thorough; 1e8 entries). Integration: trapezoid, Simpson (odd n), trapezoid on a jittered grid, and the f32 instantiations, n on every rung up to 2^20+1 and 2 000 000 / 2 000 001, densities: narrow Gaussian bump (0.6-20 grid steps wide) on a floor whose n values together carry 0.8-150 % of the bump, constant, wide Gaussian. Oracle: the same sums in plain f64; asserted bound in units of the largest operand: max(0.005, 2e-5 * reference) (4e-5 for the grid integrator), i.e. the bound of the property whenever sum/max <= 250 and a relative 2e-5 above. Non-trivial there: n >= 255.",
        assumptions: &[
            "ln_sub_exp is only called with first operand >= second (it asserts this: a negative probability has no logarithm)",
            "lists have at most 200 entries and integration grids at most 201 points: the accumulated error of the fast exponential (n-1)*8.9e-6 then stays inside the stated 0.5 %",
            "integration bounds satisfy a < b, grids are strictly increasing, Simpson is called with odd n (it asserts this)",
            "conversions through the fast exponential are checked for p >= 1e-200 (below e^-500 the fast exponential documents a flush to zero)",
            "large-scale sub-checks assert max(0.005, 2e-5 * sum/max) of the largest operand: for sums far above the largest operand the absolute bound of the property is tighter than the documented per-term accuracy (8.9e-6) of the fast exponential allows, so only the weaker relative bound is demanded there",
            "large-scale tails need 0.005*e^d entries at distance d: d <= 22.1 nats (quick) / 23.1 (thorough); a cut-off beyond e^-23.1 (1e-10) would need more than 1e8 entries per list",
            "f32 integration grids are used with constant and wide Gaussian densities only (node positions carry f32 rounding)",
        ],
        subs: vec![
            Box::new(PropSub {
                name: "C15/binary",
                quick: 1_600_000,
                thorough: 32_000_000,
                shards_quick: 16,
                shards_thorough: 16,
                strat: binary::strat,
                check: binary::check,
                must_reach: &[
                    "operands > 40 apart",
                    "equal operands",
                    "one operand ln(0)",
                    "both ln(0)",
                    "ln_sub_exp at the switch point of ln_1m_exp",
                    "just above the switch point (-0.693)",
                    "just below the switch point (-0.693)",
                    "difference beyond the fastexp cut-off (500)",
                    "operand ln(1)",
                ],
                watch: false,
            }),
            Box::new(PropSub {
                name: "C15/lists",
                quick: 128_000,
                thorough: 3_000_000,
                shards_quick: 16,
                shards_thorough: 16,
                strat: lists::strat,
                check: lists::check,
                must_reach: &["empty list", "length 1", "length 200", "contains ln(0) entries", "all entries ln(0)", "maximum not first", "spread < 5 (every entry matters)", "spread > 40"],
                watch: false,
            }),
            Box::new(PropSub {
                name: "C15/long-tail-lists",
                quick: 16_000,
                thorough: 400_000,
                shards_quick: 16,
                shards_thorough: 16,
                strat: longlists::strat,
                check: longlists::check,
                must_reach: &["tail carries more than 0.5 percent of the sum", "tail > 0.5 percent although every tail entry is < 1e-5 of the largest", "1000+ entries", "dominant entry last"],
                watch: false,
            }),
            Box::new(PropSub {
                name: "C15/integrate",
                quick: 192_000,
                thorough: 3_000_000,
                shards_quick: 16,
                shards_thorough: 16,
                strat: integrate::strat,
                check: integrate::check,
                must_reach: &["trapezoid", "simpson", "trapezoid on grid", "constant density", "gaussian density", "exponential density", "beta-like density", "n=3", "n=201", "density zero at a node"],
                watch: false,
            }),
            Box::new(PropSub {
                name: "C15/convert",
                quick: 640_000,
                thorough: 12_000_000,
                shards_quick: 16,
                shards_thorough: 16,
                strat: convert::strat,
                check: convert::check,
                must_reach: &["p = 0", "p = 1", "PHRED +inf", "checked() rejects", "checked() accepts", "checked(NaN)", "checked(-0.0)", "checked(nearest outside value)", "checked(boundary inside)", "checked(+-inf)"],
                watch: false,
            }),
            // ---- large-scale sub-checks (threshold ladders for list length, index of the maximum, ln(0) entries, ties, grid points)
            Box::new(ExhSub { name: "C15/large-lists", enumerate: large::lists::enumerate, check: large::lists::check, must_reach: &["list length in 255..257", "list length in 511..513", "list length in 1023..1025", "list length in 4095..4097", "list length in 8191..8193", "list length in 16383..16385", "list length in 32767..32769", "list length in 65535..65537", "list length in 131071..131073", "list length in 2^19-1..2^19+1", "list length in 2^20-1..2^20+1", "list length ~70000", "index of the maximum in 255..257", "index of the maximum in 511..513", "index of the maximum in 1023..1025", "index of the maximum in 4095..4097", "index of the maximum in 8191..8193", "index of the maximum in 16383..16385", "index of the maximum in 32767..32769", "index of the maximum in 65535..65537", "index of the maximum in 131071..131073", "index of the maximum in 2^19-1..2^19+1", "index of the maximum in 2^20-1..2^20+1", "index of the maximum ~70000", "number of ln(0) entries in 255..257", "number of ln(0) entries in 511..513", "number of ln(0) entries in 1023..1025", "number of ln(0) entries in 4095..4097", "number of ln(0) entries in 8191..8193", "number of ln(0) entries in 16383..16385", "number of ln(0) entries in 32767..32769", "number of ln(0) entries in 65535..65537", "number of ln(0) entries in 131071..131073", "number of ln(0) entries in 2^19-1..2^19+1", "number of ln(0) entries in 2^20-1..2^20+1", "number of ln(0) entries ~70000", "index of the maximum >= 65536", "more than 65535 ln(0) entries", "entries equal to the maximum in 255..257", "entries equal to the maximum in 511..513", "entries equal to the maximum in 65535..65537", "more than 65535 entries equal to the maximum", "maximum first", "maximum last", "ln_cumsum_exp checked", "sum/max <= 250: the property's 0.5 % bound is asserted", "sum/max > 250: relative bound 2e-5 asserted", "tiny probabilities (largest < e^-50)", "shape: dominant entry + tail", "shape: all equal", "shape: mostly ln(0)", "shape: sorted ascending", "shape: sorted descending", "shape: uniform random", "shape: many ties of the maximum", "tail > 0.5 % of the maximum although every tail entry < 1e-5 of it", "tail > 0.5 % of the maximum although every tail entry < 1e-6 of it", "tail > 0.5 % of the maximum although every tail entry < 1e-7 of it"] }),
            Box::new(ExhSub { name: "C15/large-tails", enumerate: large::lists::enumerate_tails, check: large::lists::check, must_reach: &["tail > 0.5 % of the maximum although every tail entry < 1e-5 of it", "tail > 0.5 % of the maximum although every tail entry < 1e-6 of it", "tail > 0.5 % of the maximum although every tail entry < 1e-7 of it", "tail > 0.5 % of the maximum although every tail entry < 1e-8 of it", "tail > 0.5 % of the maximum although every tail entry < 1e-9 of it", "list length > 2^20+1", "index of the maximum >= 65536", "maximum first", "maximum last", "ln_cumsum_exp checked"] }),
            Box::new(ExhSub { name: "C15/large-integrate", enumerate: large::integrate::enumerate, check: large::integrate::check, must_reach: &["grid points in 255..257", "grid points in 511..513", "grid points in 1023..1025", "grid points in 4095..4097", "grid points in 8191..8193", "grid points in 16383..16385", "grid points in 32767..32769", "grid points in 65535..65537", "grid points in 131071..131073", "grid points in 2^19-1..2^19+1", "grid points in 2^20-1..2^20+1", "grid points ~70000", "grid points >= 2 million", "trapezoid", "simpson", "trapezoid on grid", "trapezoid, f32 grid", "simpson, f32 grid", "constant density", "narrow peak on a low floor", "wide gaussian", "operands individually < 1e-5 of the largest carry > 0.5 % of it", "sum/max <= 250: the property's 0.5 % bound is asserted", "sum/max > 250: relative bound asserted"] }),
            Box::new(PropSub { name: "C15/large-lists-random", quick: 960, thorough: 8_000, shards_quick: 16, shards_thorough: 16, strat: large::lists::strat, check: large::lists::check, must_reach: &["ln_cumsum_exp checked", "index of the maximum >= 65536", "shape: dominant entry + tail", "shape: all equal", "shape: mostly ln(0)"], watch: true }),
            Box::new(PropSub { name: "C15/large-integrate-random", quick: 960, thorough: 8_000, shards_quick: 16, shards_thorough: 16, strat: large::integrate::strat, check: large::integrate::check, must_reach: &["trapezoid", "simpson", "trapezoid on grid", "narrow peak on a low floor"], watch: true }),
        ],
    }
}
