//! C11 — FASTA/FASTQ round trip is lossless, layout-independent and truncation-safe;
//! the fastx sniffer selects the matching parser.
//!
//! Sub-checks
//!   C11/fasta, C11/fastq : records -> writer -> bytes -> readers (every construction path,
//!                          BufReader capacity and read() fragmentation, with injected EINTR),
//!                          harness re-layout (re-wrapped lines, CRLF, optional final terminator),
//!                          sniffer (get_kind, get_kind_seek, EitherRecords), truncation at every /
//!                          sampled offsets through all three parsers.
//!   C11/bytes            : arbitrary bytes / grammar-aware junk / damaged valid files through
//!                          all three parsers: no panic, bounded number of items.

use crate::engine::gen::idx;
use crate::engine::*;
use crate::oracles::io::{new_log, wrap_cyclic, ChunkedReader, Log};
use crate::{ensure, fail};
use bio::io::fasta::FastaRead;
use bio::io::fastq::FastqRead;
use bio::io::fastx::Record as FxRecord;
use bio::io::{fasta, fastq, fastx};
use proptest::prelude::*;
use serde::{Deserialize, Serialize};
use std::io::{BufReader, Read};
use std::rc::Rc;

// ---------------------------------------------------------------------------
// case data

#[derive(Serialize, Deserialize, Debug, Clone, Copy, PartialEq, Eq)]
pub enum Kind {
    Fasta,
    Fastq,
}

#[derive(Serialize, Deserialize, Debug, Clone)]
pub struct Rec {
    pub id: String,
    pub desc: Option<String>,
    pub seq: B,
    /// same length as `seq`; ignored for FASTA
    pub qual: B,
}

#[derive(Serialize, Deserialize, Debug, Clone)]
pub struct Io {
    /// BufReader capacity (>= 1); path 2 (`Reader::new`) always uses std's default 8192
    pub cap: usize,
    /// cyclic read() schedule: n >= 1 = deliver at most n bytes, 0 = fail once with ErrorKind::Interrupted
    pub sched: Vec<u32>,
    /// 0: with_capacity + records(), 1: from_bufread + repeated read() into one Record,
    /// 2: new + records(), 3: from_bufread + records()
    pub path: u8,
}

#[derive(Serialize, Deserialize, Debug, Clone)]
pub struct Layout {
    /// cyclic line widths (each >= 1) applied to the sequence and, identically, to the quality string;
    /// empty = everything on one line
    pub widths: Vec<usize>,
    pub crlf: bool,
    /// false: the terminator of the very last line of the file is omitted
    pub final_newline: bool,
}

#[derive(Serialize, Deserialize, Debug, Clone)]
pub struct Case {
    pub kind: Kind,
    pub recs: Vec<Rec>,
    /// FASTA writer: set_linewrap
    pub wrap: Option<usize>,
    /// writer built with with_capacity(n) instead of new()
    pub wcap: Option<usize>,
    /// write through Record::with_attrs + write_record instead of write()
    pub via_record: bool,
    /// reader configurations; all are used for the round trip, truncations cycle through them
    pub ios: Vec<Io>,
    pub layout: Layout,
    /// truncate the harness layout instead of the writer's bytes
    pub cut_layout: bool,
    /// seed of the 64 sampled truncation offsets (a fixed function of this value, see `sampled_cuts`);
    /// only used when the stream is longer than ALL_CUTS_LIMIT
    pub cut_seed: u32,
}

fn mix(mut z: u64) -> u64 {
    z = z.wrapping_add(0x9e3779b97f4a7c15);
    z = (z ^ (z >> 30)).wrapping_mul(0xbf58476d1ce4e5b9);
    z = (z ^ (z >> 27)).wrapping_mul(0x94d049bb133111eb);
    z ^ (z >> 31)
}

/// 64 offsets in 0..=m: a fixed function of the seed (so the case stays small and shrinks fast);
/// always contains the last three offsets
fn sampled_cuts(seed: u32, m: usize) -> Vec<usize> {
    let mut v: Vec<usize> = (0..61u64).map(|j| idx((mix(((seed as u64) << 8) ^ j) & 0xffff) as u16, m)).collect();
    v.extend([m.saturating_sub(2), m.saturating_sub(1), m]);
    v.sort_unstable();
    v.dedup();
    v
}

/// streams up to this many bytes are cut at every offset
const ALL_CUTS_LIMIT: usize = 600;

// ---------------------------------------------------------------------------
// parsed view

#[derive(Clone, PartialEq, Eq)]
struct Parsed {
    id: String,
    desc: Option<String>,
    seq: Vec<u8>,
    qual: Option<Vec<u8>>,
}

impl std::fmt::Debug for Parsed {
    fn fmt(&self, f: &mut std::fmt::Formatter<'_>) -> std::fmt::Result {
        write!(f, "{{id {:?} desc {:?} seq {:?}", self.id, self.desc, lossy(&self.seq))?;
        if let Some(q) = &self.qual {
            write!(f, " qual {:?}", lossy(q))?;
        }
        write!(f, "}}")
    }
}

/// one item of a record stream: record + whether `check()` accepted it, or the error text
type Item = Result<(Parsed, bool), String>;

fn of_fasta(r: &fasta::Record) -> (Parsed, bool) {
    (Parsed { id: r.id().to_string(), desc: r.desc().map(|s| s.to_string()), seq: r.seq().to_vec(), qual: None }, r.check().is_ok())
}

fn of_fastq(r: &fastq::Record) -> (Parsed, bool) {
    (
        Parsed { id: r.id().to_string(), desc: r.desc().map(|s| s.to_string()), seq: r.seq().to_vec(), qual: Some(r.qual().to_vec()) },
        r.check().is_ok(),
    )
}

fn of_either(r: &fastx::EitherRecord) -> (Parsed, bool) {
    (
        Parsed {
            id: FxRecord::id(r).to_string(),
            desc: FxRecord::desc(r).map(|s| s.to_string()),
            seq: FxRecord::seq(r).to_vec(),
            qual: FxRecord::qual(r).map(|q| q.to_vec()),
        },
        FxRecord::check(r).is_ok(),
    )
}

fn model(kind: Kind, recs: &[Rec]) -> Vec<Parsed> {
    recs.iter()
        .map(|r| Parsed {
            id: r.id.clone(),
            desc: r.desc.clone(),
            seq: r.seq.0.clone(),
            qual: if kind == Kind::Fastq { Some(r.qual.0.clone()) } else { None },
        })
        .collect()
}

/// lazily built description of the stream under test (only needed for failure messages)
type What<'a> = &'a dyn Fn() -> String;

/// Drive an iterator that must be finite: at most `cap` items.
fn drive<T, E: std::fmt::Debug>(it: impl Iterator<Item = Result<T, E>>, cap: usize, conv: impl Fn(&T) -> (Parsed, bool), what: What) -> Result<Vec<Item>, Stop> {
    let mut out: Vec<Item> = Vec::new();
    for x in it {
        if out.len() >= cap {
            fail!("{}: does not terminate: more than {} items (stream length + 8)", what(), cap);
        }
        out.push(match x {
            Ok(r) => Ok(conv(&r)),
            Err(e) => Err(format!("{:?}", e)),
        });
    }
    Ok(out)
}

fn eff_cap(io: &Io) -> usize {
    if io.path % 4 == 2 {
        8192
    } else {
        io.cap.max(1)
    }
}

fn parse_fasta<R: Read>(src: R, io: &Io, cap: usize, what: What) -> Result<Vec<Item>, Stop> {
    let c = io.cap.max(1);
    match io.path % 4 {
        0 => drive(fasta::Reader::with_capacity(c, src).records(), cap, of_fasta, what),
        2 => drive(fasta::Reader::new(src).records(), cap, of_fasta, what),
        3 => drive(fasta::Reader::from_bufread(BufReader::with_capacity(c, src)).records(), cap, of_fasta, what),
        _ => {
            // the documented loop: read() into one reused Record until it comes back empty or fails
            let mut rd = fasta::Reader::from_bufread(BufReader::with_capacity(c, src));
            let mut rec = fasta::Record::new();
            let mut out: Vec<Item> = Vec::new();
            loop {
                if out.len() >= cap {
                    fail!("{}: read() loop does not terminate: more than {} records", what(), cap);
                }
                match rd.read(&mut rec) {
                    Err(e) => {
                        out.push(Err(format!("{:?}", e)));
                        break;
                    }
                    Ok(()) if rec.is_empty() => break,
                    Ok(()) => out.push(Ok(of_fasta(&rec))),
                }
            }
            Ok(out)
        }
    }
}

fn parse_fastq<R: Read>(src: R, io: &Io, cap: usize, what: What) -> Result<Vec<Item>, Stop> {
    let c = io.cap.max(1);
    match io.path % 4 {
        0 => drive(fastq::Reader::with_capacity(c, src).records(), cap, of_fastq, what),
        2 => drive(fastq::Reader::new(src).records(), cap, of_fastq, what),
        3 => drive(fastq::Reader::from_bufread(BufReader::with_capacity(c, src)).records(), cap, of_fastq, what),
        _ => {
            let mut rd = fastq::Reader::from_bufread(BufReader::with_capacity(c, src));
            let mut rec = fastq::Record::new();
            let mut out: Vec<Item> = Vec::new();
            loop {
                if out.len() >= cap {
                    fail!("{}: read() loop does not terminate: more than {} records", what(), cap);
                }
                match rd.read(&mut rec) {
                    Err(e) => {
                        out.push(Err(format!("{:?}", e)));
                        break;
                    }
                    Ok(()) if rec.is_empty() => break,
                    Ok(()) => out.push(Ok(of_fastq(&rec))),
                }
            }
            Ok(out)
        }
    }
}

fn parse_kind<R: Read>(kind: Kind, src: R, io: &Io, cap: usize, what: What) -> Result<Vec<Item>, Stop> {
    match kind {
        Kind::Fasta => parse_fasta(src, io, cap, what),
        Kind::Fastq => parse_fastq(src, io, cap, what),
    }
}

/// EitherRecords over a BufReader of the given capacity; optionally asks kind() first.
/// Returns (kind() answer if asked, items).
fn parse_either(src: ChunkedReader, io: &Io, ask_kind: bool, cap: usize, what: What) -> Result<(Option<Result<Kind, String>>, Vec<Item>), Stop> {
    let mut er = fastx::EitherRecords::new(BufReader::with_capacity(io.cap.max(1), src));
    let k = if ask_kind {
        Some(match er.kind() {
            Ok(fastx::Kind::FASTA) => Ok(Kind::Fasta),
            Ok(fastx::Kind::FASTQ) => Ok(Kind::Fastq),
            Err(e) => Err(format!("{:?}", e)),
        })
    } else {
        None
    };
    let items = drive(er, cap, of_either, what)?;
    Ok((k, items))
}

fn describe(items: &[Item]) -> String {
    let mut s = String::from("[");
    for (i, it) in items.iter().enumerate() {
        if i > 0 {
            s.push_str(", ");
        }
        match it {
            Ok((p, ok)) => s.push_str(&format!("{:?}{}", p, if *ok { "" } else { " (check() rejects)" })),
            Err(e) => s.push_str(&format!("Err({})", e)),
        }
        if s.len() > 1500 {
            s.push_str(", ...");
            break;
        }
    }
    s.push(']');
    s
}

fn show_bytes(b: &[u8]) -> String {
    if b.len() <= 400 {
        format!("{:?}", lossy(b))
    } else {
        format!("{:?}... ({} bytes)", lossy(&b[..400]), b.len())
    }
}

/// every item is a record equal to the model, in order, nothing more, nothing less
fn expect_exact(items: &[Item], want: &[Parsed], what: &str, bytes: &[u8], io: &Io) -> Result<(), Stop> {
    let ok = items.len() == want.len() && items.iter().zip(want).all(|(it, w)| matches!(it, Ok((p, _)) if p == w));
    ensure!(
        ok,
        "{}: stream {} read with capacity {} path {} schedule {:?}: got {} but the records are {:?}",
        what,
        show_bytes(bytes),
        eff_cap(io),
        io.path % 4,
        io.sched,
        describe(items),
        want
    );
    Ok(())
}

/// FASTQ clause for cut streams: the records that pass check() are original records in original order
fn expect_subsequence(items: &[Item], want: &[Parsed], what: &str, bytes: &[u8], cut: usize) -> Result<usize, Stop> {
    let mut j = 0;
    let mut n = 0;
    for it in items {
        if let Ok((p, true)) = it {
            if p.qual.is_none() {
                continue; // not a FASTQ record
            }
            while j < want.len() && &want[j] != p {
                j += 1;
            }
            ensure!(
                j < want.len(),
                "{}: stream {} cut at offset {}: record {:?} passes check() but is not one of the original records in original order {:?}; all items: {}",
                what,
                show_bytes(bytes),
                cut,
                p,
                want,
                describe(items)
            );
            j += 1;
            n += 1;
        }
    }
    Ok(n)
}

// ---------------------------------------------------------------------------
// rendering by the harness (independent of the writers)

fn render_one(kind: Kind, r: &Rec, widths: &[usize], nl: &[u8], out: &mut Vec<u8>) {
    out.push(if kind == Kind::Fasta { b'>' } else { b'@' });
    out.extend_from_slice(r.id.as_bytes());
    if let Some(d) = &r.desc {
        out.push(b' ');
        out.extend_from_slice(d.as_bytes());
    }
    out.extend_from_slice(nl);
    for l in wrap_cyclic(&r.seq, widths) {
        out.extend_from_slice(l);
        out.extend_from_slice(nl);
    }
    if kind == Kind::Fastq {
        out.push(b'+');
        out.extend_from_slice(nl);
        for l in wrap_cyclic(&r.qual, widths) {
            out.extend_from_slice(l);
            out.extend_from_slice(nl);
        }
    }
}

fn render(kind: Kind, recs: &[Rec], l: &Layout) -> Vec<u8> {
    let nl: &[u8] = if l.crlf { b"\r\n" } else { b"\n" };
    let mut out = Vec::new();
    for r in recs {
        render_one(kind, r, &l.widths, nl, &mut out);
    }
    if !l.final_newline && out.len() >= nl.len() {
        out.truncate(out.len() - nl.len());
    }
    out
}

fn write_with_library(c: &Case) -> Result<Vec<u8>, Stop> {
    let mut out: Vec<u8> = Vec::new();
    match c.kind {
        Kind::Fasta => {
            let mut w = match c.wcap {
                Some(n) => fasta::Writer::with_capacity(n.max(1), &mut out),
                None => fasta::Writer::new(&mut out),
            };
            w.set_linewrap(c.wrap);
            for r in &c.recs {
                let res = if c.via_record {
                    w.write_record(&fasta::Record::with_attrs(&r.id, r.desc.as_deref(), &r.seq))
                } else {
                    w.write(&r.id, r.desc.as_deref(), &r.seq)
                };
                ensure!(res.is_ok(), "fasta::Writer failed on an in-memory sink for record {:?}: {:?}", r, res);
            }
            let res = w.flush();
            ensure!(res.is_ok(), "fasta::Writer::flush failed on an in-memory sink: {:?}", res);
        }
        Kind::Fastq => {
            let mut w = match c.wcap {
                Some(n) => fastq::Writer::with_capacity(n.max(1), &mut out),
                None => fastq::Writer::new(&mut out),
            };
            for r in &c.recs {
                let res = if c.via_record {
                    w.write_record(&fastq::Record::with_attrs(&r.id, r.desc.as_deref(), &r.seq, &r.qual))
                } else {
                    w.write(&r.id, r.desc.as_deref(), &r.seq, &r.qual)
                };
                ensure!(res.is_ok(), "fastq::Writer failed on an in-memory sink for record {:?}: {:?}", r, res);
            }
            let res = w.flush();
            ensure!(res.is_ok(), "fastq::Writer::flush failed on an in-memory sink: {:?}", res);
        }
    }
    Ok(out)
}

/// FASTA writer with line wrap w: every record's sequence lines have exactly w symbols,
/// the last one 1..=w (no wrap: one line).  Sequences never contain '>' so header lines are
/// recognisable without the reader.
fn check_wrap_widths(c: &Case, written: &[u8]) -> Result<(), Stop> {
    let mut lens: Vec<Vec<usize>> = Vec::new();
    let body = match written.last() {
        Some(b'\n') => &written[..written.len() - 1],
        _ => written,
    };
    for line in body.split(|&b| b == b'\n') {
        if line.first() == Some(&b'>') {
            lens.push(Vec::new());
        } else if let Some(l) = lens.last_mut() {
            l.push(line.len());
        }
    }
    let mut want: Vec<Vec<usize>> = Vec::new();
    for r in &c.recs {
        let ws: Vec<usize> = c.wrap.iter().cloned().collect();
        want.push(wrap_cyclic(&r.seq, &ws).iter().map(|l| l.len()).collect());
    }
    ensure!(
        lens == want,
        "fasta::Writer with linewrap {:?} wrote {} : sequence line lengths per record {:?}, expected {:?}",
        c.wrap,
        show_bytes(written),
        lens,
        want
    );
    Ok(())
}

// ---------------------------------------------------------------------------
// the check

fn sched_of(io: &Io) -> &[u32] {
    &io.sched
}

pub fn check(c: &Case) -> R {
    ensure!(!c.recs.is_empty() && !c.ios.is_empty(), "harness: empty record list / io list generated");
    for r in &c.recs {
        ensure!(!r.id.is_empty() && !r.seq.is_empty() && (c.kind == Kind::Fasta || r.seq.len() == r.qual.len()), "harness: invalid record generated {:?}", r);
    }
    let kind = c.kind;
    let want = model(kind, &c.recs);
    let written = Rc::new(write_with_library(c)?);
    let n = written.len();
    let cap_items = n + 8;

    if kind == Kind::Fasta {
        check_wrap_widths(c, &written)?;
    }

    // (1) round trip under every reader configuration
    let log0: Log = new_log();
    for (i, io) in c.ios.iter().enumerate() {
        let src = ChunkedReader::whole(written.clone(), sched_of(io), if i == 0 { Some(log0.clone()) } else { None });
        let items = parse_kind(kind, src, io, cap_items, &|| format!("round trip of {} with {:?}", show_bytes(&written), io))?;
        expect_exact(&items, &want, "round trip (writer output)", &written, io)?;
    }

    // (2) harness layout: re-wrapped lines / CRLF / optional last terminator
    let relaid = Rc::new(render(kind, &c.recs, &c.layout));
    for io in c.ios.iter().take(2) {
        let src = ChunkedReader::whole(relaid.clone(), sched_of(io), None);
        let items = parse_kind(kind, src, io, relaid.len() + 8, &|| format!("re-layout {} with {:?}", show_bytes(&relaid), io))?;
        expect_exact(&items, &want, "re-layout (same records, other line layout)", &relaid, io)?;
    }

    // (3) sniffer
    {
        let io = &c.ios[0];
        // get_kind: first byte chained back in front
        let src = ChunkedReader::whole(written.clone(), sched_of(io), None);
        match fastx::get_kind(src) {
            Ok((chain, k)) => {
                let k = if k == fastx::Kind::FASTA { Kind::Fasta } else { Kind::Fastq };
                ensure!(k == kind, "get_kind on {} says {:?}, the stream is {:?}", show_bytes(&written), k, kind);
                let items = parse_kind(kind, chain, io, cap_items, &|| format!("reader returned by get_kind on {} with {:?}", show_bytes(&written), io))?;
                expect_exact(&items, &want, "reader returned by get_kind", &written, io)?;
            }
            Err(e) => fail!("get_kind on {} failed: {:?}", show_bytes(&written), e),
        }
        // get_kind_seek: position restored
        let mut src = ChunkedReader::whole(written.clone(), sched_of(io), None);
        match fastx::get_kind_seek(&mut src) {
            Ok(k) => {
                let k = if k == fastx::Kind::FASTA { Kind::Fasta } else { Kind::Fastq };
                ensure!(k == kind, "get_kind_seek on {} says {:?}, the stream is {:?}", show_bytes(&written), k, kind);
                let items = parse_kind(kind, src, io, cap_items, &|| format!("reader after get_kind_seek on {} with {:?}", show_bytes(&written), io))?;
                expect_exact(&items, &want, "same reader after get_kind_seek", &written, io)?;
            }
            Err(e) => fail!("get_kind_seek on {} failed: {:?}", show_bytes(&written), e),
        }
        // EitherRecords, with and without asking kind() first, on both layouts
        for (j, data) in [&written, &relaid].into_iter().enumerate() {
            let io = &c.ios[j % c.ios.len()];
            let ask = (j == 0) ^ c.via_record;
            let src = ChunkedReader::whole(data.clone(), sched_of(io), None);
            let (k, items) = parse_either(src, io, ask, data.len() + 8, &|| format!("EitherRecords on {} with {:?}", show_bytes(data), io))?;
            if let Some(k) = k {
                ensure!(k == Ok(kind), "EitherRecords::kind() on {} says {:?}, the stream is {:?}", show_bytes(data), k, kind);
            }
            expect_exact(&items, &want, "EitherRecords", data, io)?;
        }
    }

    // (4)+(5) truncation
    let cut_src = if c.cut_layout { relaid.clone() } else { written.clone() };
    let m = cut_src.len();
    let all = m <= ALL_CUTS_LIMIT;
    let offsets: Vec<usize> = if all {
        (0..=m).collect()
    } else {
        sampled_cuts(c.cut_seed, m)
    };
    let other = if kind == Kind::Fasta { Kind::Fastq } else { Kind::Fasta };
    let mut cut_valid_records = 0usize;
    let mut cut_with_error = 0usize;
    for (k, &cut) in offsets.iter().enumerate() {
        let io = &c.ios[k % c.ios.len()];
        let cap = cut + 8;
        let items = parse_kind(kind, ChunkedReader::new(cut_src.clone(), cut, sched_of(io), None), io, cap, &|| format!("{:?} reader on {} cut at offset {} with {:?}", kind, show_bytes(&cut_src), cut, io))?;
        if kind == Kind::Fastq {
            cut_valid_records += expect_subsequence(&items, &want, "fastq::Reader", &cut_src, cut)?;
        }
        if items.iter().any(|i| i.is_err()) {
            cut_with_error += 1;
        }
        // the other parser and the sniffer see the same cut stream: no panic, bounded
        parse_kind(other, ChunkedReader::new(cut_src.clone(), cut, sched_of(io), None), io, cap, &|| format!("{:?} reader on {} cut at offset {} with {:?}", other, show_bytes(&cut_src), cut, io))?;
        let (_, items) = parse_either(ChunkedReader::new(cut_src.clone(), cut, sched_of(io), None), io, k % 2 == 0, cap, &|| format!("EitherRecords on {} cut at offset {} with {:?}", show_bytes(&cut_src), cut, io))?;
        if kind == Kind::Fastq {
            expect_subsequence(&items, &want, "EitherRecords", &cut_src, cut)?;
        }
    }

    // classes / non-triviality
    let mut starts: Vec<u64> = Vec::new();
    {
        let ws: Vec<usize> = c.wrap.iter().cloned().collect();
        let mut off = 0u64;
        for r in &c.recs {
            starts.push(off);
            let mut tmp = Vec::new();
            let w: &[usize] = if kind == Kind::Fasta { &ws } else { &[] };
            render_one(kind, r, w, b"\n", &mut tmp);
            off += tmp.len() as u64;
        }
    }
    let boundary_inside = log0.borrow().boundaries.iter().any(|&p| p > 0 && (p as usize) < n && !starts.contains(&p));
    let longer_than_cap = c.ios.iter().any(|io| c.recs.iter().any(|r| r.seq.len() > eff_cap(io)));
    let multi = c.recs.len() >= 2;
    let mut pass = Pass::new(multi && longer_than_cap && boundary_inside);
    pass.add_if(longer_than_cap, "sequence longer than buffer capacity");
    pass.add_if(boundary_inside, "chunk boundary inside a record");
    pass.add_if(c.ios.iter().any(|io| eff_cap(io) == 1), "capacity 1");
    pass.add_if(c.ios.iter().any(|io| eff_cap(io) == 8192), "capacity 8192 (default)");
    pass.add_if(c.ios.iter().any(|io| io.sched.contains(&0)), "EINTR injected");
    pass.add_if(c.ios.iter().any(|io| io.sched.iter().all(|&s| s <= 3)), "schedule of 1..3 byte reads");
    pass.add_if(c.ios.iter().any(|io| io.path % 4 == 1), "repeated read() into one Record");
    pass.add_if(c.ios.iter().any(|io| io.path % 4 == 3), "from_bufread");
    pass.add_if(c.recs.iter().any(|r| r.desc.is_some()), "description present");
    pass.add_if(c.recs.iter().any(|r| r.desc.is_none()), "no description");
    pass.add_if(c.recs.iter().any(|r| r.desc.as_deref().map_or(false, |d| d.contains('\t') || d.contains("  "))), "description with tab / double space");
    pass.add_if(c.recs.iter().any(|r| !r.id.is_ascii() || r.desc.as_deref().map_or(false, |d| !d.is_ascii())), "non-ASCII header");
    pass.add_if(c.layout.crlf, "CRLF");
    pass.add_if(!c.layout.final_newline, "last line unterminated");
    pass.add_if(c.layout.widths.len() >= 2, "ragged re-wrap");
    let min_w = c.layout.widths.iter().cloned().min();
    let rewrapped_multi = min_w.map_or(false, |w| c.recs.iter().any(|r| r.seq.len() > w));
    if kind == Kind::Fastq {
        pass.add_if(c.recs.iter().any(|r| r.qual.first() == Some(&b'@')), "quality starts with '@'");
        pass.add_if(c.recs.iter().any(|r| r.qual.first() == Some(&b'+')), "quality starts with '+'");
        pass.add_if(rewrapped_multi, "multi-line FASTQ");
        pass.add_if(
            min_w.map_or(false, |_| c.recs.iter().any(|r| wrap_cyclic(&r.qual, &c.layout.widths).iter().skip(1).any(|l| l[0] == b'@' || l[0] == b'+'))),
            "wrapped quality line starts with '@'/'+'",
        );
        pass.add_if(cut_valid_records > 0, "cut stream yields complete records");
    } else {
        pass.add_if(rewrapped_multi, "multi-line FASTA (re-layout)");
        pass.add_if(c.wrap.map_or(false, |w| c.recs.iter().any(|r| r.seq.len() > w)), "writer wraps lines");
        pass.add_if(c.wrap.map_or(false, |w| c.recs.iter().any(|r| r.seq.len() % w == 0 && r.seq.len() > w)), "sequence length multiple of wrap");
        pass.add_if(c.wrap == Some(1), "wrap 1");
    }
    pass.add_if(all, "every-offset truncation");
    pass.add_if(!all, "sampled truncation");
    pass.add_if(c.cut_layout, "truncation of the re-laid-out stream");
    pass.add_if(cut_with_error > 0, "cut stream yields an error item");
    pass.add_if(c.wcap.is_some(), "writer with small capacity");
    pass.add_if(multi, ">= 2 records");
    Ok(pass)
}

// ---------------------------------------------------------------------------
// arbitrary bytes

#[derive(Serialize, Deserialize, Debug, Clone)]
pub struct BytesCase {
    pub data: B,
    pub io: Io,
}

pub fn check_bytes(c: &BytesCase) -> R {
    let data = Rc::new(c.data.0.clone());
    let n = data.len();
    let cap = n + 8;
    let mut io = c.io.clone();
    let mut fa_items = 0usize;
    let mut fq_items = 0usize;
    let mut fq_continued = false;
    let mut fa_rec = false;
    let mut fq_rec = false;
    for path in [io.path % 4, (io.path + 1) % 4] {
        io.path = path;
        let items = parse_fasta(ChunkedReader::whole(data.clone(), &io.sched, None), &io, cap, &|| format!("fasta reader on the bytes {} with {:?}", show_bytes(&data), io))?;
        fa_items += items.len();
        fa_rec |= items.iter().any(|i| i.is_ok());
        let items = parse_fastq(ChunkedReader::whole(data.clone(), &io.sched, None), &io, cap, &|| format!("fastq reader on the bytes {} with {:?}", show_bytes(&data), io))?;
        fq_items += items.len();
        fq_rec |= items.iter().any(|i| i.is_ok());
        if let Some(p) = items.iter().position(|i| i.is_err()) {
            fq_continued |= p + 1 < items.len();
        }
    }
    let (k, items) = parse_either(ChunkedReader::whole(data.clone(), &io.sched, None), &io, true, cap, &|| format!("EitherRecords (kind() first) on the bytes {} with {:?}", show_bytes(&data), io))?;
    let (_, items2) = parse_either(ChunkedReader::whole(data.clone(), &io.sched, None), &io, false, cap, &|| format!("EitherRecords on the bytes {} with {:?}", show_bytes(&data), io))?;
    let sniff_rejects = matches!(k, Some(Err(_)));
    let _ = fastx::get_kind(ChunkedReader::whole(data.clone(), &io.sched, None)).map(|_| ());
    let mut s = ChunkedReader::whole(data.clone(), &io.sched, None);
    let _ = fastx::get_kind_seek(&mut s);
    let _ = fastx::get_kind_detailed(ChunkedReader::whole(data.clone(), &io.sched, None)).map(|_| ()).map_err(|_| ());

    let mut pass = Pass::new(n >= 2 && (fa_items + fq_items + items.len() + items2.len()) > 0);
    pass.add_if(n == 0, "empty input");
    pass.add_if(std::str::from_utf8(&data).is_err(), "invalid UTF-8");
    pass.add_if(data.first() == Some(&b'>'), "starts with '>'");
    pass.add_if(data.first() == Some(&b'@'), "starts with '@'");
    pass.add_if(sniff_rejects, "sniffer rejects");
    pass.add_if(fa_rec, "fasta reader yields a record");
    pass.add_if(fq_rec, "fastq reader yields a record");
    pass.add_if(fq_continued, "fastq reader continues after an error");
    pass.add_if(data.contains(&b'\r'), "contains CR");
    pass.add_if(eff_cap(&c.io) == 1, "capacity 1");
    pass.add_if(data.split(|&b| b == b'\n').any(|l| l.len() > eff_cap(&c.io)), "line longer than capacity");
    Ok(pass)
}

// ---------------------------------------------------------------------------
// strategies

fn id_char() -> BoxedStrategy<char> {
    prop_oneof![
        150 => (b'!'..=b'~').prop_map(|b| b as char),
        1 => prop_oneof![Just('é'), Just('λ'), Just('日'), Just('ß')],
    ]
    .boxed()
}

fn id_strat() -> BoxedStrategy<String> {
    proptest::collection::vec(id_char(), 1..=12).prop_map(|v| v.into_iter().collect()).boxed()
}

/// non-empty, no line breaks, no leading/trailing whitespace; tabs and runs of blanks inside
fn desc_strat() -> BoxedStrategy<String> {
    let ch = prop_oneof![
        120 => (b'!'..=b'~').prop_map(|b| b as char),
        24 => Just(' '),
        4 => Just('\t'),
        1 => prop_oneof![Just('é'), Just('λ'), Just('日')],
    ];
    proptest::collection::vec(ch, 1..=24)
        .prop_map(|v| {
            let s: String = v.into_iter().collect();
            let t = s.trim_matches(|c| c == ' ' || c == '\t');
            if t.is_empty() {
                "d".to_string()
            } else {
                t.to_string()
            }
        })
        .boxed()
}

fn seq_char() -> BoxedStrategy<u8> {
    prop_oneof![
        6 => prop_oneof![Just(b'A'), Just(b'C'), Just(b'G'), Just(b'T'), Just(b'N')],
        2 => b'a'..=b'z',
        2 => b'A'..=b'Z',
        1 => prop_oneof![Just(b'*'), Just(b'.'), Just(b'-')],
    ]
    .boxed()
}

fn rec_strat() -> BoxedStrategy<Rec> {
    let first_q = prop_oneof![4 => b'!'..=b'~', 1 => Just(b'@'), 1 => Just(b'+')];
    let pair = || (seq_char(), b'!'..=b'~');
    // no flat_map: the union shrinks towards the shorter ranges
    let pairs = prop_oneof![
        3 => proptest::collection::vec(pair(), 1..=8),
        4 => proptest::collection::vec(pair(), 9..=70),
        2 => proptest::collection::vec(pair(), 71..=300),
        1 => proptest::collection::vec(pair(), 301..=2000),
    ];
    (id_strat(), proptest::option::weighted(0.6, desc_strat()), pairs, first_q)
        .prop_map(|(id, desc, pairs, fq)| {
            let seq: Vec<u8> = pairs.iter().map(|p| p.0).collect();
            let mut qual: Vec<u8> = pairs.iter().map(|p| p.1).collect();
            qual[0] = fq;
            Rec { id, desc, seq: B(seq), qual: B(qual) }
        })
        .boxed()
}

fn sched_strat() -> BoxedStrategy<Vec<u32>> {
    let sizes = prop_oneof![
        4 => proptest::collection::vec(1u32..=3, 1..=5),
        4 => proptest::collection::vec(1u32..=50, 1..=5),
        1 => proptest::collection::vec(1u32..=9000, 1..=3),
        1 => Just(vec![1_000_000u32]),
    ];
    // optional EINTR injections: zeros inserted after some of the entries (a positive entry always stays)
    (sizes, proptest::collection::vec(proptest::bool::weighted(0.25), 5), proptest::bool::weighted(0.4))
        .prop_map(|(sizes, zeros, inject)| {
            let mut v = Vec::new();
            for (i, s) in sizes.iter().enumerate() {
                v.push(*s);
                if inject && zeros[i % zeros.len()] {
                    v.push(0);
                }
            }
            v
        })
        .boxed()
}

fn io_strat() -> BoxedStrategy<Io> {
    let cap = prop_oneof![3 => Just(1usize), 3 => 2usize..=8, 3 => 9usize..=64, 1 => Just(8192usize)];
    (cap, sched_strat(), 0u8..4).prop_map(|(cap, sched, path)| Io { cap, sched, path }).boxed()
}

fn layout_strat() -> BoxedStrategy<Layout> {
    let widths = prop_oneof![
        2 => Just(Vec::<usize>::new()),
        3 => (1usize..=6).prop_map(|w| vec![w]),
        3 => (7usize..=80).prop_map(|w| vec![w]),
        2 => proptest::collection::vec(1usize..=30, 2..=4),
    ];
    (widths, proptest::bool::weighted(0.45), proptest::bool::weighted(0.8)).prop_map(|(widths, crlf, final_newline)| Layout { widths, crlf, final_newline }).boxed()
}

fn case_strat(kind: Kind) -> BoxedStrategy<Case> {
    let recs = prop_oneof![
        1 => proptest::collection::vec(rec_strat(), 1..=1),
        3 => proptest::collection::vec(rec_strat(), 2..=3),
        2 => proptest::collection::vec(rec_strat(), 4..=6),
    ];
    let wrap = prop_oneof![3 => Just(None), 2 => (1usize..=6).prop_map(Some), 4 => (7usize..=80).prop_map(Some)];
    (
        recs,
        wrap,
        proptest::option::weighted(0.3, 1usize..=64),
        any::<bool>(),
        proptest::collection::vec(io_strat(), 1..=3),
        layout_strat(),
        proptest::bool::weighted(0.4),
        any::<u32>(),
    )
        .prop_map(move |(recs, wrap, wcap, via_record, ios, layout, cut_layout, cut_seed)| Case {
            kind,
            recs,
            wrap: if kind == Kind::Fasta { wrap } else { None },
            wcap,
            via_record,
            ios,
            layout,
            cut_layout,
            cut_seed,
        })
        .boxed()
}

pub fn strat_fasta(_t: Tier) -> BoxedStrategy<Case> {
    case_strat(Kind::Fasta)
}

pub fn strat_fastq(_t: Tier) -> BoxedStrategy<Case> {
    case_strat(Kind::Fastq)
}

/// grammar-aware junk token
fn junk_token() -> BoxedStrategy<Vec<u8>> {
    prop_oneof![
        3 => Just(b">".to_vec()),
        3 => Just(b"@".to_vec()),
        3 => Just(b"+".to_vec()),
        5 => Just(b"\n".to_vec()),
        2 => Just(b"\r\n".to_vec()),
        1 => Just(b"\r".to_vec()),
        1 => Just(b" ".to_vec()),
        1 => Just(b"\t".to_vec()),
        4 => proptest::collection::vec(prop_oneof![Just(b'A'), Just(b'C'), Just(b'G'), Just(b'T'), Just(b'I'), Just(b'!')], 1..=12),
        1 => proptest::collection::vec(Just(b'A'), 60..=120),
        2 => Just(b"id desc".to_vec()),
        1 => Just(vec![0xffu8]),
        1 => Just(vec![0xc3u8]),
        1 => Just(vec![0x80u8]),
        1 => Just(vec![0xe6u8, 0x97]),
        1 => Just("é".as_bytes().to_vec()),
        1 => Just(vec![0u8]),
        1 => Just(b"\n\n".to_vec()),
        1 => Just(b"+\n".to_vec()),
        1 => Just(b"\n@".to_vec()),
        1 => Just(b"\n>".to_vec()),
    ]
    .boxed()
}

fn special_byte() -> BoxedStrategy<u8> {
    prop_oneof![
        Just(b'>'), Just(b'@'), Just(b'+'), Just(b'\n'), Just(b'\n'), Just(b'\r'), Just(b' '), Just(b'A'), Just(0xffu8), Just(0xc3u8), Just(0u8), any::<u8>()
    ]
    .boxed()
}

#[derive(Debug, Clone)]
enum Damage {
    Sub(u16, u8),
    Ins(u16, u8),
    Del(u16, u8),
    DupLine(u16),
    DropLine(u16),
}

fn apply_damage(mut v: Vec<u8>, ds: &[Damage]) -> Vec<u8> {
    for d in ds {
        match d {
            Damage::Sub(p, b) => {
                if !v.is_empty() {
                    let i = idx(*p, v.len() - 1);
                    v[i] = *b;
                }
            }
            Damage::Ins(p, b) => {
                let i = idx(*p, v.len());
                v.insert(i, *b);
            }
            Damage::Del(p, n) => {
                if !v.is_empty() {
                    let i = idx(*p, v.len() - 1);
                    let j = (i + 1 + (*n as usize % 8)).min(v.len());
                    v.drain(i..j);
                }
            }
            Damage::DupLine(p) | Damage::DropLine(p) => {
                let mut lines: Vec<Vec<u8>> = v.split_inclusive(|&b| b == b'\n').map(|l| l.to_vec()).collect();
                if !lines.is_empty() {
                    let i = idx(*p, lines.len() - 1);
                    if matches!(d, Damage::DupLine(_)) {
                        let l = lines[i].clone();
                        lines.insert(i, l);
                    } else {
                        lines.remove(i);
                    }
                }
                v = lines.concat();
            }
        }
    }
    v
}

fn damage_strat() -> BoxedStrategy<Damage> {
    prop_oneof![
        3 => (any::<u16>(), special_byte()).prop_map(|(p, b)| Damage::Sub(p, b)),
        3 => (any::<u16>(), special_byte()).prop_map(|(p, b)| Damage::Ins(p, b)),
        2 => (any::<u16>(), any::<u8>()).prop_map(|(p, n)| Damage::Del(p, n)),
        1 => any::<u16>().prop_map(Damage::DupLine),
        2 => any::<u16>().prop_map(Damage::DropLine),
    ]
    .boxed()
}

fn small_rec() -> BoxedStrategy<Rec> {
    (id_strat(), proptest::option::weighted(0.4, desc_strat()), proptest::collection::vec((seq_char(), b'!'..=b'~'), 1..=40))
        .prop_map(|(id, desc, pairs)| Rec { id, desc, seq: B(pairs.iter().map(|p| p.0).collect()), qual: B(pairs.iter().map(|p| p.1).collect()) })
        .boxed()
}

pub fn strat_bytes(_t: Tier) -> BoxedStrategy<BytesCase> {
    let data = prop_oneof![
        2 => proptest::collection::vec(any::<u8>(), 0..=120),
        5 => proptest::collection::vec(junk_token(), 0..=24).prop_map(|t| t.concat()),
        5 => (any::<bool>(), proptest::collection::vec(small_rec(), 1..=4), layout_strat(), proptest::collection::vec(damage_strat(), 1..=4), any::<u16>()).prop_map(
            |(fq, recs, layout, dmg, cut)| {
                let kind = if fq { Kind::Fastq } else { Kind::Fasta };
                let mut v = apply_damage(render(kind, &recs, &layout), &dmg);
                if cut % 4 == 0 {
                    let k = idx(cut, v.len());
                    v.truncate(k);
                }
                v
            }
        ),
    ];
    (data, io_strat()).prop_map(|(data, io)| BytesCase { data: B(data), io }).boxed()
}

pub fn property() -> Property {
    Property {
        id: "C11",
        rule: "fasta/fastq: 1-6 generated records (id of 1-12 non-blank characters, optional description without line breaks and without leading/trailing blanks, sequence of 1-2000 symbols of [A-Za-z*.-], qualities of the same length over '!'..'~' with '@' or '+' forced first in a third of the records) are written with the library writer (FASTA line wrap none or 1..80; write() or write_record(); default or small BufWriter) and read back with 1-3 reader configurations = BufReader capacity (1, 2..64, 8192) x cyclic read() schedule (1..3, 1..50, 1..9000 bytes or unfragmented, optionally with injected ErrorKind::Interrupted) x construction path (with_capacity, new, from_bufread; records() or repeated read()); oracle = the generated records themselves. The same records rendered by the harness with re-wrapped (uniform or ragged, identical for sequence and quality) lines, CRLF and an optional missing last terminator must parse to the same records; get_kind / get_kind_seek / EitherRecords must select the kind and give the same records. Then the stream (writer output or harness layout) is cut at every offset (streams <= 600 bytes) or 64 sampled offsets and every prefix is fed to the format's reader, the other format's reader and EitherRecords with an item cap of bytes+8 (no panic, terminates); FASTQ: records of a cut stream that pass check() must be a subsequence (original order) of the written records. bytes: random bytes, grammar-aware junk and damaged valid files through all three parsers (no panic, item cap). Non-trivial (fasta/fastq) = at least 2 records, one sequence longer than a used buffer capacity and a read() boundary strictly inside a record; (bytes) = at least 2 bytes and some parser produced an item. Distinct = distinct serialised case.",
        assumptions: &[
            "descriptions are non-empty and carry no leading/trailing blanks (a header line's trailing blanks and the empty description are not representable; the readers document trim_end)",
            "sequence lines never start with '>' or '+' (reserved by the formats); sequences are non-empty",
            "a line layout may leave the last line of the file unterminated (treated as part of 're-wrapping'/layout independence)",
            "the FASTA writer with line wrap w is expected to write lines of exactly w symbols (last line 1..w)",
            "nothing beyond no-panic/termination is asserted for truncated FASTA streams and arbitrary bytes",
        ],
        subs: vec![
            Box::new(PropSub {
                name: "C11/fasta",
                quick: 6_000,
                thorough: 200_000,
                shards_quick: 8,
                shards_thorough: 16,
                strat: strat_fasta,
                check,
                must_reach: &[
                    "sequence longer than buffer capacity",
                    "chunk boundary inside a record",
                    "capacity 1",
                    "description present",
                    "CRLF",
                    "last line unterminated",
                    "multi-line FASTA (re-layout)",
                    "writer wraps lines",
                    "every-offset truncation",
                    "sampled truncation",
                    "EINTR injected",
                    "repeated read() into one Record",
                ],
                watch: true,
            }),
            Box::new(PropSub {
                name: "C11/fastq",
                quick: 6_000,
                thorough: 200_000,
                shards_quick: 8,
                shards_thorough: 16,
                strat: strat_fastq,
                check,
                must_reach: &[
                    "sequence longer than buffer capacity",
                    "chunk boundary inside a record",
                    "capacity 1",
                    "quality starts with '@'",
                    "quality starts with '+'",
                    "description present",
                    "CRLF",
                    "multi-line FASTQ",
                    "wrapped quality line starts with '@'/'+'",
                    "every-offset truncation",
                    "sampled truncation",
                    "cut stream yields complete records",
                    "cut stream yields an error item",
                    "EINTR injected",
                ],
                watch: true,
            }),
            Box::new(PropSub {
                name: "C11/bytes",
                quick: 240_000,
                thorough: 8_000_000,
                shards_quick: 8,
                shards_thorough: 16,
                strat: strat_bytes,
                check: check_bytes,
                must_reach: &["invalid UTF-8", "sniffer rejects", "fasta reader yields a record", "fastq reader yields a record", "fastq reader continues after an error", "capacity 1", "empty input"],
                watch: true,
            }),
        ],
    }
}
