//! C11 — FASTA/FASTQ round trip is lossless, layout-independent and truncation-safe;
//! the fastx sniffer selects the matching parser.
//!
//! Sub-checks
//!   C11/fasta, C11/fastq : records -> writer -> bytes -> readers (every construction path,
//!                          BufReader capacity and read() fragmentation, with injected EINTR),
//!                          harness re-layout (re-wrapped lines, CRLF, optional final terminator),
//!                          sniffer (get_kind, get_kind_seek, EitherRecords), truncation at every /
//!                          sampled offsets through all three parsers.
//!   C11/bytes            : arbitrary bytes / grammar-aware junk / damaged valid files through
//!                          all three parsers: no panic, bounded number of items.

use crate::engine::gen::idx;
use crate::engine::*;
use crate::oracles::io::{new_log, wrap_cyclic, ChunkedReader, Log};
use crate::{ensure, fail};
use bio::io::fasta::FastaRead;
use bio::io::fastq::FastqRead;
use bio::io::fastx::Record as FxRecord;
use bio::io::{fasta, fastq, fastx};
use proptest::prelude::*;
use serde::{Deserialize, Serialize};
use std::io::{BufReader, Read};
use std::rc::Rc;

// ---------------------------------------------------------------------------
// case data

#[derive(Serialize, Deserialize, Debug, Clone, Copy, PartialEq, Eq)]
pub enum Kind {
    Fasta,
    Fastq,
}

#[derive(Serialize, Deserialize, Debug, Clone)]
pub struct Rec {
    pub id: String,
    pub desc: Option<String>,
    pub seq: B,
    /// same length as `seq`; ignored for FASTA
    pub qual: B,
}

#[derive(Serialize, Deserialize, Debug, Clone)]
pub struct Io {
    /// BufReader capacity (>= 1); path 2 (`Reader::new`) always uses std's default 8192
    pub cap: usize,
    /// cyclic read() schedule: n >= 1 = deliver at most n bytes, 0 = fail once with ErrorKind::Interrupted
    pub sched: Vec<u32>,
    /// 0: with_capacity + records(), 1: from_bufread + repeated read() into one Record,
    /// 2: new + records(), 3: from_bufread + records()
    pub path: u8,
}

#[derive(Serialize, Deserialize, Debug, Clone)]
pub struct Layout {
    /// cyclic line widths (each >= 1) applied to the sequence and, identically, to the quality string;
    /// empty = everything on one line
    pub widths: Vec<usize>,
    pub crlf: bool,
    /// false: the terminator of the very last line of the file is omitted
    pub final_newline: bool,
}

#[derive(Serialize, Deserialize, Debug, Clone)]
pub struct Case {
    pub kind: Kind,
    pub recs: Vec<Rec>,
    /// FASTA writer: set_linewrap
    pub wrap: Option<usize>,
    /// writer built with with_capacity(n) instead of new()
    pub wcap: Option<usize>,
    /// write through Record::with_attrs + write_record instead of write()
    pub via_record: bool,
    /// reader configurations; all are used for the round trip, truncations cycle through them
    pub ios: Vec<Io>,
    pub layout: Layout,
    /// truncate the harness layout instead of the writer's bytes
    pub cut_layout: bool,
    /// seed of the 64 sampled truncation offsets (a fixed function of this value, see `sampled_cuts`);
    /// only used when the stream is longer than ALL_CUTS_LIMIT
    pub cut_seed: u32,
    /// None: the writer writes into a Vec<u8>. Some(n): into a user-side `io::Write` that implements only
    /// `write` (accepting at most n >= 1 bytes per call: short writes are legal) and `flush` - no vectored
    /// writes, no `write_all` override (a compressor, a counting / hashing / tee wrapper)
    #[serde(default)]
    pub sink_max: Option<u32>,
}

/// see `Case::sink_max`
struct PlainSink<'a> {
    out: &'a mut Vec<u8>,
    max: usize,
}

impl<'a> std::io::Write for PlainSink<'a> {
    fn write(&mut self, buf: &[u8]) -> std::io::Result<usize> {
        let n = buf.len().min(self.max);
        self.out.extend_from_slice(&buf[..n]);
        Ok(n)
    }
    fn flush(&mut self) -> std::io::Result<()> {
        Ok(())
    }
}

fn mix(mut z: u64) -> u64 {
    z = z.wrapping_add(0x9e3779b97f4a7c15);
    z = (z ^ (z >> 30)).wrapping_mul(0xbf58476d1ce4e5b9);
    z = (z ^ (z >> 27)).wrapping_mul(0x94d049bb133111eb);
    z ^ (z >> 31)
}

/// 64 offsets in 0..=m: a fixed function of the seed (so the case stays small and shrinks fast);
/// always contains the last three offsets
fn sampled_cuts(seed: u32, m: usize) -> Vec<usize> {
    let mut v: Vec<usize> = (0..61u64).map(|j| idx((mix(((seed as u64) << 8) ^ j) & 0xffff) as u16, m)).collect();
    v.extend([m.saturating_sub(2), m.saturating_sub(1), m]);
    v.sort_unstable();
    v.dedup();
    v
}

/// streams up to this many bytes are cut at every offset
const ALL_CUTS_LIMIT: usize = 600;

// ---------------------------------------------------------------------------
// parsed view

#[derive(Clone, PartialEq, Eq)]
struct Parsed {
    id: String,
    desc: Option<String>,
    seq: Vec<u8>,
    qual: Option<Vec<u8>>,
}

impl std::fmt::Debug for Parsed {
    fn fmt(&self, f: &mut std::fmt::Formatter<'_>) -> std::fmt::Result {
        write!(f, "{{id {:?} desc {:?} seq {:?}", self.id, self.desc, lossy(&self.seq))?;
        if let Some(q) = &self.qual {
            write!(f, " qual {:?}", lossy(q))?;
        }
        write!(f, "}}")
    }
}

/// one item of a record stream: record + whether `check()` accepted it, or the error text
type Item = Result<(Parsed, bool), String>;

fn of_fasta(r: &fasta::Record) -> (Parsed, bool) {
    (Parsed { id: r.id().to_string(), desc: r.desc().map(|s| s.to_string()), seq: r.seq().to_vec(), qual: None }, r.check().is_ok())
}

fn of_fastq(r: &fastq::Record) -> (Parsed, bool) {
    (
        Parsed { id: r.id().to_string(), desc: r.desc().map(|s| s.to_string()), seq: r.seq().to_vec(), qual: Some(r.qual().to_vec()) },
        r.check().is_ok(),
    )
}

fn of_either(r: &fastx::EitherRecord) -> (Parsed, bool) {
    (
        Parsed {
            id: FxRecord::id(r).to_string(),
            desc: FxRecord::desc(r).map(|s| s.to_string()),
            seq: FxRecord::seq(r).to_vec(),
            qual: FxRecord::qual(r).map(|q| q.to_vec()),
        },
        FxRecord::check(r).is_ok(),
    )
}

fn model(kind: Kind, recs: &[Rec]) -> Vec<Parsed> {
    recs.iter()
        .map(|r| Parsed {
            id: r.id.clone(),
            desc: r.desc.clone(),
            seq: r.seq.0.clone(),
            qual: if kind == Kind::Fastq { Some(r.qual.0.clone()) } else { None },
        })
        .collect()
}

/// lazily built description of the stream under test (only needed for failure messages)
type What<'a> = &'a dyn Fn() -> String;

/// Drive an iterator that must be finite: at most `cap` items.
fn drive<T, E: std::fmt::Debug>(it: impl Iterator<Item = Result<T, E>>, cap: usize, conv: impl Fn(&T) -> (Parsed, bool), what: What) -> Result<Vec<Item>, Stop> {
    let mut out: Vec<Item> = Vec::new();
    for x in it {
        if out.len() >= cap {
            fail!("{}: does not terminate: more than {} items (stream length + 8)", what(), cap);
        }
        out.push(match x {
            Ok(r) => Ok(conv(&r)),
            Err(e) => Err(format!("{:?}", e)),
        });
    }
    Ok(out)
}

fn eff_cap(io: &Io) -> usize {
    if io.path % 4 == 2 {
        8192
    } else {
        io.cap.max(1)
    }
}

fn parse_fasta<R: Read>(src: R, io: &Io, cap: usize, what: What) -> Result<Vec<Item>, Stop> {
    let c = io.cap.max(1);
    match io.path % 4 {
        0 => drive(fasta::Reader::with_capacity(c, src).records(), cap, of_fasta, what),
        2 => drive(fasta::Reader::new(src).records(), cap, of_fasta, what),
        3 => drive(fasta::Reader::from_bufread(BufReader::with_capacity(c, src)).records(), cap, of_fasta, what),
        _ => {
            // the documented loop: read() into one reused Record until it comes back empty or fails
            let mut rd = fasta::Reader::from_bufread(BufReader::with_capacity(c, src));
            let mut rec = fasta::Record::new();
            let mut out: Vec<Item> = Vec::new();
            loop {
                if out.len() >= cap {
                    fail!("{}: read() loop does not terminate: more than {} records", what(), cap);
                }
                match rd.read(&mut rec) {
                    Err(e) => {
                        out.push(Err(format!("{:?}", e)));
                        break;
                    }
                    Ok(()) if rec.is_empty() => break,
                    Ok(()) => out.push(Ok(of_fasta(&rec))),
                }
            }
            Ok(out)
        }
    }
}

fn parse_fastq<R: Read>(src: R, io: &Io, cap: usize, what: What) -> Result<Vec<Item>, Stop> {
    let c = io.cap.max(1);
    match io.path % 4 {
        0 => drive(fastq::Reader::with_capacity(c, src).records(), cap, of_fastq, what),
        2 => drive(fastq::Reader::new(src).records(), cap, of_fastq, what),
        3 => drive(fastq::Reader::from_bufread(BufReader::with_capacity(c, src)).records(), cap, of_fastq, what),
        _ => {
            let mut rd = fastq::Reader::from_bufread(BufReader::with_capacity(c, src));
            let mut rec = fastq::Record::new();
            let mut out: Vec<Item> = Vec::new();
            loop {
                if out.len() >= cap {
                    fail!("{}: read() loop does not terminate: more than {} records", what(), cap);
                }
                match rd.read(&mut rec) {
                    Err(e) => {
                        out.push(Err(format!("{:?}", e)));
                        break;
                    }
                    Ok(()) if rec.is_empty() => break,
                    Ok(()) => out.push(Ok(of_fastq(&rec))),
                }
            }
            Ok(out)
        }
    }
}

fn parse_kind<R: Read>(kind: Kind, src: R, io: &Io, cap: usize, what: What) -> Result<Vec<Item>, Stop> {
    match kind {
        Kind::Fasta => parse_fasta(src, io, cap, what),
        Kind::Fastq => parse_fastq(src, io, cap, what),
    }
}

/// EitherRecords over a BufReader of the given capacity; optionally asks kind() first.
/// Returns (kind() answer if asked, items).
fn parse_either(src: ChunkedReader, io: &Io, ask_kind: bool, cap: usize, what: What) -> Result<(Option<Result<Kind, String>>, Vec<Item>), Stop> {
    let mut er = fastx::EitherRecords::new(BufReader::with_capacity(io.cap.max(1), src));
    let k = if ask_kind {
        Some(match er.kind() {
            Ok(fastx::Kind::FASTA) => Ok(Kind::Fasta),
            Ok(fastx::Kind::FASTQ) => Ok(Kind::Fastq),
            Err(e) => Err(format!("{:?}", e)),
        })
    } else {
        None
    };
    let items = drive(er, cap, of_either, what)?;
    Ok((k, items))
}

fn describe(items: &[Item]) -> String {
    let mut s = String::from("[");
    for (i, it) in items.iter().enumerate() {
        if i > 0 {
            s.push_str(", ");
        }
        match it {
            Ok((p, ok)) => s.push_str(&format!("{:?}{}", p, if *ok { "" } else { " (check() rejects)" })),
            Err(e) => s.push_str(&format!("Err({})", e)),
        }
        if s.len() > 1500 {
            s.push_str(", ...");
            break;
        }
    }
    s.push(']');
    s
}

fn show_bytes(b: &[u8]) -> String {
    if b.len() <= 400 {
        format!("{:?}", lossy(b))
    } else {
        format!("{:?}... ({} bytes)", lossy(&b[..400]), b.len())
    }
}

/// every item is a record equal to the model, in order, nothing more, nothing less
fn expect_exact(items: &[Item], want: &[Parsed], what: &str, bytes: &[u8], io: &Io) -> Result<(), Stop> {
    let ok = items.len() == want.len() && items.iter().zip(want).all(|(it, w)| matches!(it, Ok((p, _)) if p == w));
    ensure!(
        ok,
        "{}: stream {} read with capacity {} path {} schedule {:?}: got {} but the records are {:?}",
        what,
        show_bytes(bytes),
        eff_cap(io),
        io.path % 4,
        io.sched,
        describe(items),
        want
    );
    Ok(())
}

/// FASTQ clause for cut streams: the records that pass check() are original records in original order
fn expect_subsequence(items: &[Item], want: &[Parsed], what: &str, bytes: &[u8], cut: usize) -> Result<usize, Stop> {
    let mut j = 0;
    let mut n = 0;
    for it in items {
        if let Ok((p, true)) = it {
            if p.qual.is_none() {
                continue; // not a FASTQ record
            }
            while j < want.len() && &want[j] != p {
                j += 1;
            }
            ensure!(
                j < want.len(),
                "{}: stream {} cut at offset {}: record {:?} passes check() but is not one of the original records in original order {:?}; all items: {}",
                what,
                show_bytes(bytes),
                cut,
                p,
                want,
                describe(items)
            );
            j += 1;
            n += 1;
        }
    }
    Ok(n)
}

// ---------------------------------------------------------------------------
// rendering by the harness (independent of the writers)

fn render_one(kind: Kind, r: &Rec, widths: &[usize], nl: &[u8], out: &mut Vec<u8>) {
    out.push(if kind == Kind::Fasta { b'>' } else { b'@' });
    out.extend_from_slice(r.id.as_bytes());
    if let Some(d) = &r.desc {
        out.push(b' ');
        out.extend_from_slice(d.as_bytes());
    }
    out.extend_from_slice(nl);
    for l in wrap_cyclic(&r.seq, widths) {
        out.extend_from_slice(l);
        out.extend_from_slice(nl);
    }
    if kind == Kind::Fastq {
        out.push(b'+');
        out.extend_from_slice(nl);
        for l in wrap_cyclic(&r.qual, widths) {
            out.extend_from_slice(l);
            out.extend_from_slice(nl);
        }
    }
}

fn render(kind: Kind, recs: &[Rec], l: &Layout) -> Vec<u8> {
    let nl: &[u8] = if l.crlf { b"\r\n" } else { b"\n" };
    let mut out = Vec::new();
    for r in recs {
        render_one(kind, r, &l.widths, nl, &mut out);
    }
    if !l.final_newline && out.len() >= nl.len() {
        out.truncate(out.len() - nl.len());
    }
    out
}

fn write_with_library(c: &Case) -> Result<Vec<u8>, Stop> {
    let mut out: Vec<u8> = Vec::new();
    if let Some(mx) = c.sink_max {
        // same writer calls, other sink type
        let sink = PlainSink { out: &mut out, max: (mx as usize).max(1) };
        match c.kind {
            Kind::Fasta => {
                let mut w = match c.wcap {
                    Some(n) => fasta::Writer::with_capacity(n.max(1), sink),
                    None => fasta::Writer::new(sink),
                };
                w.set_linewrap(c.wrap);
                for r in &c.recs {
                    let res = if c.via_record { w.write_record(&fasta::Record::with_attrs(&r.id, r.desc.as_deref(), &r.seq)) } else { w.write(&r.id, r.desc.as_deref(), &r.seq) };
                    ensure!(res.is_ok(), "fasta::Writer failed on an in-memory sink for record {:?}: {:?}", r, res);
                }
                ensure!(w.flush().is_ok(), "fasta::Writer::flush failed on an in-memory sink");
            }
            Kind::Fastq => {
                let mut w = match c.wcap {
                    Some(n) => fastq::Writer::with_capacity(n.max(1), sink),
                    None => fastq::Writer::new(sink),
                };
                for r in &c.recs {
                    let res = if c.via_record { w.write_record(&fastq::Record::with_attrs(&r.id, r.desc.as_deref(), &r.seq, &r.qual)) } else { w.write(&r.id, r.desc.as_deref(), &r.seq, &r.qual) };
                    ensure!(res.is_ok(), "fastq::Writer failed on an in-memory sink for record {:?}: {:?}", r, res);
                }
                ensure!(w.flush().is_ok(), "fastq::Writer::flush failed on an in-memory sink");
            }
        }
        return Ok(out);
    }
    match c.kind {
        Kind::Fasta => {
            let mut w = match c.wcap {
                Some(n) => fasta::Writer::with_capacity(n.max(1), &mut out),
                None => fasta::Writer::new(&mut out),
            };
            w.set_linewrap(c.wrap);
            for r in &c.recs {
                let res = if c.via_record {
                    w.write_record(&fasta::Record::with_attrs(&r.id, r.desc.as_deref(), &r.seq))
                } else {
                    w.write(&r.id, r.desc.as_deref(), &r.seq)
                };
                ensure!(res.is_ok(), "fasta::Writer failed on an in-memory sink for record {:?}: {:?}", r, res);
            }
            let res = w.flush();
            ensure!(res.is_ok(), "fasta::Writer::flush failed on an in-memory sink: {:?}", res);
        }
        Kind::Fastq => {
            let mut w = match c.wcap {
                Some(n) => fastq::Writer::with_capacity(n.max(1), &mut out),
                None => fastq::Writer::new(&mut out),
            };
            for r in &c.recs {
                let res = if c.via_record {
                    w.write_record(&fastq::Record::with_attrs(&r.id, r.desc.as_deref(), &r.seq, &r.qual))
                } else {
                    w.write(&r.id, r.desc.as_deref(), &r.seq, &r.qual)
                };
                ensure!(res.is_ok(), "fastq::Writer failed on an in-memory sink for record {:?}: {:?}", r, res);
            }
            let res = w.flush();
            ensure!(res.is_ok(), "fastq::Writer::flush failed on an in-memory sink: {:?}", res);
        }
    }
    Ok(out)
}

/// FASTA writer with line wrap w: every record's sequence lines have exactly w symbols,
/// the last one 1..=w (no wrap: one line).  Sequences never contain '>' so header lines are
/// recognisable without the reader.
fn check_wrap_widths(c: &Case, written: &[u8]) -> Result<(), Stop> {
    let mut lens: Vec<Vec<usize>> = Vec::new();
    let body = match written.last() {
        Some(b'\n') => &written[..written.len() - 1],
        _ => written,
    };
    for line in body.split(|&b| b == b'\n') {
        if line.first() == Some(&b'>') {
            lens.push(Vec::new());
        } else if let Some(l) = lens.last_mut() {
            l.push(line.len());
        }
    }
    let mut want: Vec<Vec<usize>> = Vec::new();
    for r in &c.recs {
        let ws: Vec<usize> = c.wrap.iter().cloned().collect();
        // (an empty sequence: one empty line without line wrap, no sequence line at all with it)
        want.push(if r.seq.is_empty() && c.wrap.is_some() { Vec::new() } else { wrap_cyclic(&r.seq, &ws).iter().map(|l| l.len()).collect() });
    }
    ensure!(
        lens == want,
        "fasta::Writer with linewrap {:?} wrote {} : sequence line lengths per record {:?}, expected {:?}",
        c.wrap,
        show_bytes(written),
        lens,
        want
    );
    Ok(())
}

// ---------------------------------------------------------------------------
// the check

fn sched_of(io: &Io) -> &[u32] {
    &io.sched
}

pub fn check(c: &Case) -> R {
    ensure!(!c.recs.is_empty() && !c.ios.is_empty(), "harness: empty record list / io list generated");
    for r in &c.recs {
        // (a FASTA record without sequence is valid - check() accepts it - and round-trips; a FASTQ record needs a base)
        ensure!(!r.id.is_empty() && (c.kind == Kind::Fasta || (!r.seq.is_empty() && r.seq.len() == r.qual.len())), "harness: invalid record generated {:?}", r);
    }
    let kind = c.kind;
    let want = model(kind, &c.recs);
    let written = Rc::new(write_with_library(c)?);
    let n = written.len();
    let cap_items = n + 8;

    if kind == Kind::Fasta {
        check_wrap_widths(c, &written)?;
    }

    // (1) round trip under every reader configuration
    let log0: Log = new_log();
    for (i, io) in c.ios.iter().enumerate() {
        let src = ChunkedReader::whole(written.clone(), sched_of(io), if i == 0 { Some(log0.clone()) } else { None });
        let items = parse_kind(kind, src, io, cap_items, &|| format!("round trip of {} with {:?}", show_bytes(&written), io))?;
        expect_exact(&items, &want, "round trip (writer output)", &written, io)?;
    }

    // (1b) second generation: the Record objects the reader hands out (not records built from parts), written
    // again with the same writer settings, give the same bytes: lossless in both directions
    {
        let mut again: Vec<u8> = Vec::new();
        let mut count = 0usize;
        match kind {
            Kind::Fasta => {
                let mut w = fasta::Writer::new(&mut again);
                w.set_linewrap(c.wrap);
                for r in fasta::Reader::new(&written[..]).records().take(cap_items) {
                    let Ok(r) = r else { fail!("plain fasta::Reader over the writer output {} yields an error: {:?}", show_bytes(&written), r.err()) };
                    ensure!(w.write_record(&r).is_ok(), "fasta::Writer::write_record failed for a record obtained from the reader");
                    count += 1;
                }
                ensure!(w.flush().is_ok(), "fasta::Writer::flush failed");
            }
            Kind::Fastq => {
                let mut w = fastq::Writer::new(&mut again);
                for r in fastq::Reader::new(&written[..]).records().take(cap_items) {
                    let Ok(r) = r else { fail!("plain fastq::Reader over the writer output {} yields an error", show_bytes(&written)) };
                    ensure!(w.write_record(&r).is_ok(), "fastq::Writer::write_record failed for a record obtained from the reader");
                    count += 1;
                }
                ensure!(w.flush().is_ok(), "fastq::Writer::flush failed");
            }
        }
        ensure!(count == c.recs.len() && again == written[..], "records read from the writer output {} and written again (write_record, same line wrap) give {}: {} records, {} were written", show_bytes(&written), show_bytes(&again), count, c.recs.len());
    }

    // (2) harness layout: re-wrapped lines / CRLF / optional last terminator
    let relaid = Rc::new(render(kind, &c.recs, &c.layout));
    for io in c.ios.iter().take(2) {
        let src = ChunkedReader::whole(relaid.clone(), sched_of(io), None);
        let items = parse_kind(kind, src, io, relaid.len() + 8, &|| format!("re-layout {} with {:?}", show_bytes(&relaid), io))?;
        expect_exact(&items, &want, "re-layout (same records, other line layout)", &relaid, io)?;
    }

    // (3) sniffer
    {
        let io = &c.ios[0];
        // get_kind: first byte chained back in front
        let src = ChunkedReader::whole(written.clone(), sched_of(io), None);
        match fastx::get_kind(src) {
            Ok((chain, k)) => {
                let k = if k == fastx::Kind::FASTA { Kind::Fasta } else { Kind::Fastq };
                ensure!(k == kind, "get_kind on {} says {:?}, the stream is {:?}", show_bytes(&written), k, kind);
                let items = parse_kind(kind, chain, io, cap_items, &|| format!("reader returned by get_kind on {} with {:?}", show_bytes(&written), io))?;
                expect_exact(&items, &want, "reader returned by get_kind", &written, io)?;
            }
            Err(e) => fail!("get_kind on {} failed: {:?}", show_bytes(&written), e),
        }
        // get_kind_seek: position restored
        let mut src = ChunkedReader::whole(written.clone(), sched_of(io), None);
        match fastx::get_kind_seek(&mut src) {
            Ok(k) => {
                let k = if k == fastx::Kind::FASTA { Kind::Fasta } else { Kind::Fastq };
                ensure!(k == kind, "get_kind_seek on {} says {:?}, the stream is {:?}", show_bytes(&written), k, kind);
                let items = parse_kind(kind, src, io, cap_items, &|| format!("reader after get_kind_seek on {} with {:?}", show_bytes(&written), io))?;
                expect_exact(&items, &want, "same reader after get_kind_seek", &written, io)?;
            }
            Err(e) => fail!("get_kind_seek on {} failed: {:?}", show_bytes(&written), e),
        }
        // get_kind_seek on a stream that is NOT at offset 0 (a section of a larger stream, a cursor moved to a
        // later record): the byte is peeked at the current position and the position restored
        if c.recs.len() >= 2 {
            let j = 1 + (c.cut_seed as usize) % (c.recs.len() - 1);
            let mut head = c.clone();
            head.recs.truncate(j);
            let off = write_with_library(&head)?.len();
            ensure!(off < written.len() && written[off] == if kind == Kind::Fasta { b'>' } else { b'@' }, "harness: record {} of {} does not start at offset {}", j, show_bytes(&written), off);
            let mut src = ChunkedReader::whole(written.clone(), sched_of(io), None);
            use std::io::{Seek, SeekFrom};
            ensure!(src.seek(SeekFrom::Start(off as u64)).is_ok(), "harness: seek failed");
            match fastx::get_kind_seek(&mut src) {
                Ok(k) => {
                    let k = if k == fastx::Kind::FASTA { Kind::Fasta } else { Kind::Fastq };
                    ensure!(k == kind, "get_kind_seek at offset {} of {} says {:?}, the stream is {:?}", off, show_bytes(&written), k, kind);
                    let pos = src.stream_position().unwrap_or(u64::MAX);
                    ensure!(pos == off as u64, "get_kind_seek called at offset {} of {} leaves the stream at offset {}", off, show_bytes(&written), pos);
                    let items = parse_kind(kind, src, io, cap_items, &|| format!("reader after get_kind_seek at offset {} of {} with {:?}", off, show_bytes(&written), io))?;
                    expect_exact(&items, &want[j..], "same reader after get_kind_seek at the start of a later record", &written, io)?;
                }
                Err(e) => fail!("get_kind_seek at offset {} of {} failed: {:?}", off, show_bytes(&written), e),
            }
        }
        // EitherRecords, with and without asking kind() first, on both layouts
        for (j, data) in [&written, &relaid].into_iter().enumerate() {
            let io = &c.ios[j % c.ios.len()];
            let ask = (j == 0) ^ c.via_record;
            let src = ChunkedReader::whole(data.clone(), sched_of(io), None);
            let (k, items) = parse_either(src, io, ask, data.len() + 8, &|| format!("EitherRecords on {} with {:?}", show_bytes(data), io))?;
            if let Some(k) = k {
                ensure!(k == Ok(kind), "EitherRecords::kind() on {} says {:?}, the stream is {:?}", show_bytes(data), k, kind);
            }
            expect_exact(&items, &want, "EitherRecords", data, io)?;
        }
    }

    // (4)+(5) truncation
    let cut_src = if c.cut_layout { relaid.clone() } else { written.clone() };
    let m = cut_src.len();
    let all = m <= ALL_CUTS_LIMIT;
    let offsets: Vec<usize> = if all {
        (0..=m).collect()
    } else {
        sampled_cuts(c.cut_seed, m)
    };
    let other = if kind == Kind::Fasta { Kind::Fastq } else { Kind::Fasta };
    let mut cut_valid_records = 0usize;
    let mut cut_with_error = 0usize;
    for (k, &cut) in offsets.iter().enumerate() {
        let io = &c.ios[k % c.ios.len()];
        let cap = cut + 8;
        let items = parse_kind(kind, ChunkedReader::new(cut_src.clone(), cut, sched_of(io), None), io, cap, &|| format!("{:?} reader on {} cut at offset {} with {:?}", kind, show_bytes(&cut_src), cut, io))?;
        if kind == Kind::Fastq {
            cut_valid_records += expect_subsequence(&items, &want, "fastq::Reader", &cut_src, cut)?;
        }
        if items.iter().any(|i| i.is_err()) {
            cut_with_error += 1;
        }
        // the other parser and the sniffer see the same cut stream: no panic, bounded
        parse_kind(other, ChunkedReader::new(cut_src.clone(), cut, sched_of(io), None), io, cap, &|| format!("{:?} reader on {} cut at offset {} with {:?}", other, show_bytes(&cut_src), cut, io))?;
        let (_, items) = parse_either(ChunkedReader::new(cut_src.clone(), cut, sched_of(io), None), io, k % 2 == 0, cap, &|| format!("EitherRecords on {} cut at offset {} with {:?}", show_bytes(&cut_src), cut, io))?;
        if kind == Kind::Fastq {
            expect_subsequence(&items, &want, "EitherRecords", &cut_src, cut)?;
        }
    }

    // classes / non-triviality
    let mut starts: Vec<u64> = Vec::new();
    {
        let ws: Vec<usize> = c.wrap.iter().cloned().collect();
        let mut off = 0u64;
        for r in &c.recs {
            starts.push(off);
            let mut tmp = Vec::new();
            let w: &[usize] = if kind == Kind::Fasta { &ws } else { &[] };
            render_one(kind, r, w, b"\n", &mut tmp);
            off += tmp.len() as u64;
        }
    }
    let boundary_inside = log0.borrow().boundaries.iter().any(|&p| p > 0 && (p as usize) < n && !starts.contains(&p));
    let longer_than_cap = c.ios.iter().any(|io| c.recs.iter().any(|r| r.seq.len() > eff_cap(io)));
    let multi = c.recs.len() >= 2;
    let mut pass = Pass::new(multi && longer_than_cap && boundary_inside);
    pass.add_if(longer_than_cap, "sequence longer than buffer capacity");
    pass.add_if(boundary_inside, "chunk boundary inside a record");
    pass.add_if(c.ios.iter().any(|io| eff_cap(io) == 1), "capacity 1");
    pass.add_if(c.ios.iter().any(|io| eff_cap(io) == 8192), "capacity 8192 (default)");
    pass.add_if(c.ios.iter().any(|io| io.sched.contains(&0)), "EINTR injected");
    pass.add_if(c.ios.iter().any(|io| io.sched.iter().all(|&s| s <= 3)), "schedule of 1..3 byte reads");
    pass.add_if(c.ios.iter().any(|io| io.path % 4 == 1), "repeated read() into one Record");
    pass.add_if(c.ios.iter().any(|io| io.path % 4 == 3), "from_bufread");
    pass.add_if(c.recs.iter().any(|r| r.desc.is_some()), "description present");
    pass.add_if(c.recs.iter().any(|r| r.desc.is_none()), "no description");
    pass.add_if(c.kind == Kind::Fasta && c.recs.iter().any(|r| r.seq.is_empty()), "FASTA record without sequence");
    pass.add_if(c.kind == Kind::Fasta && c.recs.iter().any(|r| r.seq.is_empty() && r.desc.is_none()), "FASTA record without sequence and without description");
    pass.add_if(c.recs.iter().any(|r| r.desc.as_deref().map_or(false, |d| d.starts_with(' ') || d.starts_with('\t'))), "description starting with a blank");
    pass.add_if(c.recs.iter().any(|r| r.desc.as_deref().map_or(false, |d| d.contains('\t') || d.contains("  "))), "description with tab / double space");
    pass.add_if(c.recs.iter().any(|r| !r.id.is_ascii() || r.desc.as_deref().map_or(false, |d| !d.is_ascii())), "non-ASCII header");
    pass.add_if(c.layout.crlf, "CRLF");
    pass.add_if(!c.layout.final_newline, "last line unterminated");
    pass.add_if(c.layout.widths.len() >= 2, "ragged re-wrap");
    let min_w = c.layout.widths.iter().cloned().min();
    let rewrapped_multi = min_w.map_or(false, |w| c.recs.iter().any(|r| r.seq.len() > w));
    if kind == Kind::Fastq {
        pass.add_if(c.recs.iter().any(|r| r.qual.first() == Some(&b'@')), "quality starts with '@'");
        pass.add_if(c.recs.iter().any(|r| r.qual.first() == Some(&b'+')), "quality starts with '+'");
        pass.add_if(rewrapped_multi, "multi-line FASTQ");
        pass.add_if(
            min_w.map_or(false, |_| c.recs.iter().any(|r| wrap_cyclic(&r.qual, &c.layout.widths).iter().skip(1).any(|l| l[0] == b'@' || l[0] == b'+'))),
            "wrapped quality line starts with '@'/'+'",
        );
        pass.add_if(cut_valid_records > 0, "cut stream yields complete records");
    } else {
        pass.add_if(rewrapped_multi, "multi-line FASTA (re-layout)");
        pass.add_if(c.wrap.map_or(false, |w| c.recs.iter().any(|r| r.seq.len() > w)), "writer wraps lines");
        pass.add_if(c.wrap.map_or(false, |w| c.recs.iter().any(|r| r.seq.len() % w == 0 && r.seq.len() > w)), "sequence length multiple of wrap");
        pass.add_if(c.wrap == Some(1), "wrap 1");
    }
    pass.add_if(all, "every-offset truncation");
    pass.add_if(!all, "sampled truncation");
    pass.add_if(c.cut_layout, "truncation of the re-laid-out stream");
    pass.add_if(cut_with_error > 0, "cut stream yields an error item");
    pass.add_if(c.wcap.is_some(), "writer with small capacity");
    pass.add_if(c.sink_max.is_some(), "writer sink: user-side io::Write without vectored writes");
    pass.add_if(c.sink_max.is_some() && c.wcap.is_some() && c.wrap.is_some(), "user-side sink, small writer buffer, wrapped FASTA lines");
    pass.add_if(multi, ">= 2 records");
    Ok(pass)
}

// ---------------------------------------------------------------------------
// arbitrary bytes

#[derive(Serialize, Deserialize, Debug, Clone)]
pub struct BytesCase {
    pub data: B,
    pub io: Io,
}

pub fn check_bytes(c: &BytesCase) -> R {
    let data = Rc::new(c.data.0.clone());
    let n = data.len();
    let cap = n + 8;
    let mut io = c.io.clone();
    let mut fa_items = 0usize;
    let mut fq_items = 0usize;
    let mut fq_continued = false;
    let mut fa_rec = false;
    let mut fq_rec = false;
    for path in [io.path % 4, (io.path + 1) % 4] {
        io.path = path;
        let items = parse_fasta(ChunkedReader::whole(data.clone(), &io.sched, None), &io, cap, &|| format!("fasta reader on the bytes {} with {:?}", show_bytes(&data), io))?;
        fa_items += items.len();
        fa_rec |= items.iter().any(|i| i.is_ok());
        let items = parse_fastq(ChunkedReader::whole(data.clone(), &io.sched, None), &io, cap, &|| format!("fastq reader on the bytes {} with {:?}", show_bytes(&data), io))?;
        fq_items += items.len();
        fq_rec |= items.iter().any(|i| i.is_ok());
        if let Some(p) = items.iter().position(|i| i.is_err()) {
            fq_continued |= p + 1 < items.len();
        }
    }
    let (k, items) = parse_either(ChunkedReader::whole(data.clone(), &io.sched, None), &io, true, cap, &|| format!("EitherRecords (kind() first) on the bytes {} with {:?}", show_bytes(&data), io))?;
    let (_, items2) = parse_either(ChunkedReader::whole(data.clone(), &io.sched, None), &io, false, cap, &|| format!("EitherRecords on the bytes {} with {:?}", show_bytes(&data), io))?;
    let sniff_rejects = matches!(k, Some(Err(_)));
    let _ = fastx::get_kind(ChunkedReader::whole(data.clone(), &io.sched, None)).map(|_| ());
    let mut s = ChunkedReader::whole(data.clone(), &io.sched, None);
    let _ = fastx::get_kind_seek(&mut s);
    let _ = fastx::get_kind_detailed(ChunkedReader::whole(data.clone(), &io.sched, None)).map(|_| ()).map_err(|_| ());

    let mut pass = Pass::new(n >= 2 && (fa_items + fq_items + items.len() + items2.len()) > 0);
    pass.add_if(n == 0, "empty input");
    pass.add_if(std::str::from_utf8(&data).is_err(), "invalid UTF-8");
    pass.add_if(data.first() == Some(&b'>'), "starts with '>'");
    pass.add_if(data.first() == Some(&b'@'), "starts with '@'");
    pass.add_if(sniff_rejects, "sniffer rejects");
    pass.add_if(fa_rec, "fasta reader yields a record");
    pass.add_if(fq_rec, "fastq reader yields a record");
    pass.add_if(fq_continued, "fastq reader continues after an error");
    pass.add_if(data.contains(&b'\r'), "contains CR");
    pass.add_if(eff_cap(&c.io) == 1, "capacity 1");
    pass.add_if(data.split(|&b| b == b'\n').any(|l| l.len() > eff_cap(&c.io)), "line longer than capacity");
    Ok(pass)
}

// ---------------------------------------------------------------------------
// strategies

fn id_char() -> BoxedStrategy<char> {
    prop_oneof![
        150 => (b'!'..=b'~').prop_map(|b| b as char),
        1 => prop_oneof![Just('é'), Just('λ'), Just('日'), Just('ß')],
    ]
    .boxed()
}

fn id_strat() -> BoxedStrategy<String> {
    proptest::collection::vec(id_char(), 1..=12).prop_map(|v| v.into_iter().collect()).boxed()
}

/// non-empty, no line breaks, no trailing whitespace (the readers trim the end of the header line, that is how
/// CRLF is absorbed); tabs and runs of blanks inside and at the front (the id ends at the *first* blank)
fn desc_strat() -> BoxedStrategy<String> {
    let ch = prop_oneof![
        120 => (b'!'..=b'~').prop_map(|b| b as char),
        24 => Just(' '),
        4 => Just('\t'),
        1 => prop_oneof![Just('é'), Just('λ'), Just('日')],
    ];
    proptest::collection::vec(ch, 1..=24)
        .prop_map(|v| {
            let s: String = v.into_iter().collect();
            let t = s.trim_end_matches(|c| c == ' ' || c == '\t');
            if t.trim_start_matches(|c| c == ' ' || c == '\t').is_empty() {
                "d".to_string()
            } else {
                t.to_string()
            }
        })
        .boxed()
}

fn seq_char() -> BoxedStrategy<u8> {
    prop_oneof![
        6 => prop_oneof![Just(b'A'), Just(b'C'), Just(b'G'), Just(b'T'), Just(b'N')],
        2 => b'a'..=b'z',
        2 => b'A'..=b'Z',
        1 => prop_oneof![Just(b'*'), Just(b'.'), Just(b'-')],
    ]
    .boxed()
}

fn rec_strat() -> BoxedStrategy<Rec> {
    let first_q = prop_oneof![4 => b'!'..=b'~', 1 => Just(b'@'), 1 => Just(b'+')];
    let pair = || (seq_char(), b'!'..=b'~');
    // no flat_map: the union shrinks towards the shorter ranges
    let pairs = prop_oneof![
        3 => proptest::collection::vec(pair(), 1..=8),
        4 => proptest::collection::vec(pair(), 9..=70),
        2 => proptest::collection::vec(pair(), 71..=300),
        1 => proptest::collection::vec(pair(), 301..=2000),
    ];
    (id_strat(), proptest::option::weighted(0.6, desc_strat()), pairs, first_q)
        .prop_map(|(id, desc, pairs, fq)| {
            let seq: Vec<u8> = pairs.iter().map(|p| p.0).collect();
            let mut qual: Vec<u8> = pairs.iter().map(|p| p.1).collect();
            qual[0] = fq;
            Rec { id, desc, seq: B(seq), qual: B(qual) }
        })
        .boxed()
}

fn sched_strat() -> BoxedStrategy<Vec<u32>> {
    let sizes = prop_oneof![
        4 => proptest::collection::vec(1u32..=3, 1..=5),
        4 => proptest::collection::vec(1u32..=50, 1..=5),
        1 => proptest::collection::vec(1u32..=9000, 1..=3),
        1 => Just(vec![1_000_000u32]),
    ];
    // optional EINTR injections: zeros inserted after some of the entries (a positive entry always stays)
    (sizes, proptest::collection::vec(proptest::bool::weighted(0.25), 5), proptest::bool::weighted(0.4))
        .prop_map(|(sizes, zeros, inject)| {
            let mut v = Vec::new();
            for (i, s) in sizes.iter().enumerate() {
                v.push(*s);
                if inject && zeros[i % zeros.len()] {
                    v.push(0);
                }
            }
            v
        })
        .boxed()
}

fn io_strat() -> BoxedStrategy<Io> {
    let cap = prop_oneof![3 => Just(1usize), 3 => 2usize..=8, 3 => 9usize..=64, 1 => Just(8192usize)];
    (cap, sched_strat(), 0u8..4).prop_map(|(cap, sched, path)| Io { cap, sched, path }).boxed()
}

fn layout_strat() -> BoxedStrategy<Layout> {
    let widths = prop_oneof![
        2 => Just(Vec::<usize>::new()),
        3 => (1usize..=6).prop_map(|w| vec![w]),
        3 => (7usize..=80).prop_map(|w| vec![w]),
        2 => proptest::collection::vec(1usize..=30, 2..=4),
    ];
    (widths, proptest::bool::weighted(0.45), proptest::bool::weighted(0.8)).prop_map(|(widths, crlf, final_newline)| Layout { widths, crlf, final_newline }).boxed()
}

fn case_strat(kind: Kind) -> BoxedStrategy<Case> {
    let recs = prop_oneof![
        1 => proptest::collection::vec(rec_strat(), 1..=1),
        3 => proptest::collection::vec(rec_strat(), 2..=3),
        2 => proptest::collection::vec(rec_strat(), 4..=6),
    ];
    let wrap = prop_oneof![3 => Just(None), 2 => (1usize..=6).prop_map(Some), 4 => (7usize..=80).prop_map(Some)];
    (
        recs,
        wrap,
        proptest::option::weighted(0.3, 1usize..=64),
        any::<bool>(),
        proptest::collection::vec(io_strat(), 1..=3),
        layout_strat(),
        proptest::bool::weighted(0.4),
        any::<u32>(),
    )
        .prop_map(move |(mut recs, wrap, wcap, via_record, ios, layout, cut_layout, cut_seed)| {
            if kind == Kind::Fasta {
                // FASTA records without sequence (header line only): about one record in eight
                for (i, r) in recs.iter_mut().enumerate() {
                    if (cut_seed >> (8 + 3 * (i % 8))) & 7 == 0 {
                        r.seq = B(Vec::new());
                        r.qual = B(Vec::new());
                    }
                }
            }
            (recs, wrap, wcap, via_record, ios, layout, cut_layout, cut_seed)
        })
        .prop_map(move |(recs, wrap, wcap, via_record, ios, layout, cut_layout, cut_seed)| Case {
            kind,
            recs,
            wrap: if kind == Kind::Fasta { wrap } else { None },
            wcap,
            via_record,
            ios,
            layout,
            cut_layout,
            cut_seed,
            sink_max: match (cut_seed >> 3) % 4 {
                0 => Some(1 + (cut_seed >> 5) % 40),
                1 => Some(u32::MAX),
                _ => None,
            },
        })
        .boxed()
}

pub fn strat_fasta(_t: Tier) -> BoxedStrategy<Case> {
    case_strat(Kind::Fasta)
}

pub fn strat_fastq(_t: Tier) -> BoxedStrategy<Case> {
    case_strat(Kind::Fastq)
}

/// grammar-aware junk token
fn junk_token() -> BoxedStrategy<Vec<u8>> {
    prop_oneof![
        3 => Just(b">".to_vec()),
        3 => Just(b"@".to_vec()),
        3 => Just(b"+".to_vec()),
        5 => Just(b"\n".to_vec()),
        2 => Just(b"\r\n".to_vec()),
        1 => Just(b"\r".to_vec()),
        1 => Just(b" ".to_vec()),
        1 => Just(b"\t".to_vec()),
        4 => proptest::collection::vec(prop_oneof![Just(b'A'), Just(b'C'), Just(b'G'), Just(b'T'), Just(b'I'), Just(b'!')], 1..=12),
        1 => proptest::collection::vec(Just(b'A'), 60..=120),
        2 => Just(b"id desc".to_vec()),
        1 => Just(vec![0xffu8]),
        1 => Just(vec![0xc3u8]),
        1 => Just(vec![0x80u8]),
        1 => Just(vec![0xe6u8, 0x97]),
        1 => Just("é".as_bytes().to_vec()),
        1 => Just(vec![0u8]),
        1 => Just(b"\n\n".to_vec()),
        1 => Just(b"+\n".to_vec()),
        1 => Just(b"\n@".to_vec()),
        1 => Just(b"\n>".to_vec()),
    ]
    .boxed()
}

fn special_byte() -> BoxedStrategy<u8> {
    prop_oneof![
        Just(b'>'), Just(b'@'), Just(b'+'), Just(b'\n'), Just(b'\n'), Just(b'\r'), Just(b' '), Just(b'A'), Just(0xffu8), Just(0xc3u8), Just(0u8), any::<u8>()
    ]
    .boxed()
}

#[derive(Debug, Clone)]
enum Damage {
    Sub(u16, u8),
    Ins(u16, u8),
    Del(u16, u8),
    DupLine(u16),
    DropLine(u16),
}

fn apply_damage(mut v: Vec<u8>, ds: &[Damage]) -> Vec<u8> {
    for d in ds {
        match d {
            Damage::Sub(p, b) => {
                if !v.is_empty() {
                    let i = idx(*p, v.len() - 1);
                    v[i] = *b;
                }
            }
            Damage::Ins(p, b) => {
                let i = idx(*p, v.len());
                v.insert(i, *b);
            }
            Damage::Del(p, n) => {
                if !v.is_empty() {
                    let i = idx(*p, v.len() - 1);
                    let j = (i + 1 + (*n as usize % 8)).min(v.len());
                    v.drain(i..j);
                }
            }
            Damage::DupLine(p) | Damage::DropLine(p) => {
                let mut lines: Vec<Vec<u8>> = v.split_inclusive(|&b| b == b'\n').map(|l| l.to_vec()).collect();
                if !lines.is_empty() {
                    let i = idx(*p, lines.len() - 1);
                    if matches!(d, Damage::DupLine(_)) {
                        let l = lines[i].clone();
                        lines.insert(i, l);
                    } else {
                        lines.remove(i);
                    }
                }
                v = lines.concat();
            }
        }
    }
    v
}

fn damage_strat() -> BoxedStrategy<Damage> {
    prop_oneof![
        3 => (any::<u16>(), special_byte()).prop_map(|(p, b)| Damage::Sub(p, b)),
        3 => (any::<u16>(), special_byte()).prop_map(|(p, b)| Damage::Ins(p, b)),
        2 => (any::<u16>(), any::<u8>()).prop_map(|(p, n)| Damage::Del(p, n)),
        1 => any::<u16>().prop_map(Damage::DupLine),
        2 => any::<u16>().prop_map(Damage::DropLine),
    ]
    .boxed()
}

fn small_rec() -> BoxedStrategy<Rec> {
    (id_strat(), proptest::option::weighted(0.4, desc_strat()), proptest::collection::vec((seq_char(), b'!'..=b'~'), 1..=40))
        .prop_map(|(id, desc, pairs)| Rec { id, desc, seq: B(pairs.iter().map(|p| p.0).collect()), qual: B(pairs.iter().map(|p| p.1).collect()) })
        .boxed()
}

pub fn strat_bytes(_t: Tier) -> BoxedStrategy<BytesCase> {
    let data = prop_oneof![
        2 => proptest::collection::vec(any::<u8>(), 0..=120),
        5 => proptest::collection::vec(junk_token(), 0..=24).prop_map(|t| t.concat()),
        5 => (any::<bool>(), proptest::collection::vec(small_rec(), 1..=4), layout_strat(), proptest::collection::vec(damage_strat(), 1..=4), any::<u16>()).prop_map(
            |(fq, recs, layout, dmg, cut)| {
                let kind = if fq { Kind::Fastq } else { Kind::Fasta };
                let mut v = apply_damage(render(kind, &recs, &layout), &dmg);
                if cut % 4 == 0 {
                    let k = idx(cut, v.len());
                    v.truncate(k);
                }
                v
            }
        ),
    ];
    (data, io_strat()).prop_map(|(data, io)| BytesCase { data: B(data), io }).boxed()
}

// ---------------------------------------------------------------------------
// large-scale sub-checks (C11/large-*): every size parameter of the readers and writers is pushed
// across the threshold ladder 255..257, 511..513, ... 2^20+1 (oracles::scale::c111213).
//
// A case holds only parameters; the records, the file and the reader configurations are a fixed
// function of them (splitmix64 streams), so replay files stay tiny.  The scaled parameter is `what`:
//   Seq      length of ONE unwrapped sequence line (FASTA and FASTQ)
//   Wrap     line width (FASTA writer line wrap; FASTA/FASTQ harness layout with that width)
//   Lines    number of sequence (and quality) lines of ONE record
//   Desc/Id  byte length of the description / the id of one header line
//   Records  number of (small) records
//   Cap      BufReader capacity, lines straddling it (with_capacity, from_bufread, from_file_with_capacity)
//   Chunk    size of the pieces the underlying read() delivers (fill_buf returns that much at once)
//   WCap     BufWriter capacity of the writers (with_capacity, from_bufwriter, to_file_with_capacity)
//   FileHist histories on ONE path: long file, then a shorter one, then a medium one (to_file/from_file ...)
//   Cut      truncation offset (no panic, termination, FASTQ records passing check() are original ones)
//   Junk     length of arbitrary/structured junk (no panic, termination)
pub mod large {
    use super::*;
    use crate::oracles::scale::c111213::{band_label, intern, ladder, publish, Sm, TmpFiles};
    use std::borrow::Cow;
    use std::io::{BufRead, BufWriter, Cursor, Write};

    #[derive(Serialize, Deserialize, Debug, Clone, Copy, PartialEq, Eq)]
    pub enum What {
        Seq,
        Wrap,
        Lines,
        Desc,
        Id,
        Records,
        Cap,
        Chunk,
        WCap,
        FileHist,
        Cut,
        Junk,
    }

    #[derive(Serialize, Deserialize, Debug, Clone, Copy, PartialEq, Eq)]
    pub enum Pat {
        /// pseudo-random symbols
        Random,
        /// one symbol everywhere (quality: all '+' or all '@'); `Records`: all records identical
        Homo,
        /// short period (2..=7)
        Periodic,
    }

    #[derive(Serialize, Deserialize, Debug, Clone)]
    pub struct LCase {
        pub kind: Kind,
        pub what: What,
        /// value of the scaled parameter
        pub n: usize,
        /// secondary choice, meaning depends on `what` (shape of the record list, line width for `Lines`, junk kind ...)
        pub aux: usize,
        pub pat: Pat,
        pub seed: u64,
        /// the harness layout uses CRLF
        pub crlf: bool,
    }

    const SEQ_ALPH: &[u8] = b"ACGTNacgtnRYKMSWBDHV*-.";

    fn gen_seq(pat: Pat, n: usize, seed: u64) -> Vec<u8> {
        match pat {
            Pat::Homo => vec![SEQ_ALPH[(seed % 5) as usize]; n],
            Pat::Periodic => {
                let p = 2 + (seed % 6) as usize;
                (0..n).map(|i| SEQ_ALPH[i % p]).collect()
            }
            Pat::Random => {
                let mut g = Sm::new(seed, 0x5e9);
                let mut v = Vec::with_capacity(n + 8);
                while v.len() < n {
                    let mut x = g.next();
                    for _ in 0..8 {
                        v.push(SEQ_ALPH[(x & 0xff) as usize % SEQ_ALPH.len()]);
                        x >>= 8;
                    }
                }
                v.truncate(n);
                v
            }
        }
    }

    fn gen_qual(pat: Pat, n: usize, seed: u64) -> Vec<u8> {
        match pat {
            Pat::Homo => vec![[b'+', b'@', b'I'][(seed % 3) as usize]; n],
            Pat::Periodic => {
                let p = 2 + (seed % 6) as usize;
                (0..n).map(|i| b"@+I!>~#"[i % p]).collect()
            }
            Pat::Random => {
                let mut g = Sm::new(seed, 0x9a1);
                let mut v = Vec::with_capacity(n + 8);
                while v.len() < n {
                    let mut x = g.next();
                    for _ in 0..8 {
                        v.push(b'!' + ((x & 0xff) as u8) % 94);
                        x >>= 8;
                    }
                }
                v.truncate(n);
                if n > 0 {
                    match seed % 3 {
                        0 => v[0] = b'@',
                        1 => v[0] = b'+',
                        _ => {}
                    }
                }
                v
            }
        }
    }

    /// `n` bytes of header text: mode 0 = printable ASCII without blanks, 1 = with multi-byte UTF-8
    /// characters, 2 = ASCII with inner blanks, tabs and runs of blanks (descriptions only).
    /// First and last byte are ASCII letters/digits.
    fn gen_text(n: usize, seed: u64, mode: usize) -> String {
        let mut g = Sm::new(seed, 0x7e47 + mode as u64);
        let mut v: Vec<u8> = Vec::with_capacity(n);
        const EDGE: &[u8] = b"abcxyzABCXYZ0189";
        if n == 0 {
            return String::new();
        }
        v.push(EDGE[g.below(EDGE.len() as u64) as usize]);
        while v.len() + 1 < n {
            let room = n - 1 - v.len();
            let x = g.next();
            let r = x % 20;
            if mode == 1 && r == 0 && room >= 2 {
                v.extend_from_slice("é".as_bytes());
            } else if mode == 1 && r == 1 && room >= 3 {
                v.extend_from_slice("日".as_bytes());
            } else if mode == 2 && r < 3 {
                v.push(b' ');
            } else if mode == 2 && r == 3 {
                v.push(b'\t');
            } else {
                v.push(b'!' + ((x >> 8) % 94) as u8);
            }
        }
        if v.len() < n {
            v.push(EDGE[g.below(EDGE.len() as u64) as usize]);
        }
        String::from_utf8(v).expect("gen_text builds valid UTF-8")
    }

    fn small_rec(tag: &str, len: usize, seed: u64, with_desc: bool) -> Rec {
        Rec { id: tag.to_string(), desc: if with_desc { Some(format!("{} small  rec", tag)) } else { None }, seq: B(gen_seq(Pat::Random, len, seed ^ 0x11)), qual: B(gen_qual(Pat::Random, len, seed ^ 0x12)) }
    }

    fn big_rec(id: &str, desc: Option<String>, len: usize, pat: Pat, seed: u64) -> Rec {
        Rec { id: id.to_string(), desc, seq: B(gen_seq(pat, len, seed)), qual: B(gen_qual(pat, len, seed)) }
    }

    /// the records of a case: a short explicit list, or `n` small records that are a function of (seed, index)
    pub enum Recs {
        List(Vec<Rec>),
        Many { n: usize, seed: u64, pat: Pat },
    }

    fn many_rec(seed: u64, pat: Pat, i: usize) -> Rec {
        match pat {
            Pat::Homo => Rec { id: "x".into(), desc: None, seq: B(vec![b'A']), qual: B(vec![if seed & 1 == 1 { b'+' } else { b'@' }]) },
            _ => {
                let mut g = Sm::new(seed, i as u64);
                let len = 1 + g.below(6) as usize;
                let desc = if g.below(3) == 0 { Some(format!("d{} e", i % 10)) } else { None };
                Rec { id: format!("r{}", i), desc, seq: B(gen_seq(pat, len, g.next())), qual: B(gen_qual(pat, len, g.next())) }
            }
        }
    }

    /// `n` small records; materialised once when that stays small, otherwise regenerated on demand
    fn many(n: usize, seed: u64, pat: Pat) -> Recs {
        if n <= 300_000 {
            Recs::List((0..n).map(|i| many_rec(seed, pat, i)).collect())
        } else {
            Recs::Many { n, seed, pat }
        }
    }

    impl Recs {
        fn len(&self) -> usize {
            match self {
                Recs::List(v) => v.len(),
                Recs::Many { n, .. } => *n,
            }
        }
        fn get(&self, i: usize) -> Cow<'_, Rec> {
            match self {
                Recs::List(v) => Cow::Borrowed(&v[i]),
                Recs::Many { seed, pat, .. } => Cow::Owned(many_rec(*seed, *pat, i)),
            }
        }
    }

    // ---- what a reader returned

    pub struct Got {
        id: String,
        desc: Option<String>,
        seq: Vec<u8>,
        qual: Option<Vec<u8>>,
        ok: bool,
    }

    fn exc(b: &[u8]) -> String {
        if b.len() <= 80 {
            format!("{:?}", lossy(b))
        } else {
            format!("{:?}..{:?} ({} bytes)", lossy(&b[..40]), lossy(&b[b.len() - 40..]), b.len())
        }
    }

    fn show_got(g: &Got) -> String {
        format!("{{id {} desc {:?} seq {} qual {:?}}}", exc(g.id.as_bytes()), g.desc.as_ref().map(|d| exc(d.as_bytes())), exc(&g.seq), g.qual.as_ref().map(|q| exc(q)))
    }

    fn show_rec(kind: Kind, r: &Rec) -> String {
        format!("{{id {} desc {:?} seq {} qual {:?}}}", exc(r.id.as_bytes()), r.desc.as_ref().map(|d| exc(d.as_bytes())), exc(&r.seq), if kind == Kind::Fastq { Some(exc(&r.qual)) } else { None })
    }

    fn same(kind: Kind, g: &Got, r: &Rec) -> bool {
        g.id == r.id && g.desc == r.desc && g.seq == r.seq.0 && (kind == Kind::Fasta || g.qual.as_deref() == Some(&r.qual.0[..]))
    }

    fn first_diff(a: &[u8], b: &[u8]) -> usize {
        a.iter().zip(b.iter()).position(|(x, y)| x != y).unwrap_or(a.len().min(b.len()))
    }

    fn got_fa(r: &fasta::Record) -> Got {
        Got { id: r.id().to_string(), desc: r.desc().map(|s| s.to_string()), seq: r.seq().to_vec(), qual: None, ok: r.check().is_ok() }
    }
    fn got_fq(r: &fastq::Record) -> Got {
        Got { id: r.id().to_string(), desc: r.desc().map(|s| s.to_string()), seq: r.seq().to_vec(), qual: Some(r.qual().to_vec()), ok: r.check().is_ok() }
    }
    fn got_either(r: &fastx::EitherRecord) -> Got {
        Got { id: FxRecord::id(r).to_string(), desc: FxRecord::desc(r).map(|s| s.to_string()), seq: FxRecord::seq(r).to_vec(), qual: FxRecord::qual(r).map(|q| q.to_vec()), ok: FxRecord::check(r).is_ok() }
    }

    /// one pull = one item of the record stream (None = end)
    type Puller<'a> = Box<dyn FnMut() -> Option<Result<Got, String>> + 'a>;

    fn fa_iter<'a, I: Iterator<Item = std::io::Result<fasta::Record>> + 'a>(mut it: I) -> Puller<'a> {
        Box::new(move || it.next().map(|x| x.map(|r| got_fa(&r)).map_err(|e| format!("{:?}", e))))
    }
    fn fq_iter<'a, I: Iterator<Item = fastq::Result<fastq::Record>> + 'a>(mut it: I) -> Puller<'a> {
        Box::new(move || it.next().map(|x| x.map(|r| got_fq(&r)).map_err(|e| format!("{:?}", e))))
    }
    fn either_iter<'a, R: BufRead + 'a>(mut it: fastx::EitherRecords<R>) -> Puller<'a> {
        Box::new(move || it.next().map(|x| x.map(|r| got_either(&r)).map_err(|e| format!("{:?}", e))))
    }
    /// the documented loop: read() into one reused Record until it comes back empty or fails
    fn fa_loop<'a, Bf: BufRead + 'a>(mut rd: fasta::Reader<Bf>) -> Puller<'a> {
        let mut rec = fasta::Record::new();
        let mut done = false;
        Box::new(move || {
            if done {
                return None;
            }
            match rd.read(&mut rec) {
                Err(e) => {
                    done = true;
                    Some(Err(format!("{:?}", e)))
                }
                Ok(()) if rec.is_empty() => {
                    done = true;
                    None
                }
                Ok(()) => Some(Ok(got_fa(&rec))),
            }
        })
    }
    fn fq_loop<'a, Bf: BufRead + 'a>(mut rd: fastq::Reader<Bf>) -> Puller<'a> {
        let mut rec = fastq::Record::new();
        let mut done = false;
        Box::new(move || {
            if done {
                return None;
            }
            match rd.read(&mut rec) {
                Err(e) => {
                    done = true;
                    Some(Err(format!("{:?}", e)))
                }
                Ok(()) if rec.is_empty() => {
                    done = true;
                    None
                }
                Ok(()) => Some(Ok(got_fq(&rec))),
            }
        })
    }

    /// how the bytes reach a parser
    #[derive(Debug, Clone)]
    pub enum Via {
        /// `Reader::new(&bytes[..])`: default capacity, unfragmented
        SliceNew,
        /// `Reader::from_bufread(Cursor)`: fill_buf returns the whole rest of the stream at once
        CursorBufRead,
        /// `Reader::with_capacity(c, Cursor)`
        WithCap(usize),
        /// `Reader::from_bufread(BufReader::with_capacity(cap, chunked double))`, repeated read() into one Record
        ReadLoop { cap: usize, sched: Vec<u32> },
        /// `Reader::new(chunked double)`
        ChunkedNew { sched: Vec<u32> },
        /// `Reader::from_file(path)`
        File,
        /// `fasta::Reader::from_file_with_capacity(c, path)` (FASTQ has no such constructor: from_file)
        FileCap(usize),
        /// `EitherRecords::new(BufReader::with_capacity(cap, Cursor))`, optionally asking kind() first
        Either { cap: usize, ask: bool },
        /// `EitherRecords::from_file(path)` after `get_kind_file(path)`
        EitherFile,
        /// `get_kind(chunked double)`, then `Reader::new(returned chain)`
        GetKind { sched: Vec<u32> },
        /// `get_kind_seek(&mut Cursor)`, then `Reader::new(same cursor)`
        GetKindSeek,
    }

    fn kind_of(k: fastx::Kind) -> Kind {
        if k == fastx::Kind::FASTA {
            Kind::Fasta
        } else {
            Kind::Fastq
        }
    }

    /// Open `data[..end]` (or the file at `path` for the file variants) with parser `kind`.
    /// `expect_kind`: the stream is a complete file of that kind, the sniffers must say so.
    fn open<'a>(kind: Kind, via: &Via, data: &'a Rc<Vec<u8>>, end: usize, path: Option<&str>, expect_kind: Option<Kind>) -> Result<Puller<'a>, Stop> {
        let sl: &'a [u8] = &data[..end];
        let chunked = |sched: &[u32]| ChunkedReader::new(data.clone(), end, sched, None);
        let need_path = || -> Result<&str, Stop> {
            match path {
                Some(p) => Ok(p),
                None => Err(Stop::Fail("harness: file-based reader requested without a file".into())),
            }
        };
        Ok(match (via, kind) {
            (Via::SliceNew, Kind::Fasta) => fa_iter(fasta::Reader::new(sl).records()),
            (Via::SliceNew, Kind::Fastq) => fq_iter(fastq::Reader::new(sl).records()),
            (Via::CursorBufRead, Kind::Fasta) => fa_iter(fasta::Reader::from_bufread(Cursor::new(sl)).records()),
            (Via::CursorBufRead, Kind::Fastq) => fq_iter(fastq::Reader::from_bufread(Cursor::new(sl)).records()),
            (Via::WithCap(c), Kind::Fasta) => fa_iter(fasta::Reader::with_capacity((*c).max(1), Cursor::new(sl)).records()),
            (Via::WithCap(c), Kind::Fastq) => fq_iter(fastq::Reader::with_capacity((*c).max(1), Cursor::new(sl)).records()),
            (Via::ReadLoop { cap, sched }, Kind::Fasta) => fa_loop(fasta::Reader::from_bufread(BufReader::with_capacity((*cap).max(1), chunked(sched)))),
            (Via::ReadLoop { cap, sched }, Kind::Fastq) => fq_loop(fastq::Reader::from_bufread(BufReader::with_capacity((*cap).max(1), chunked(sched)))),
            (Via::ChunkedNew { sched }, Kind::Fasta) => fa_iter(fasta::Reader::new(chunked(sched)).records()),
            (Via::ChunkedNew { sched }, Kind::Fastq) => fq_iter(fastq::Reader::new(chunked(sched)).records()),
            (Via::File, Kind::Fasta) => match fasta::Reader::from_file(need_path()?) {
                Ok(r) => fa_iter(r.records()),
                Err(e) => fail!("fasta::Reader::from_file({:?}) failed on an existing file: {:?}", path, e),
            },
            (Via::File, Kind::Fastq) | (Via::FileCap(_), Kind::Fastq) => match fastq::Reader::from_file(need_path()?) {
                Ok(r) => fq_iter(r.records()),
                Err(e) => fail!("fastq::Reader::from_file({:?}) failed on an existing file: {:?}", path, e),
            },
            (Via::FileCap(c), Kind::Fasta) => match fasta::Reader::from_file_with_capacity((*c).max(1), need_path()?) {
                Ok(r) => fa_loop(r),
                Err(e) => fail!("fasta::Reader::from_file_with_capacity({}, {:?}) failed on an existing file: {:?}", c, path, e),
            },
            (Via::Either { cap, ask }, _) => {
                let mut er = fastx::EitherRecords::new(BufReader::with_capacity((*cap).max(1), Cursor::new(sl)));
                if *ask {
                    let k = er.kind().map(kind_of).map_err(|e| format!("{:?}", e));
                    if let Some(want) = expect_kind {
                        ensure!(k == Ok(want), "EitherRecords::kind() on a complete {:?} stream of {} bytes says {:?}", want, end, k);
                    }
                }
                either_iter(er)
            }
            (Via::EitherFile, _) => {
                let p = need_path()?;
                if let Some(want) = expect_kind {
                    let k = fastx::get_kind_file(p).map(kind_of).map_err(|e| format!("{:?}", e));
                    ensure!(k == Ok(want), "get_kind_file({:?}) on a complete {:?} file says {:?}", p, want, k);
                }
                match fastx::EitherRecords::from_file(p) {
                    Ok(er) => either_iter(er),
                    Err(e) => fail!("EitherRecords::from_file({:?}) failed on an existing file: {:?}", p, e),
                }
            }
            (Via::GetKind { sched }, _) => match fastx::get_kind(chunked(sched)) {
                Ok((chain, k)) => {
                    let k = kind_of(k);
                    if let Some(want) = expect_kind {
                        ensure!(k == want, "get_kind on a complete {:?} stream says {:?}", want, k);
                    }
                    match kind {
                        Kind::Fasta => fa_iter(fasta::Reader::new(chain).records()),
                        Kind::Fastq => fq_iter(fastq::Reader::new(chain).records()),
                    }
                }
                Err(e) => {
                    ensure!(expect_kind.is_none(), "get_kind on a complete {:?} stream failed: {:?}", expect_kind, e);
                    Box::new(|| None)
                }
            },
            (Via::GetKindSeek, _) => {
                let mut cur = Cursor::new(sl);
                match fastx::get_kind_seek(&mut cur) {
                    Ok(k) => {
                        let k = kind_of(k);
                        if let Some(want) = expect_kind {
                            ensure!(k == want, "get_kind_seek on a complete {:?} stream says {:?}", want, k);
                        }
                    }
                    Err(e) => ensure!(expect_kind.is_none(), "get_kind_seek on a complete {:?} stream failed: {:?}", expect_kind, e),
                }
                match kind {
                    Kind::Fasta => fa_iter(fasta::Reader::new(cur).records()),
                    Kind::Fastq => fq_iter(fastq::Reader::new(cur).records()),
                }
            }
        })
    }

    /// the stream must consist of exactly the records, in order
    fn expect_all(p: &mut Puller, kind: Kind, recs: &Recs, ctx: &dyn Fn() -> String) -> Result<(), Stop> {
        for i in 0..recs.len() {
            let r = recs.get(i);
            match p() {
                None => fail!("{}: the stream ends after {} of {} records", ctx(), i, recs.len()),
                Some(Err(e)) => fail!("{}: item #{} is Err({}) but record #{} of {} was written as {}", ctx(), i, e, i, recs.len(), show_rec(kind, &r)),
                Some(Ok(g)) => ensure!(
                    same(kind, &g, &r),
                    "{}: record #{} of {} reads back as {} but was written as {} (sequence differs first at {}, quality at {:?})",
                    ctx(),
                    i,
                    recs.len(),
                    show_got(&g),
                    show_rec(kind, &r),
                    first_diff(&g.seq, &r.seq),
                    g.qual.as_ref().map(|q| first_diff(q, &r.qual))
                ),
            }
        }
        match p() {
            None => Ok(()),
            Some(Ok(g)) => fail!("{}: an extra record {} follows the {} written records", ctx(), show_got(&g), recs.len()),
            Some(Err(e)) => fail!("{}: an extra item Err({}) follows the {} written records", ctx(), e, recs.len()),
        }
    }

    // ---- writing with the library

    #[derive(Debug, Clone)]
    pub enum WVia {
        New,
        Cap(usize),
        BufW(usize),
        File,
        FileCap(usize),
    }

    fn emit_fa<W: Write>(w: &mut fasta::Writer<W>, recs: &Recs, via_record: bool) -> Result<(), Stop> {
        for i in 0..recs.len() {
            let r = recs.get(i);
            let res = if via_record { w.write_record(&fasta::Record::with_attrs(&r.id, r.desc.as_deref(), &r.seq)) } else { w.write(&r.id, r.desc.as_deref(), &r.seq) };
            ensure!(res.is_ok(), "fasta::Writer failed on record #{}: {:?}", i, res);
        }
        Ok(())
    }

    fn emit_fq<W: Write>(w: &mut fastq::Writer<W>, recs: &Recs, via_record: bool) -> Result<(), Stop> {
        for i in 0..recs.len() {
            let r = recs.get(i);
            let res = if via_record { w.write_record(&fastq::Record::with_attrs(&r.id, r.desc.as_deref(), &r.seq, &r.qual)) } else { w.write(&r.id, r.desc.as_deref(), &r.seq, &r.qual) };
            ensure!(res.is_ok(), "fastq::Writer failed on record #{}: {:?}", i, res);
        }
        Ok(())
    }

    /// write the records with the library writer; `flush`: call flush() explicitly (otherwise the writer is
    /// only dropped, as in the crate's documentation examples).  File variants leave the file at `path`.
    #[allow(clippy::too_many_arguments)]
    fn write_lib(kind: Kind, recs: &Recs, wrap: Option<usize>, wv: &WVia, via_record: bool, flush: bool, path: Option<&str>) -> Result<Vec<u8>, Stop> {
        let mut out: Vec<u8> = Vec::new();
        macro_rules! run_fa {
            ($w:expr) => {{
                let mut w = $w;
                w.set_linewrap(wrap);
                emit_fa(&mut w, recs, via_record)?;
                if flush {
                    let r = w.flush();
                    ensure!(r.is_ok(), "fasta::Writer::flush failed: {:?}", r);
                }
            }};
        }
        macro_rules! run_fq {
            ($w:expr) => {{
                let mut w = $w;
                emit_fq(&mut w, recs, via_record)?;
                if flush {
                    let r = w.flush();
                    ensure!(r.is_ok(), "fastq::Writer::flush failed: {:?}", r);
                }
            }};
        }
        let file_err = |e: std::io::Error| Stop::Fail(format!("writer could not create the file {:?}: {:?}", path, e));
        match (kind, wv) {
            (Kind::Fasta, WVia::New) => run_fa!(fasta::Writer::new(&mut out)),
            (Kind::Fasta, WVia::Cap(c)) => run_fa!(fasta::Writer::with_capacity((*c).max(1), &mut out)),
            (Kind::Fasta, WVia::BufW(c)) => run_fa!(fasta::Writer::from_bufwriter(BufWriter::with_capacity((*c).max(1), &mut out))),
            (Kind::Fasta, WVia::File) => run_fa!(fasta::Writer::to_file(path.unwrap_or("")).map_err(file_err)?),
            (Kind::Fasta, WVia::FileCap(c)) => run_fa!(fasta::Writer::to_file_with_capacity((*c).max(1), path.unwrap_or("")).map_err(file_err)?),
            (Kind::Fastq, WVia::New) => run_fq!(fastq::Writer::new(&mut out)),
            (Kind::Fastq, WVia::Cap(c)) => run_fq!(fastq::Writer::with_capacity((*c).max(1), &mut out)),
            (Kind::Fastq, WVia::BufW(c)) => run_fq!(fastq::Writer::from_bufwriter(BufWriter::with_capacity((*c).max(1), &mut out))),
            (Kind::Fastq, WVia::File) => run_fq!(fastq::Writer::to_file(path.unwrap_or("")).map_err(file_err)?),
            (Kind::Fastq, WVia::FileCap(c)) => run_fq!(fastq::Writer::to_file_with_capacity((*c).max(1), path.unwrap_or("")).map_err(file_err)?),
        }
        if matches!(wv, WVia::File | WVia::FileCap(_)) {
            match std::fs::read(path.unwrap_or("")) {
                Ok(b) => out = b,
                Err(e) => fail!("the file {:?} written by the {:?} writer cannot be read back: {:?}", path, kind, e),
            }
        }
        Ok(out)
    }

    /// rendering by the harness (independent of the writers)
    fn render_recs(kind: Kind, recs: &Recs, widths: &[usize], crlf: bool, final_newline: bool) -> Vec<u8> {
        let nl: &[u8] = if crlf { b"\r\n" } else { b"\n" };
        let mut out = Vec::new();
        for i in 0..recs.len() {
            render_one(kind, &recs.get(i), widths, nl, &mut out);
        }
        if !final_newline && out.len() >= nl.len() {
            out.truncate(out.len() - nl.len());
        }
        out
    }

    /// FASTA writer with line wrap w: per record, all sequence lines have w symbols, the last 1..=w
    fn check_wrap(written: &[u8], recs: &Recs, w: usize, ctx: &dyn Fn() -> String) -> Result<(), Stop> {
        let mut it = written.split(|&b| b == b'\n');
        for i in 0..recs.len() {
            let r = recs.get(i);
            let h = it.next();
            ensure!(h.map_or(false, |h| h.first() == Some(&b'>')), "{}: record #{}: expected a header line, found {:?}", ctx(), i, h.map(exc));
            let mut left = r.seq.len();
            while left > 0 {
                let want = left.min(w);
                let l = it.next();
                ensure!(l.map_or(false, |l| l.len() == want), "{}: record #{} (sequence of {} symbols, line wrap {}): a sequence line has {:?} symbols, expected {}", ctx(), i, r.seq.len(), w, l.map(|l| l.len()), want);
                left -= want;
            }
        }
        let rest: Vec<&[u8]> = it.collect();
        ensure!(rest.len() == 1 && rest[0].is_empty(), "{}: {} unexpected trailing lines after the last record", ctx(), rest.len());
        Ok(())
    }

    // ---- scenarios

    fn straddle(n: usize, short: bool) -> Vec<usize> {
        let mut v: Vec<usize> = if short { vec![n.saturating_sub(1), n, n + 1] } else { vec![n.saturating_sub(2), n.saturating_sub(1), n, n + 1, 5, 2 * n - 1, 2 * n, 2 * n + 1] };
        v.retain(|&l| l >= 1);
        v
    }

    fn straddle_recs(c: &LCase) -> Recs {
        // above 200 000 only the three lengths around the scaled value (the stream stays below ~7 MB)
        Recs::List(straddle(c.n, c.aux % 2 == 1 || c.n > 200_000).iter().enumerate().map(|(i, &l)| big_rec(&format!("s{}", i), if i % 2 == 0 { Some(format!("len {}", l)) } else { None }, l, c.pat, c.seed.wrapping_add(i as u64))).collect())
    }

    fn three(c: &LCase, big: Rec) -> Recs {
        if c.aux % 4 == 3 {
            Recs::List(vec![big])
        } else {
            Recs::List(vec![small_rec("first", 7, c.seed, true), big, small_rec("last", 3, c.seed ^ 0xabc, false)])
        }
    }

    struct Scn {
        recs: Recs,
        /// FASTA writer line wrap
        wrap: Option<usize>,
        /// harness layout: cyclic widths
        widths: Vec<usize>,
        /// the unit that decides buffer-relative reader configurations (length of the longest line)
        unit: usize,
    }

    fn scenario(c: &LCase) -> Scn {
        let n = c.n.max(1);
        match c.what {
            What::Seq => Scn { recs: three(c, big_rec("big", Some("one line".into()), n, c.pat, c.seed)), wrap: None, widths: vec![], unit: n },
            What::Wrap => {
                let l = match c.aux % 3 {
                    0 => 2 * n + n / 2 + 1,
                    1 => 3 * n,
                    _ => n + 1,
                };
                Scn { recs: three(c, big_rec("big", None, l, c.pat, c.seed)), wrap: Some(n), widths: vec![n], unit: n }
            }
            What::Lines => {
                // wide lines only while the sequence stays small (the width ladder is `Wrap`'s business)
                let w = if n <= 70_001 { [1usize, 2, 3, 61][c.aux % 4] } else { [1usize, 2, 3][c.aux % 3] };
                let l = (n - 1) * w + 1 + (c.seed % w as u64) as usize;
                Scn { recs: Recs::List(vec![small_rec("first", 7, c.seed, true), big_rec("big", Some(format!("{} lines", n)), l, c.pat, c.seed), small_rec("last", 3, c.seed ^ 0xabc, false)]), wrap: Some(w), widths: vec![w], unit: w }
            }
            What::Desc => Scn { recs: three(c, big_rec("hdr", Some(gen_text(n, c.seed, c.aux % 3)), 9, Pat::Random, c.seed)), wrap: None, widths: vec![4], unit: n },
            What::Id => Scn { recs: three(c, big_rec(&gen_text(n, c.seed, c.aux % 2), if c.aux % 4 >= 2 { Some("after a long id".into()) } else { None }, 9, Pat::Random, c.seed)), wrap: None, widths: vec![4], unit: n },
            What::Records | What::FileHist | What::Cut | What::Junk => Scn { recs: many(n, c.seed, c.pat), wrap: if c.aux % 2 == 1 { Some(3) } else { None }, widths: vec![2], unit: 16 },
            What::Cap | What::Chunk | What::WCap => Scn { recs: straddle_recs(c), wrap: None, widths: vec![], unit: n },
        }
    }

    fn u32c(x: usize) -> u32 {
        x.min(u32::MAX as usize) as u32
    }

    /// reader configurations of the round trip, chosen relative to the unit (longest line / scaled value)
    fn vias(c: &LCase, unit: usize, file_len: usize) -> Vec<Via> {
        let n = unit.max(1);
        let mut g = Sm::new(c.seed, 0x71a5);
        let near = |g: &mut Sm| [n.saturating_sub(1).max(1), n, n + 1, n + 2][g.below(4) as usize];
        let mut v = match c.what {
            What::Cap => vec![
                Via::WithCap(c.n),
                Via::ReadLoop { cap: c.n, sched: vec![u32::MAX] },
                Via::ReadLoop { cap: c.n, sched: vec![u32c(c.n.saturating_sub(1).max(1)), 7] },
                Via::Either { cap: c.n, ask: g.coin() },
                Via::FileCap(c.n),
            ],
            What::Chunk => vec![
                Via::ReadLoop { cap: 8192, sched: vec![u32c(c.n)] },
                Via::ReadLoop { cap: 2 * c.n + 3, sched: vec![u32c(c.n)] },
                Via::ReadLoop { cap: c.n + 1, sched: vec![u32c(c.n), 1] },
                Via::ChunkedNew { sched: vec![u32c(c.n)] },
                Via::GetKind { sched: vec![u32c(c.n)] },
            ],
            _ => vec![
                Via::SliceNew,
                Via::CursorBufRead,
                Via::WithCap(near(&mut g)),
                Via::WithCap(2 * n + 7),
                Via::ReadLoop { cap: 8192, sched: vec![u32c(near(&mut g))] },
                Via::ReadLoop { cap: near(&mut g), sched: vec![u32::MAX] },
                Via::ChunkedNew { sched: vec![u32c(n.saturating_sub(1).max(1)), 3] },
                Via::Either { cap: near(&mut g), ask: g.coin() },
                Via::GetKind { sched: vec![u32c(n)] },
                Via::GetKindSeek,
                Via::File,
                Via::FileCap(near(&mut g)),
                Via::EitherFile,
            ],
        };
        // large streams: keep the work of one case bounded (a rotating subset of the configurations)
        let budget: usize = 48 << 20;
        let per = file_len.max(1) * if matches!(c.what, What::Records | What::Lines) { 6 } else { 1 };
        let keep = (budget / per).clamp(if huge(c) { 1 } else { 2 }, v.len());
        if keep < v.len() {
            let start = g.below(v.len() as u64) as usize;
            v.rotate_left(start);
            v.truncate(keep);
        }
        v
    }

    /// cases whose single pass over the stream already costs a few hundred milliseconds
    fn huge(c: &LCase) -> bool {
        matches!(c.what, What::Records | What::FileHist) && c.n > 300_000
    }

    fn what_name(w: What) -> &'static str {
        match w {
            What::Seq => "length of one sequence line",
            What::Wrap => "line width",
            What::Lines => "number of lines of one record",
            What::Desc => "description length",
            What::Id => "id length",
            What::Records => "number of records",
            What::Cap => "BufReader capacity",
            What::Chunk => "read() chunk size",
            What::WCap => "BufWriter capacity",
            What::FileHist => "file history: size of the long file",
            What::Cut => "truncation offset",
            What::Junk => "junk length",
        }
    }

    fn describe_case(c: &LCase) -> String {
        format!("{:?} {:?} n={} aux={} {:?} seed={} crlf={}", c.kind, c.what, c.n, c.aux, c.pat, c.seed, c.crlf)
    }

    /// pulls at most `cap` items (the cap of the property: stream length + 8); FASTQ clause for cut streams
    fn drain_cut(p: &mut Puller, cap: usize, sub: Option<(&Recs, &mut usize)>, ctx: &dyn Fn() -> String) -> Result<(usize, usize), Stop> {
        let mut items = 0usize;
        let mut good = 0usize;
        let mut sub = sub;
        loop {
            if items > cap {
                fail!("{}: does not terminate: more than {} items (stream length + 8)", ctx(), cap);
            }
            match p() {
                None => break,
                Some(Err(_)) => {}
                Some(Ok(g)) => {
                    if let (Some((recs, j)), true, true) = (sub.as_mut(), g.ok, g.qual.is_some()) {
                        // must be one of the original records, in original order
                        let mut k = **j;
                        while k < recs.len() && !same(Kind::Fastq, &g, &recs.get(k)) {
                            k += 1;
                        }
                        ensure!(k < recs.len(), "{}: record {} passes check() but is not one of the original records at or after index {} (original order)", ctx(), show_got(&g), **j);
                        **j = k + 1;
                        good += 1;
                    }
                }
            }
            items += 1;
        }
        Ok((items, good))
    }

    fn junk(n: usize, kindsel: usize, seed: u64) -> Vec<u8> {
        let rep = |unit: &[u8]| -> Vec<u8> { unit.iter().cycle().take(n).cloned().collect() };
        match kindsel % 14 {
            0 => rep(b">"),
            1 => rep(b"@"),
            2 => rep(b"+"),
            3 => rep(b"\n"),
            4 => rep(b"\r"),
            5 => rep(b"A"),
            6 => rep(&[0xff]),
            7 => rep(b"@\n"),
            8 => rep(b">\n"),
            9 => rep(b"+\n"),
            10 => rep(b"@a\nA\n+\n"),
            11 => rep(b"@a\nAC\nGT\n+\n@@\n"),
            12 => rep("é日".as_bytes()),
            _ => {
                let mut g = Sm::new(seed, 0x1a2b);
                (0..n).map(|_| (g.next() & 0xff) as u8).collect()
            }
        }
    }

    pub fn check_large(c: &LCase) -> R {
        let _published = publish(c);
        ensure!(c.n >= 1, "harness: n = 0");
        let mut tmp = TmpFiles::new("C11").map_err(|e| Stop::Fail(format!("harness: cannot create the temporary directory: {:?}", e)))?;
        let mut pass = Pass::new(c.n >= 255);
        pass.add(band_label(what_name(c.what), c.n as u64));
        pass.add(if c.kind == Kind::Fasta { "FASTA" } else { "FASTQ" });
        pass.add(match c.pat {
            Pat::Random => "random content",
            Pat::Homo => "homopolymer / all records equal",
            Pat::Periodic => "periodic content",
        });
        pass.add(intern(format!("scaled: {}", what_name(c.what))));
        match c.what {
            What::Junk => return check_junk(c, pass),
            What::Cut => return check_cut(c, pass),
            What::FileHist => return check_file_hist(c, pass, &mut tmp),
            _ => {}
        }
        let kind = c.kind;
        let s = scenario(c);
        let case = describe_case(c);
        let mut g = Sm::new(c.seed, 0x3c3c);

        // written by the library
        let path = tmp.path("rt");
        let wv = match c.what {
            What::WCap => WVia::Cap(c.n),
            _ => [WVia::New, WVia::Cap(1 + g.below(64) as usize), WVia::BufW(s.unit.max(1)), WVia::File, WVia::FileCap(s.unit + 1)][g.below(5) as usize].clone(),
        };
        let wrap = if kind == Kind::Fasta { s.wrap } else { None };
        let via_record = g.coin();
        let flush = g.below(3) != 0;
        let written = Rc::new(write_lib(kind, &s.recs, wrap, &wv, via_record, flush, Some(&path))?);
        if let (Kind::Fasta, Some(w)) = (kind, wrap) {
            check_wrap(&written, &s.recs, w, &|| format!("{}: fasta::Writer ({:?}) with line wrap {}", case, wv, w))?;
            pass.add("FASTA writer wraps lines");
        }
        if c.what == What::WCap {
            // the other capacity-taking constructors must give a stream that parses to the same records
            for wv2 in [WVia::BufW(c.n), WVia::FileCap(c.n)] {
                let p2 = tmp.path("wcap");
                let other = Rc::new(write_lib(kind, &s.recs, wrap, &wv2, !via_record, !flush, Some(&p2))?);
                let mut p = open(kind, &Via::SliceNew, &other, other.len(), None, Some(kind))?;
                expect_all(&mut p, kind, &s.recs, &|| format!("{}: round trip of the output of the writer built with {:?}", case, wv2))?;
            }
            pass.add("writers: with_capacity, from_bufwriter, to_file_with_capacity");
        }
        // the file-based readers need the stream on disk
        if !matches!(wv, WVia::File | WVia::FileCap(_)) {
            std::fs::write(&path, &written[..]).map_err(|e| Stop::Fail(format!("harness: cannot write {:?}: {:?}", path, e)))?;
        }
        let vs = vias(c, s.unit, written.len());
        for via in &vs {
            let mut p = open(kind, via, &written, written.len(), Some(&path), Some(kind))?;
            expect_all(&mut p, kind, &s.recs, &|| format!("{}: round trip (written through {:?}, {} bytes) read through {:?}", case, wv, written.len(), via))?;
            pass.add(match via {
                Via::SliceNew => "reader: new(slice)",
                Via::CursorBufRead => "reader: from_bufread(Cursor), unfragmented",
                Via::WithCap(_) => "reader: with_capacity",
                Via::ReadLoop { .. } => "reader: from_bufread + repeated read()",
                Via::ChunkedNew { .. } => "reader: new(chunked)",
                Via::File => "reader: from_file",
                Via::FileCap(_) => "reader: from_file_with_capacity",
                Via::Either { .. } => "reader: EitherRecords",
                Via::EitherFile => "reader: EitherRecords::from_file + get_kind_file",
                Via::GetKind { .. } => "reader: get_kind + new",
                Via::GetKindSeek => "reader: get_kind_seek + new",
            });
        }
        pass.add(match wv {
            WVia::New => "writer: new",
            WVia::Cap(_) => "writer: with_capacity",
            WVia::BufW(_) => "writer: from_bufwriter",
            WVia::File => "writer: to_file",
            WVia::FileCap(_) => "writer: to_file_with_capacity",
        });
        pass.add_if(!flush, "writer dropped without flush()");

        // harness layout: re-wrapped lines / CRLF / last terminator optional
        let final_newline = g.below(4) != 0;
        let relaid = Rc::new(render_recs(kind, &s.recs, &s.widths, c.crlf, final_newline));
        let lvs = [Via::SliceNew, Via::CursorBufRead, Via::ReadLoop { cap: s.unit.max(1), sched: vec![u32c(s.unit.max(2) - 1)] }, Via::Either { cap: s.unit + 1, ask: true }];
        let k = if huge(c) {
            0
        } else if relaid.len() > (8 << 20) {
            1
        } else {
            lvs.len()
        };
        let start = g.below(lvs.len() as u64) as usize;
        for j in 0..k {
            let via = &lvs[(start + j) % lvs.len()];
            let mut p = open(kind, via, &relaid, relaid.len(), None, Some(kind))?;
            expect_all(&mut p, kind, &s.recs, &|| format!("{}: harness layout (widths {:?}, crlf {}, last terminator {}, {} bytes) read through {:?}", case, s.widths, c.crlf, final_newline, relaid.len(), via))?;
        }
        pass.add_if(c.crlf, "CRLF layout");
        pass.add_if(!final_newline, "last line unterminated");
        pass.add_if(kind == Kind::Fastq && !s.widths.is_empty(), "multi-line FASTQ layout");
        Ok(pass)
    }

    fn check_junk(c: &LCase, mut pass: Pass) -> R {
        let data = Rc::new(junk(c.n, c.aux, c.seed));
        let cap = data.len() + 8;
        let case = describe_case(c);
        let mut items = 0;
        for kind in [Kind::Fasta, Kind::Fastq] {
            for via in [Via::SliceNew, Via::ReadLoop { cap: 64, sched: vec![u32c(c.n), 1] }, Via::CursorBufRead, Via::Either { cap: 8192, ask: true }, Via::GetKind { sched: vec![u32::MAX] }, Via::GetKindSeek] {
                let mut p = open(kind, &via, &data, data.len(), None, None)?;
                items += drain_cut(&mut p, cap, None, &|| format!("{}: {:?} parser through {:?} on {} bytes of junk {}", case, kind, via, data.len(), exc(&data)))?.0;
            }
        }
        pass.add_if(items > 0, "junk produces items");
        pass.add(intern(format!("junk kind {}", c.aux % 14)));
        Ok(pass)
    }

    fn check_cut(c: &LCase, mut pass: Pass) -> R {
        let kind = c.kind;
        let case = describe_case(c);
        // a stream longer than the cut offset
        let (recs, widths): (Recs, Vec<usize>) = match c.aux % 4 {
            0 => (many(c.n / 4 + 20, c.seed, c.pat), vec![]), // every record has at least 5 bytes
            1 => (Recs::List(vec![small_rec("first", 7, c.seed, true), big_rec("big", None, c.n + 100, c.pat, c.seed), small_rec("last", 3, c.seed, false)]), vec![]),
            2 => (Recs::List(vec![small_rec("first", 7, c.seed, true), big_rec("big", Some("wrapped".into()), c.n + 100, c.pat, c.seed), small_rec("last", 3, c.seed, false)]), vec![60]),
            // sequence line of 2n/3 symbols: the cut at n lies inside the (equally long) FASTQ quality line
            _ => (Recs::List(vec![small_rec("first", 7, c.seed, true), big_rec("big", None, if kind == Kind::Fastq { c.n * 2 / 3 + 60 } else { c.n + 100 }, c.pat, c.seed), small_rec("last", 3, c.seed, false)]), vec![]),
        };
        let data = Rc::new(render_recs(kind, &recs, &widths, c.crlf, true));
        ensure!(data.len() > c.n, "harness: the stream of {} bytes is not longer than the cut offset {}", data.len(), c.n);
        let cut = c.n;
        let cap = cut + 8;
        let other = if kind == Kind::Fasta { Kind::Fastq } else { Kind::Fasta };
        let mut good = 0;
        let mut items = 0;
        for via in [Via::SliceNew, Via::ReadLoop { cap: 8192, sched: vec![u32c(c.n / 2 + 1)] }, Via::CursorBufRead, Via::Either { cap: 512, ask: false }] {
            for k in [kind, other] {
                let mut j = 0usize;
                let mut p = open(k, &via, &data, cut, None, None)?;
                let sub = if kind == Kind::Fastq { Some((&recs, &mut j)) } else { None };
                let (it, gd) = drain_cut(&mut p, cap, sub, &|| format!("{}: {:?} parser through {:?} on the {:?} stream of {} bytes cut at offset {}", case, k, via, kind, data.len(), cut))?;
                items += it;
                good += gd;
            }
        }
        pass.add_if(good > 0, "cut stream yields complete FASTQ records");
        pass.add_if(items > 0, "cut stream yields items");
        pass.add(["cut: many small records", "cut: inside one long line", "cut: inside a wrapped record", if kind == Kind::Fastq { "cut: inside the long second line (FASTQ: quality line)" } else { "cut: inside one long line" }][c.aux % 4]);
        Ok(pass)
    }

    /// histories on ONE path: a long file, then a shorter one, then a medium one; every file is written
    /// by a file-based writer constructor and read back through every file-based reader entry point
    fn check_file_hist(c: &LCase, mut pass: Pass, tmp: &mut TmpFiles) -> R {
        let case = describe_case(c);
        let path = tmp.path("hist");
        let mut g = Sm::new(c.seed, 0xf11e);
        let other = if c.kind == Kind::Fasta { Kind::Fastq } else { Kind::Fasta };
        let long: Recs = if c.aux % 2 == 0 { many(c.n, c.seed, c.pat) } else { Recs::List(vec![big_rec("long", Some("the long file".into()), c.n, c.pat, c.seed), small_rec("tail", 5, c.seed, false)]) };
        let steps: Vec<(Kind, Recs)> = vec![
            (c.kind, long),
            (if c.aux % 4 >= 2 { other } else { c.kind }, Recs::List(vec![small_rec("short", 4, c.seed ^ 1, true)])),
            (c.kind, many((c.n / 7).max(2), c.seed ^ 2, Pat::Random)),
            (other, Recs::List(vec![small_rec("a", 1, c.seed ^ 3, false), small_rec("b", 2, c.seed ^ 4, false)])),
        ];
        for (i, (kind, recs)) in steps.iter().enumerate() {
            let wv = if g.coin() { WVia::File } else { WVia::FileCap([1usize, 64, 8192, c.n][g.below(4) as usize]) };
            let flush = g.coin();
            let wrap = if *kind == Kind::Fasta && g.coin() { Some(1 + g.below(70) as usize) } else { None };
            let written = Rc::new(write_lib(*kind, recs, wrap, &wv, g.coin(), flush, Some(&path))?);
            for via in [Via::File, Via::FileCap(1 + g.below(9000) as usize), Via::EitherFile, Via::SliceNew] {
                let mut p = open(*kind, &via, &written, written.len(), Some(&path), Some(*kind))?;
                expect_all(&mut p, *kind, recs, &|| format!("{}: step {} of the history on one path ({:?} file of {} records written through {:?}, {} bytes on disk) read through {:?}", case, i, kind, recs.len(), wv, written.len(), via))?;
            }
        }
        pass.add("file history: long, short, medium, short on one path");
        pass.add_if(c.aux % 4 >= 2, "file history: FASTA and FASTQ alternate on the path");
        Ok(pass)
    }

    // ---- enumeration (deterministic grid) and random strategy

    fn top(what: What, t: Tier) -> u64 {
        // largest ladder centre whose single case stays below about a second
        match (what, t) {
            (What::FileHist, Tier::Quick) => 131_072,
            _ => 1 << 20,
        }
    }

    fn grid(whats: &[What], t: Tier) -> Vec<LCase> {
        let mut out = Vec::new();
        let mut k = 0usize; // rotates the secondary choices so that every combination occurs along the ladder
        for seed in 1..=6u64 {
            for &what in whats {
                // quick: one seed; thorough: three seeds for the parameters that cost microseconds per unit, six for the others
                let nseeds = match (t, what) {
                    (Tier::Quick, _) => 1,
                    (_, What::Records) | (_, What::Lines) | (_, What::FileHist) => 3,
                    _ => 6,
                };
                if seed > nseeds {
                    continue;
                }
                let mut values = ladder(top(what, t));
                if seed == 1 {
                    values.splice(0..0, [1u64, 2, 63, 64, 65]);
                }
                for &n in &values {
                    for kind in [Kind::Fasta, Kind::Fastq] {
                        if what == What::Junk && kind == Kind::Fastq {
                            continue; // junk runs through both parsers anyway
                        }
                        if t == Tier::Quick && what == What::Records && (n == (1 << 19) - 1 || n == 1 << 19) {
                            continue; // 0.7 s each: the quick tier keeps 2^19+1 and all of 2^20-1..2^20+1
                        }
                        if t == Tier::Quick && matches!(what, What::Records | What::FileHist) && n > 60_000 && (kind == Kind::Fastq) != (n % 2 == 0) {
                            continue; // 0.2 - 1.5 s per case: the two formats alternate along the ladder
                        }
                        let reps = if t == Tier::Thorough && n <= 70_001 { 3 } else { 1 };
                        for _ in 0..reps {
                            k += 1;
                            out.push(LCase { kind, what, n: n as usize, aux: k, pat: [Pat::Random, Pat::Homo, Pat::Periodic][(k / 2) % 3], seed: seed.wrapping_mul(0x9e37_79b9) ^ (k as u64) << 7, crlf: (k / 3) % 2 == 1 });
                        }
                    }
                }
            }
        }
        out.sort_by_key(|c| c.n); // small first: the first failure is the smallest one of the grid
        out
    }

    pub fn enum_line(t: Tier) -> Box<dyn Iterator<Item = LCase>> {
        Box::new(grid(&[What::Seq, What::Wrap, What::Desc, What::Id], t).into_iter())
    }
    pub fn enum_lines(t: Tier) -> Box<dyn Iterator<Item = LCase>> {
        Box::new(grid(&[What::Lines], t).into_iter())
    }
    pub fn enum_records(t: Tier) -> Box<dyn Iterator<Item = LCase>> {
        Box::new(grid(&[What::Records], t).into_iter())
    }
    pub fn enum_buffer(t: Tier) -> Box<dyn Iterator<Item = LCase>> {
        Box::new(grid(&[What::Cap, What::Chunk, What::WCap], t).into_iter())
    }
    pub fn enum_stream(t: Tier) -> Box<dyn Iterator<Item = LCase>> {
        Box::new(grid(&[What::FileHist, What::Cut, What::Junk], t).into_iter())
    }

    /// the band labels every tier reaches for the given scenarios (quick-tier tops)
    pub fn reach(whats: &[What], extra: &[&'static str]) -> &'static [&'static str] {
        let mut v: Vec<&'static str> = Vec::new();
        for &w in whats {
            for &c in crate::oracles::scale::c111213::CENTRES {
                if c <= top(w, Tier::Quick) {
                    v.push(band_label(what_name(w), c));
                }
            }
        }
        v.extend_from_slice(extra);
        Box::leak(v.into_boxed_slice())
    }

    /// random parameters: values near the ladder (centre +- 3) or log-uniform in between, every scenario
    pub fn strat_random(_t: Tier) -> BoxedStrategy<LCase> {
        let what = proptest::sample::select(vec![What::Seq, What::Wrap, What::Lines, What::Desc, What::Id, What::Records, What::Cap, What::Chunk, What::WCap, What::FileHist, What::Cut, What::Junk]);
        let n = prop_oneof![
            3 => (proptest::sample::select(vec![256u64, 512, 1024, 4096, 8192, 16384, 32768, 65536, 70_000, 131_072]), 0u64..=6).prop_map(|(c, d)| c + d - 3),
            2 => (8u32..=17, any::<u16>()).prop_map(|(bits, r)| (1u64 << bits) + (r as u64 * ((1u64 << bits) - 1) >> 16)),
            1 => 1u64..=300,
        ];
        (what, n, any::<bool>(), 0usize..1000, proptest::sample::select(vec![Pat::Random, Pat::Homo, Pat::Periodic]), any::<u64>(), any::<bool>())
            .prop_map(|(what, n, fq, aux, pat, seed, crlf)| {
                // the expensive parameters stay below ~70 000 in the random sub-check (the grid covers the rest)
                let n = if matches!(what, What::Records | What::Lines | What::FileHist) { n.min(70_003) } else { n };
                LCase { kind: if fq { Kind::Fastq } else { Kind::Fasta }, what, n: n as usize, aux, pat, seed, crlf }
            })
            .boxed()
    }
}

pub fn property() -> Property {
    Property {
        id: "C11",
        rule: "fasta/fastq: 1-6 generated records (id of 1-12 non-blank characters, optional description without line breaks and without trailing blanks (leading blanks included), sequence of 1-2000 symbols of [A-Za-z*.-], qualities of the same length over '!'..'~' with '@' or '+' forced first in a third of the records) are written with the library writer (FASTA line wrap none or 1..80; write() or write_record(); default or small BufWriter) and read back with 1-3 reader configurations = BufReader capacity (1, 2..64, 8192) x cyclic read() schedule (1..3, 1..50, 1..9000 bytes or unfragmented, optionally with injected ErrorKind::Interrupted) x construction path (with_capacity, new, from_bufread; records() or repeated read()); oracle = the generated records themselves. The same records rendered by the harness with re-wrapped (uniform or ragged, identical for sequence and quality) lines, CRLF and an optional missing last terminator must parse to the same records; get_kind / get_kind_seek / EitherRecords must select the kind and give the same records. Then the stream (writer output or harness layout) is cut at every offset (streams <= 600 bytes) or 64 sampled offsets and every prefix is fed to the format's reader, the other format's reader and EitherRecords with an item cap of bytes+8 (no panic, terminates); FASTQ: records of a cut stream that pass check() must be a subsequence (original order) of the written records. bytes: random bytes, grammar-aware junk and damaged valid files through all three parsers (no panic, item cap). Non-trivial (fasta/fastq) = at least 2 records, one sequence longer than a used buffer capacity and a read() boundary strictly inside a record; (bytes) = at least 2 bytes and some parser produced an item. large-*: parameter-only cases (records, file and reader configurations are a fixed splitmix64 function of them) push ONE size parameter across the ladder 255..257, 511..513, 1023..1025, 4095..4097, 8191..8193, 16383..16385, 32767..32769, 65535..65537, 69999..70001, 131071..131073, 2^19+-1, 2^20+-1: length of one unwrapped sequence line, line width (FASTA writer wrap + harness layout for both formats), number of lines of one record (width 1-3/61; multi-line FASTQ with homopolymer '+'/'@' qualities), description / id length (ASCII, multi-byte UTF-8, inner blanks), number of records (all-equal and random), BufReader capacity and read() chunk size with lines straddling them, BufWriter capacity, histories on one path (long, short, medium, short file; formats alternating) through to_file / to_file_with_capacity / from_file / from_file_with_capacity / EitherRecords::from_file / get_kind_file, truncation offset (no panic, item cap, FASTQ records passing check() are original records in order) and junk length (14 junk kinds). Every round trip is read through unfragmented readers (slice, from_bufread(Cursor), File), with_capacity, from_bufread + repeated read() over the chunked double, EitherRecords, get_kind, get_kind_seek; oracle = the generated records, compared streaming. The large-* grids are enumerated (every ladder value by construction, smallest first), large-random draws the same cases at random (values near the ladder or log-uniform up to 2^18). Non-trivial (large) = scaled value >= 255. Distinct = distinct serialised case.",
        assumptions: &[
            "descriptions are non-empty and carry no trailing blanks (a header line's trailing blanks and the empty description are not representable; the readers document trim_end)",
            "sequence lines never start with '>' or '+' (reserved by the formats); sequences are non-empty",
            "a line layout may leave the last line of the file unterminated (treated as part of 're-wrapping'/layout independence)",
            "the FASTA writer with line wrap w is expected to write lines of exactly w symbols (last line 1..w)",
            "nothing beyond no-panic/termination is asserted for truncated FASTA streams and arbitrary bytes",
        ],
        subs: vec![
            Box::new(PropSub {
                name: "C11/fasta",
                quick: 6_000,
                thorough: 200_000,
                shards_quick: 8,
                shards_thorough: 16,
                strat: strat_fasta,
                check,
                must_reach: &[
                    "sequence longer than buffer capacity",
                    "chunk boundary inside a record",
                    "capacity 1",
                    "description present",
                    "CRLF",
                    "last line unterminated",
                    "multi-line FASTA (re-layout)",
                    "writer wraps lines",
                    "every-offset truncation",
                    "sampled truncation",
                    "EINTR injected",
                    "repeated read() into one Record",
                ],
                watch: true,
            }),
            Box::new(PropSub {
                name: "C11/fastq",
                quick: 6_000,
                thorough: 200_000,
                shards_quick: 8,
                shards_thorough: 16,
                strat: strat_fastq,
                check,
                must_reach: &[
                    "sequence longer than buffer capacity",
                    "chunk boundary inside a record",
                    "capacity 1",
                    "quality starts with '@'",
                    "quality starts with '+'",
                    "description present",
                    "CRLF",
                    "multi-line FASTQ",
                    "wrapped quality line starts with '@'/'+'",
                    "every-offset truncation",
                    "sampled truncation",
                    "cut stream yields complete records",
                    "cut stream yields an error item",
                    "EINTR injected",
                ],
                watch: true,
            }),
            Box::new(PropSub {
                name: "C11/bytes",
                quick: 240_000,
                thorough: 8_000_000,
                shards_quick: 8,
                shards_thorough: 16,
                strat: strat_bytes,
                check: check_bytes,
                must_reach: &["invalid UTF-8", "sniffer rejects", "fasta reader yields a record", "fastq reader yields a record", "fastq reader continues after an error", "capacity 1", "empty input"],
                watch: true,
            }),
            Box::new(ExhSub {
                name: "C11/large-line",
                enumerate: large::enum_line,
                check: large::check_large,
                must_reach: large::reach(
                    &[large::What::Seq, large::What::Wrap, large::What::Desc, large::What::Id],
                    &["FASTA", "FASTQ", "FASTA writer wraps lines", "multi-line FASTQ layout", "CRLF layout", "last line unterminated", "reader: from_bufread(Cursor), unfragmented", "reader: from_file", "reader: from_file_with_capacity", "reader: EitherRecords::from_file + get_kind_file", "writer: to_file", "writer: to_file_with_capacity", "writer: from_bufwriter", "writer dropped without flush()", "homopolymer / all records equal"],
                ),
            }),
            Box::new(ExhSub {
                name: "C11/large-lines",
                enumerate: large::enum_lines,
                check: large::check_large,
                must_reach: large::reach(&[large::What::Lines], &["FASTA", "FASTQ", "FASTA writer wraps lines", "multi-line FASTQ layout", "homopolymer / all records equal", "reader: from_bufread + repeated read()", "reader: from_file"]),
            }),
            Box::new(ExhSub {
                name: "C11/large-records",
                enumerate: large::enum_records,
                check: large::check_large,
                must_reach: large::reach(&[large::What::Records], &["FASTA", "FASTQ", "multi-line FASTQ layout", "homopolymer / all records equal", "reader: from_bufread + repeated read()", "reader: from_file"]),
            }),
            Box::new(ExhSub {
                name: "C11/large-buffer",
                enumerate: large::enum_buffer,
                check: large::check_large,
                must_reach: large::reach(&[large::What::Cap, large::What::Chunk, large::What::WCap], &["FASTA", "FASTQ", "reader: with_capacity", "reader: from_file_with_capacity", "reader: new(chunked)", "reader: get_kind + new", "writers: with_capacity, from_bufwriter, to_file_with_capacity"]),
            }),
            Box::new(ExhSub {
                name: "C11/large-stream",
                enumerate: large::enum_stream,
                check: large::check_large,
                must_reach: large::reach(
                    &[large::What::FileHist, large::What::Cut, large::What::Junk],
                    &["file history: long, short, medium, short on one path", "file history: FASTA and FASTQ alternate on the path", "cut stream yields complete FASTQ records", "cut: many small records", "cut: inside one long line", "cut: inside a wrapped record", "cut: inside the long second line (FASTQ: quality line)", "junk produces items"],
                ),
            }),
            Box::new(PropSub {
                name: "C11/large-random",
                quick: 1_600,
                thorough: 32_000,
                shards_quick: 8,
                shards_thorough: 16,
                strat: large::strat_random,
                check: large::check_large,
                must_reach: &[
                    "scaled: length of one sequence line", "scaled: line width", "scaled: number of lines of one record", "scaled: description length", "scaled: id length", "scaled: number of records", "scaled: BufReader capacity", "scaled: read() chunk size", "scaled: BufWriter capacity", "scaled: file history: size of the long file", "scaled: truncation offset", "scaled: junk length",
                ],
                watch: true,
            }),
        ],
    }
}
